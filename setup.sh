#!/bin/sh
# Build the static part of the Coq development and everything regenerated from /repo's current tree.
cd "$(dirname "$0")" || exit 2
export PYTHONPATH="$(pwd):${PV_REPO:-/repo}" PYTHONHASHSEED=0 PYTHONDONTWRITEBYTECODE=1
exec /venv/bin/python -m pv.setup
