(* GENERATED from /repo by pv/regen.py on every run — do not edit. *)
Definition gen_task_seed_is_int : bool := true.
