(* GENERATED from /repo by pv/regen.py on every run — do not edit. *)
From Coq Require Import List ZArith Bool Arith.
From PV Require Import Xnum Select PyLib Argsort.
Import ListNotations.

Section Gen.
Variable C : Type.
Variable L : Type.
Variable inverse_transform : list nat -> list L.

Definition gen_cont_correct (lower_bound : xnum) (upper_bound : xnum) (value : xnum) : xnum :=
  (xclip value lower_bound upper_bound).

Definition gen_cont_validate (lower_bound : xnum) (upper_bound : xnum) : (option unit) :=
  if (xleb upper_bound lower_bound) then None else
  (Some tt).

Definition gen_disc_get_bounds (choices : (list C)) : (Z * Z) :=
  ((0)%Z, ((Z.of_nat (length choices)) - (1)%Z)%Z).

Definition gen_disc_correct (choices : (list C)) (value : xnum) : (option Z) :=
  let '(lb, ub) := (gen_disc_get_bounds choices) in
  (xtrunc (xclip value (xint lb) (xint ub))).

Definition gen_disc_decode (choices : (list C)) (value : xnum) : (option C) :=
  (obind (xtrunc value) (py_getitem choices)).

Definition gen_perm_correct (value : (list xnum)) (pi : (list nat)) : (list nat) :=
  (argsort_nat pi).

Definition gen_perm_decode (value : (list xnum)) (pi : (list nat)) : (list L) :=
  let value_v1 := (gen_perm_correct value pi) in
  (inverse_transform value_v1).

Definition gen_binary_validate (v : Z) : (option Z) :=
  if (Z.leb v (0)%Z) then None else
  (Some v).
End Gen.

Definition gen_cont_correct_mutates_param : bool := false.
Definition gen_cont_validate_mutates_param : bool := false.
Definition gen_disc_get_bounds_mutates_param : bool := false.
Definition gen_disc_correct_mutates_param : bool := false.
Definition gen_disc_decode_mutates_param : bool := false.
Definition gen_perm_correct_mutates_param : bool := false.
Definition gen_perm_decode_mutates_param : bool := false.
Definition gen_binary_validate_mutates_param : bool := false.
