(* GENERATED from /repo by pv/regen.py on every run — do not edit. *)
From Coq Require Import List ZArith Bool Arith.
From PV Require Import Xnum Select PyLib Argsort Vars Init.
Import ListNotations.

Section Gen.
Variable W : Type.
Variable dot : list xnum -> list W -> xnum.
Variable FT : Type.
Variable fitness_of : xnum -> dir -> FT.
Variable obj : list coord -> objv.
Variable F : Type.
Variables (fadd fdiv : F -> F -> F) (fabs fopp : F -> F) (fleb fltb : F -> F -> bool) (fzero fone : F).

Definition gen_task_correct_solution (t : task) (solution : (list coord)) : (option (list coord)) :=
  let variables := (flat_vars t) in
  (map_opt (fun p_ => let '(c, v) := p_ in (correct1 v c)) (zip solution variables)).

Definition gen_task_solve (t : task) (x : (list coord)) : (option objv) :=
  match (gen_task_correct_solution t x) with None => None | Some solution =>
  (Some (obj solution)) end.

Definition gen_task_initial_solution (t : task) (solution : (option (list coord))) (draw : (list coord)) : (option (list coord)) :=
  let solution_v1 := solution in
  (gen_task_correct_solution t (match solution_v1 with Some s_ => s_ | None => draw end)).

Definition gen_fcn (t : task) (d : dir) (x : (list coord)) : (option objv) :=
  match (gen_task_solve t x) with None => None | Some cost =>
  if (dir_eqb d MIN) then (Some cost) else
  (Some (objv_neg cost)) end.

Definition gen_init_agent (t : task) (d : dir) (w : (option (list W))) (position : (option (list coord))) (draw : (list coord)) : (option (agent FT)) :=
  match (gen_task_initial_solution t position draw) with None => None | Some position_v1 =>
  match (gen_fcn t d position_v1) with None => None | Some cost =>
  let n_weights := (n_weights W w) in
  let n_objectives := (objv_count cost) in
  if (negb (Nat.eqb n_weights n_objectives)) then None else
  match (mix W dot cost w) with None => None | Some cost_v2 =>
  (Some {| a_pos := position_v1; a_cost := cost_v2; a_fit := fitness_of cost_v2 d |}) end end end.

Definition gen_fitness (value : F) (task_type : dir) : F :=
  let value_v1 := (if (dir_eqb task_type MIN) then value else (fopp value)) in
  (if (fleb fzero value_v1) then (fdiv fone (fadd value_v1 fone)) else (fadd fone (fabs value_v1))).

Definition gen_task_validate_weights (weights : (option (list xnum))) : (option unit) :=
  if (negb (is_some weights)) then (Some tt) else
  if (negb (forallb (fun w_ => xleb (XFin 0) w_) (opt_list weights))) then None else
  (Some tt).
End Gen.

Definition gen_task_correct_solution_mutates_param : bool := false.
Definition gen_task_solve_mutates_param : bool := false.
Definition gen_task_initial_solution_mutates_param : bool := false.
Definition gen_fcn_mutates_param : bool := false.
Definition gen_init_agent_mutates_param : bool := false.
Definition gen_fitness_mutates_param : bool := false.
Definition gen_task_validate_weights_mutates_param : bool := false.
