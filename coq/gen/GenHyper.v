(* GENERATED from /repo/pyvolutionary/hypertuner.py and multitask.py by pv/thyper.py on every run — do not edit. *)
Definition gen_multitask_shape : bool := true.
Definition gen_pool_shape : bool := true.
Definition gen_hypertuner_selection_shape : bool := true.
Definition gen_hypertuner_resolve_shape : bool := true.
