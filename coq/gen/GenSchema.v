(* GENERATED from /repo/pyvolutionary/abstract.py by pv/tschema.py on every run — do not edit. *)
From Coq Require Import List.
From PV Require Import Loop.
Import ListNotations.

Definition gen_optimize_schema : list stmt :=
  [SCheckConfig; SSeed; SInitEvolution; SResetCycle; SResetErrors; SResetDiffs; SWorkers; SMode; SSetTask; SBeforeInit; SInitPop; SSnapshot; SSpecial 1 1; SAfterInit; SWhile [SStep; SSnapshot; SSpecial 1 1; SErrorCheck; SBreakIfStop; SIncCycle]; SReturn].
