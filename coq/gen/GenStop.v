(* GENERATED from /repo by pv/regen.py on every run — do not edit. *)
From Coq Require Import List ZArith Bool Arith.
From PV Require Import Xnum Select PyLib Loop.
Import ListNotations.

Section Gen.
Variable F : Type.
Variables (fsub : F -> F -> F) (fabs : F -> F) (fltb fleb : F -> F -> bool) (fzero fone : F).
Variable A : Type.
Variable cost : A -> xnum.
Variable with_cost : A -> xnum -> A.

Definition gen_should_stop (c : (cfg F)) (cycle : nat) (diffs : (list F)) (current_error : F) : bool :=
  let fitness_error := (fitness_error c) in
  let max_cycles := (max_cycles c) in
  let early_stopping := (early c) in
  let cycle := cycle in
  let has_to_stop := (Nat.leb max_cycles cycle) in
  let has_to_stop_v3 := match early_stopping with Some early_stopping_v1 =>
      let min_delta := (min_delta early_stopping_v1) in
  let patience := (patience early_stopping_v1) in
  let has_to_stop_v2 := orb has_to_stop (forallb (fun diff => (andb (fltb diff fzero) (fltb (fabs diff) min_delta))) (lastn patience diffs)) in
  has_to_stop_v2
    | None => has_to_stop end in
  let has_to_stop_v6 := match fitness_error with Some fitness_error_v4 =>
      let has_to_stop_v5 := orb has_to_stop_v3 (fleb current_error fitness_error_v4) in
  has_to_stop_v5
    | None => has_to_stop_v3 end in
  has_to_stop_v6.

(* gen_error_check: not translated: attr self._previous_error *)

Definition gen_population_refine (a : A) (tt : dir) : A :=
  if (dir_eqb tt MIN) then a else
  (with_cost a (xneg (cost a))).

Definition gen_result_refine (a : A) (tt : dir) : A :=
  if (dir_eqb tt MIN) then a else
  (with_cost a (xneg (cost a))).
End Gen.

Definition gen_should_stop_mutates_param : bool := false.
Definition gen_population_refine_mutates_param : bool := false.
Definition gen_result_refine_mutates_param : bool := false.
