(* GENERATED from /repo/pyvolutionary/*/ by pv/talgo.py on every run — do not edit. *)
From Coq Require Import String List.
From PV Require Import Skeleton.
Import ListNotations.
Open Scope string_scope.

Definition sk_AfricanVultureOptimization : skeleton := {|
  sk_name := "AfricanVultureOptimization";
  sk_step := [WMap true]; sk_after_init := []; sk_before_init := [];
  sk_init_pop_overridden := false;
  sk_raw_sites := 0; sk_core_writes := 0; sk_objective_calls := 0;
  sk_reflection := 0; sk_init_agent_ok := true; sk_greedy := GMin;
  sk_config_writes := []; sk_task_writes := [];
  sk_stale := ["_previous_error"]; sk_entropy := [];
  sk_reads_fitness := false; sk_reads_direction := false;
  sk_ctor_deref := []; sk_set_config_canonical := true;
  sk_fingerprint := "01884b41effbe190" |}.

Definition sk_AntColonyOptimization : skeleton := {|
  sk_name := "AntColonyOptimization";
  sk_step := [WExtendTrim]; sk_after_init := []; sk_before_init := [];
  sk_init_pop_overridden := false;
  sk_raw_sites := 0; sk_core_writes := 0; sk_objective_calls := 0;
  sk_reflection := 0; sk_init_agent_ok := true; sk_greedy := GMin;
  sk_config_writes := []; sk_task_writes := [];
  sk_stale := ["_previous_error"]; sk_entropy := [];
  sk_reads_fitness := false; sk_reads_direction := false;
  sk_ctor_deref := []; sk_set_config_canonical := true;
  sk_fingerprint := "eaae2ee4e3862700" |}.

Definition sk_AntLionOptimization : skeleton := {|
  sk_name := "AntLionOptimization";
  sk_step := [WExtendTrim]; sk_after_init := []; sk_before_init := [];
  sk_init_pop_overridden := false;
  sk_raw_sites := 0; sk_core_writes := 0; sk_objective_calls := 0;
  sk_reflection := 0; sk_init_agent_ok := true; sk_greedy := GMin;
  sk_config_writes := []; sk_task_writes := [];
  sk_stale := ["_previous_error"]; sk_entropy := [];
  sk_reads_fitness := true; sk_reads_direction := false;
  sk_ctor_deref := []; sk_set_config_canonical := true;
  sk_fingerprint := "4b9c275764ae2404" |}.

Definition sk_AquilaOptimization : skeleton := {|
  sk_name := "AquilaOptimization";
  sk_step := [WMap true]; sk_after_init := []; sk_before_init := [];
  sk_init_pop_overridden := false;
  sk_raw_sites := 0; sk_core_writes := 0; sk_objective_calls := 0;
  sk_reflection := 0; sk_init_agent_ok := true; sk_greedy := GMin;
  sk_config_writes := []; sk_task_writes := [];
  sk_stale := ["_previous_error"]; sk_entropy := [];
  sk_reads_fitness := false; sk_reads_direction := false;
  sk_ctor_deref := []; sk_set_config_canonical := true;
  sk_fingerprint := "1642d7438f0cc6d5" |}.

Definition sk_ArchimedeOptimization : skeleton := {|
  sk_name := "ArchimedeOptimization";
  sk_step := [WMap true]; sk_after_init := []; sk_before_init := [];
  sk_init_pop_overridden := false;
  sk_raw_sites := 0; sk_core_writes := 0; sk_objective_calls := 0;
  sk_reflection := 0; sk_init_agent_ok := true; sk_greedy := GMin;
  sk_config_writes := []; sk_task_writes := [];
  sk_stale := ["_previous_error"]; sk_entropy := [];
  sk_reads_fitness := false; sk_reads_direction := false;
  sk_ctor_deref := []; sk_set_config_canonical := true;
  sk_fingerprint := "0c1dcdcd5b10a65e" |}.

Definition sk_BacterialForagingOptimization : skeleton := {|
  sk_name := "BacterialForagingOptimization";
  sk_step := [WOther; WSetItem false; WOther; WOther; WOther]; sk_after_init := []; sk_before_init := [];
  sk_init_pop_overridden := false;
  sk_raw_sites := 0; sk_core_writes := 0; sk_objective_calls := 0;
  sk_reflection := 0; sk_init_agent_ok := true; sk_greedy := GMin;
  sk_config_writes := []; sk_task_writes := [];
  sk_stale := ["_previous_error"]; sk_entropy := [];
  sk_reads_fitness := false; sk_reads_direction := false;
  sk_ctor_deref := []; sk_set_config_canonical := true;
  sk_fingerprint := "e8acf96adc0f44a1" |}.

Definition sk_BatOptimization : skeleton := {|
  sk_name := "BatOptimization";
  sk_step := [WMap true]; sk_after_init := []; sk_before_init := [];
  sk_init_pop_overridden := false;
  sk_raw_sites := 0; sk_core_writes := 0; sk_objective_calls := 0;
  sk_reflection := 0; sk_init_agent_ok := true; sk_greedy := GGuarded;
  sk_config_writes := []; sk_task_writes := [];
  sk_stale := ["_previous_error"]; sk_entropy := [];
  sk_reads_fitness := false; sk_reads_direction := false;
  sk_ctor_deref := []; sk_set_config_canonical := true;
  sk_fingerprint := "8bb50ca08314651a" |}.

Definition sk_BattleRoyaleOptimization : skeleton := {|
  sk_name := "BattleRoyaleOptimization";
  sk_step := [WMap true; WSetItem false]; sk_after_init := []; sk_before_init := [];
  sk_init_pop_overridden := false;
  sk_raw_sites := 0; sk_core_writes := 0; sk_objective_calls := 0;
  sk_reflection := 0; sk_init_agent_ok := true; sk_greedy := GMin;
  sk_config_writes := []; sk_task_writes := [];
  sk_stale := ["_previous_error"]; sk_entropy := [];
  sk_reads_fitness := false; sk_reads_direction := false;
  sk_ctor_deref := []; sk_set_config_canonical := true;
  sk_fingerprint := "a2dff5bc9e0cd2f3" |}.

Definition sk_BeeColonyOptimization : skeleton := {|
  sk_name := "BeeColonyOptimization";
  sk_step := [WMap true; WOther; WMap false]; sk_after_init := []; sk_before_init := [];
  sk_init_pop_overridden := true;
  sk_raw_sites := 0; sk_core_writes := 0; sk_objective_calls := 0;
  sk_reflection := 0; sk_init_agent_ok := true; sk_greedy := GMin;
  sk_config_writes := []; sk_task_writes := [];
  sk_stale := ["_previous_error"]; sk_entropy := [];
  sk_reads_fitness := false; sk_reads_direction := false;
  sk_ctor_deref := []; sk_set_config_canonical := true;
  sk_fingerprint := "8111a7a7f119face" |}.

Definition sk_BiogeographyBasedOptimization : skeleton := {|
  sk_name := "BiogeographyBasedOptimization";
  sk_step := [WMap true; WExtendTrim]; sk_after_init := []; sk_before_init := [];
  sk_init_pop_overridden := false;
  sk_raw_sites := 0; sk_core_writes := 0; sk_objective_calls := 0;
  sk_reflection := 0; sk_init_agent_ok := true; sk_greedy := GMin;
  sk_config_writes := []; sk_task_writes := [];
  sk_stale := ["_previous_error"]; sk_entropy := [];
  sk_reads_fitness := false; sk_reads_direction := false;
  sk_ctor_deref := []; sk_set_config_canonical := true;
  sk_fingerprint := "9cc0a4738247b217" |}.

Definition sk_BrainStormOptimization : skeleton := {|
  sk_name := "BrainStormOptimization";
  sk_step := [WOther]; sk_after_init := []; sk_before_init := [];
  sk_init_pop_overridden := false;
  sk_raw_sites := 0; sk_core_writes := 0; sk_objective_calls := 0;
  sk_reflection := 0; sk_init_agent_ok := true; sk_greedy := GMin;
  sk_config_writes := []; sk_task_writes := [];
  sk_stale := ["_previous_error"]; sk_entropy := [];
  sk_reads_fitness := false; sk_reads_direction := false;
  sk_ctor_deref := []; sk_set_config_canonical := true;
  sk_fingerprint := "5c0de3d9c4ef6509" |}.

Definition sk_BrownBearOptimization : skeleton := {|
  sk_name := "BrownBearOptimization";
  sk_step := [WMap true; WMap true]; sk_after_init := []; sk_before_init := [];
  sk_init_pop_overridden := false;
  sk_raw_sites := 0; sk_core_writes := 0; sk_objective_calls := 0;
  sk_reflection := 0; sk_init_agent_ok := true; sk_greedy := GMin;
  sk_config_writes := []; sk_task_writes := [];
  sk_stale := ["_previous_error"]; sk_entropy := [];
  sk_reads_fitness := false; sk_reads_direction := false;
  sk_ctor_deref := []; sk_set_config_canonical := true;
  sk_fingerprint := "b5d45a62c597af8d" |}.

Definition sk_CamelCaravanOptimization : skeleton := {|
  sk_name := "CamelCaravanOptimization";
  sk_step := [WMap true]; sk_after_init := []; sk_before_init := [];
  sk_init_pop_overridden := false;
  sk_raw_sites := 0; sk_core_writes := 0; sk_objective_calls := 0;
  sk_reflection := 0; sk_init_agent_ok := true; sk_greedy := GMin;
  sk_config_writes := []; sk_task_writes := [];
  sk_stale := ["_previous_error"]; sk_entropy := [];
  sk_reads_fitness := false; sk_reads_direction := false;
  sk_ctor_deref := []; sk_set_config_canonical := true;
  sk_fingerprint := "5f7a76e585b2e14e" |}.

Definition sk_CatSwarmOptimization : skeleton := {|
  sk_name := "CatSwarmOptimization";
  sk_step := [WMap true]; sk_after_init := []; sk_before_init := [];
  sk_init_pop_overridden := false;
  sk_raw_sites := 0; sk_core_writes := 0; sk_objective_calls := 0;
  sk_reflection := 0; sk_init_agent_ok := true; sk_greedy := GMin;
  sk_config_writes := []; sk_task_writes := [];
  sk_stale := ["_previous_error"]; sk_entropy := [];
  sk_reads_fitness := false; sk_reads_direction := false;
  sk_ctor_deref := []; sk_set_config_canonical := true;
  sk_fingerprint := "d88fec8db5e38324" |}.

Definition sk_ChaosGameOptimization : skeleton := {|
  sk_name := "ChaosGameOptimization";
  sk_step := [WExtendTrim]; sk_after_init := []; sk_before_init := [];
  sk_init_pop_overridden := false;
  sk_raw_sites := 0; sk_core_writes := 0; sk_objective_calls := 0;
  sk_reflection := 0; sk_init_agent_ok := true; sk_greedy := GMin;
  sk_config_writes := []; sk_task_writes := [];
  sk_stale := ["_previous_error"]; sk_entropy := [];
  sk_reads_fitness := false; sk_reads_direction := false;
  sk_ctor_deref := []; sk_set_config_canonical := true;
  sk_fingerprint := "341d08487fdd28ff" |}.

Definition sk_ChernobylDisasterOptimization : skeleton := {|
  sk_name := "ChernobylDisasterOptimization";
  sk_step := [WMap false]; sk_after_init := []; sk_before_init := [];
  sk_init_pop_overridden := false;
  sk_raw_sites := 0; sk_core_writes := 0; sk_objective_calls := 0;
  sk_reflection := 0; sk_init_agent_ok := true; sk_greedy := GMin;
  sk_config_writes := []; sk_task_writes := [];
  sk_stale := ["_previous_error"]; sk_entropy := [];
  sk_reads_fitness := false; sk_reads_direction := false;
  sk_ctor_deref := []; sk_set_config_canonical := true;
  sk_fingerprint := "6834898131a9ed5b" |}.

Definition sk_CoatiOptimization : skeleton := {|
  sk_name := "CoatiOptimization";
  sk_step := [WMap true; WMap true]; sk_after_init := []; sk_before_init := [];
  sk_init_pop_overridden := false;
  sk_raw_sites := 0; sk_core_writes := 0; sk_objective_calls := 0;
  sk_reflection := 0; sk_init_agent_ok := true; sk_greedy := GMin;
  sk_config_writes := []; sk_task_writes := [];
  sk_stale := ["_previous_error"]; sk_entropy := [];
  sk_reads_fitness := false; sk_reads_direction := false;
  sk_ctor_deref := []; sk_set_config_canonical := true;
  sk_fingerprint := "e58748a5979ee9a0" |}.

Definition sk_CoralReefOptimization : skeleton := {|
  sk_name := "CoralReefOptimization";
  sk_step := [WSetItem false]; sk_after_init := []; sk_before_init := [];
  sk_init_pop_overridden := false;
  sk_raw_sites := 0; sk_core_writes := 0; sk_objective_calls := 0;
  sk_reflection := 0; sk_init_agent_ok := true; sk_greedy := GMin;
  sk_config_writes := []; sk_task_writes := [];
  sk_stale := ["_previous_error"]; sk_entropy := [];
  sk_reads_fitness := false; sk_reads_direction := false;
  sk_ctor_deref := []; sk_set_config_canonical := true;
  sk_fingerprint := "c0c1a5e9982eec53" |}.

Definition sk_CoronavirusHerdImmunityOptimization : skeleton := {|
  sk_name := "CoronavirusHerdImmunityOptimization";
  sk_step := [WMap true; WMap false]; sk_after_init := [WMap true]; sk_before_init := [];
  sk_init_pop_overridden := false;
  sk_raw_sites := 0; sk_core_writes := 0; sk_objective_calls := 0;
  sk_reflection := 0; sk_init_agent_ok := true; sk_greedy := GMin;
  sk_config_writes := []; sk_task_writes := [];
  sk_stale := ["_previous_error"]; sk_entropy := [];
  sk_reads_fitness := false; sk_reads_direction := false;
  sk_ctor_deref := []; sk_set_config_canonical := true;
  sk_fingerprint := "00c086949c9a756b" |}.

Definition sk_CoyotesOptimization : skeleton := {|
  sk_name := "CoyotesOptimization";
  sk_step := [WOther]; sk_after_init := []; sk_before_init := [];
  sk_init_pop_overridden := false;
  sk_raw_sites := 0; sk_core_writes := 0; sk_objective_calls := 0;
  sk_reflection := 0; sk_init_agent_ok := true; sk_greedy := GMin;
  sk_config_writes := []; sk_task_writes := [];
  sk_stale := ["_previous_error"]; sk_entropy := [];
  sk_reads_fitness := false; sk_reads_direction := false;
  sk_ctor_deref := []; sk_set_config_canonical := true;
  sk_fingerprint := "ec0a9808defa588c" |}.

Definition sk_CuckooSearchOptimization : skeleton := {|
  sk_name := "CuckooSearchOptimization";
  sk_step := [WMap true; WOther]; sk_after_init := []; sk_before_init := [];
  sk_init_pop_overridden := false;
  sk_raw_sites := 0; sk_core_writes := 0; sk_objective_calls := 0;
  sk_reflection := 0; sk_init_agent_ok := true; sk_greedy := GMin;
  sk_config_writes := []; sk_task_writes := [];
  sk_stale := ["_previous_error"]; sk_entropy := [];
  sk_reads_fitness := false; sk_reads_direction := false;
  sk_ctor_deref := []; sk_set_config_canonical := true;
  sk_fingerprint := "2d154e1b929a629e" |}.

Definition sk_DragonflyOptimization : skeleton := {|
  sk_name := "DragonflyOptimization";
  sk_step := [WZipMap]; sk_after_init := []; sk_before_init := [];
  sk_init_pop_overridden := false;
  sk_raw_sites := 0; sk_core_writes := 0; sk_objective_calls := 0;
  sk_reflection := 0; sk_init_agent_ok := true; sk_greedy := GMin;
  sk_config_writes := []; sk_task_writes := [];
  sk_stale := ["_previous_error"]; sk_entropy := [];
  sk_reads_fitness := false; sk_reads_direction := false;
  sk_ctor_deref := []; sk_set_config_canonical := true;
  sk_fingerprint := "68182ad3928beb4d" |}.

Definition sk_DwarfMongooseOptimization : skeleton := {|
  sk_name := "DwarfMongooseOptimization";
  sk_step := [WMap true; WZipMap; WMap false; WMap true]; sk_after_init := []; sk_before_init := [];
  sk_init_pop_overridden := false;
  sk_raw_sites := 0; sk_core_writes := 0; sk_objective_calls := 0;
  sk_reflection := 0; sk_init_agent_ok := true; sk_greedy := GMin;
  sk_config_writes := []; sk_task_writes := [];
  sk_stale := ["_previous_error"]; sk_entropy := [];
  sk_reads_fitness := false; sk_reads_direction := false;
  sk_ctor_deref := []; sk_set_config_canonical := true;
  sk_fingerprint := "1b4bce6ab2c40fc4" |}.

Definition sk_EarthwormsOptimization : skeleton := {|
  sk_name := "EarthwormsOptimization";
  sk_step := [WMap false; WOther; WSortSelf; WSetItem false; WSetItem false]; sk_after_init := []; sk_before_init := [];
  sk_init_pop_overridden := false;
  sk_raw_sites := 0; sk_core_writes := 0; sk_objective_calls := 0;
  sk_reflection := 0; sk_init_agent_ok := true; sk_greedy := GMin;
  sk_config_writes := []; sk_task_writes := [];
  sk_stale := ["_previous_error"]; sk_entropy := [];
  sk_reads_fitness := false; sk_reads_direction := false;
  sk_ctor_deref := []; sk_set_config_canonical := true;
  sk_fingerprint := "6f375c9852397f25" |}.

Definition sk_EgretSwarmOptimization : skeleton := {|
  sk_name := "EgretSwarmOptimization";
  sk_step := [WZipMap]; sk_after_init := []; sk_before_init := [];
  sk_init_pop_overridden := false;
  sk_raw_sites := 0; sk_core_writes := 0; sk_objective_calls := 0;
  sk_reflection := 0; sk_init_agent_ok := true; sk_greedy := GMin;
  sk_config_writes := []; sk_task_writes := [];
  sk_stale := ["_previous_error"]; sk_entropy := [];
  sk_reads_fitness := false; sk_reads_direction := false;
  sk_ctor_deref := []; sk_set_config_canonical := true;
  sk_fingerprint := "c76892339f19161d" |}.

Definition sk_ElectromagneticFieldOptimization : skeleton := {|
  sk_name := "ElectromagneticFieldOptimization";
  sk_step := [WMap true]; sk_after_init := []; sk_before_init := [];
  sk_init_pop_overridden := false;
  sk_raw_sites := 0; sk_core_writes := 0; sk_objective_calls := 0;
  sk_reflection := 0; sk_init_agent_ok := true; sk_greedy := GMin;
  sk_config_writes := []; sk_task_writes := [];
  sk_stale := ["_previous_error"]; sk_entropy := [];
  sk_reads_fitness := false; sk_reads_direction := false;
  sk_ctor_deref := []; sk_set_config_canonical := true;
  sk_fingerprint := "e19678a202f6796f" |}.

Definition sk_ElephantHerdOptimization : skeleton := {|
  sk_name := "ElephantHerdOptimization";
  sk_step := [WMap false; WOther]; sk_after_init := []; sk_before_init := [];
  sk_init_pop_overridden := false;
  sk_raw_sites := 0; sk_core_writes := 0; sk_objective_calls := 0;
  sk_reflection := 0; sk_init_agent_ok := true; sk_greedy := GMin;
  sk_config_writes := []; sk_task_writes := [];
  sk_stale := ["_previous_error"]; sk_entropy := [];
  sk_reads_fitness := false; sk_reads_direction := false;
  sk_ctor_deref := []; sk_set_config_canonical := true;
  sk_fingerprint := "10943c10f31218c0" |}.

Definition sk_EnergyValleyOptimization : skeleton := {|
  sk_name := "EnergyValleyOptimization";
  sk_step := [WExtendTrim]; sk_after_init := []; sk_before_init := [];
  sk_init_pop_overridden := false;
  sk_raw_sites := 0; sk_core_writes := 0; sk_objective_calls := 0;
  sk_reflection := 0; sk_init_agent_ok := true; sk_greedy := GMin;
  sk_config_writes := []; sk_task_writes := [];
  sk_stale := ["_previous_error"]; sk_entropy := [];
  sk_reads_fitness := false; sk_reads_direction := false;
  sk_ctor_deref := []; sk_set_config_canonical := true;
  sk_fingerprint := "4132fcbd35dc2b2c" |}.

Definition sk_FicksLawOptimization : skeleton := {|
  sk_name := "FicksLawOptimization";
  sk_step := [WGreedyPop]; sk_after_init := []; sk_before_init := [];
  sk_init_pop_overridden := false;
  sk_raw_sites := 0; sk_core_writes := 0; sk_objective_calls := 0;
  sk_reflection := 0; sk_init_agent_ok := true; sk_greedy := GMin;
  sk_config_writes := []; sk_task_writes := [];
  sk_stale := ["_previous_error"]; sk_entropy := [];
  sk_reads_fitness := false; sk_reads_direction := false;
  sk_ctor_deref := []; sk_set_config_canonical := true;
  sk_fingerprint := "eaaf94d589d3299f" |}.

Definition sk_FireHawkOptimization : skeleton := {|
  sk_name := "FireHawkOptimization";
  sk_step := [WSortSelf; WReplaceTrim]; sk_after_init := []; sk_before_init := [];
  sk_init_pop_overridden := false;
  sk_raw_sites := 0; sk_core_writes := 0; sk_objective_calls := 0;
  sk_reflection := 0; sk_init_agent_ok := true; sk_greedy := GMin;
  sk_config_writes := []; sk_task_writes := [];
  sk_stale := ["_previous_error"]; sk_entropy := [];
  sk_reads_fitness := false; sk_reads_direction := false;
  sk_ctor_deref := []; sk_set_config_canonical := true;
  sk_fingerprint := "01f0086e8d7296c1" |}.

Definition sk_FireflySwarmOptimization : skeleton := {|
  sk_name := "FireflySwarmOptimization";
  sk_step := [WMap false]; sk_after_init := []; sk_before_init := [];
  sk_init_pop_overridden := false;
  sk_raw_sites := 0; sk_core_writes := 0; sk_objective_calls := 0;
  sk_reflection := 0; sk_init_agent_ok := true; sk_greedy := GMin;
  sk_config_writes := []; sk_task_writes := [];
  sk_stale := ["_previous_error"]; sk_entropy := [];
  sk_reads_fitness := false; sk_reads_direction := false;
  sk_ctor_deref := []; sk_set_config_canonical := true;
  sk_fingerprint := "b1471fe66b4ba2d1" |}.

Definition sk_FireworksOptimization : skeleton := {|
  sk_name := "FireworksOptimization";
  sk_step := [WExtendTrim]; sk_after_init := []; sk_before_init := [];
  sk_init_pop_overridden := false;
  sk_raw_sites := 0; sk_core_writes := 0; sk_objective_calls := 0;
  sk_reflection := 0; sk_init_agent_ok := true; sk_greedy := GMin;
  sk_config_writes := []; sk_task_writes := [];
  sk_stale := ["_previous_error"]; sk_entropy := [];
  sk_reads_fitness := false; sk_reads_direction := false;
  sk_ctor_deref := []; sk_set_config_canonical := true;
  sk_fingerprint := "9451139bbcf64f4b" |}.

Definition sk_FishSchoolSearchOptimization : skeleton := {|
  sk_name := "FishSchoolSearchOptimization";
  sk_step := [WMap false; WMap true; WMap false; WMap false]; sk_after_init := []; sk_before_init := [];
  sk_init_pop_overridden := false;
  sk_raw_sites := 0; sk_core_writes := 0; sk_objective_calls := 0;
  sk_reflection := 0; sk_init_agent_ok := true; sk_greedy := GMin;
  sk_config_writes := []; sk_task_writes := [];
  sk_stale := ["_previous_error"]; sk_entropy := [];
  sk_reads_fitness := false; sk_reads_direction := false;
  sk_ctor_deref := []; sk_set_config_canonical := true;
  sk_fingerprint := "824841d9d213566b" |}.

Definition sk_FlowerPollinationAlgorithmOptimization : skeleton := {|
  sk_name := "FlowerPollinationAlgorithmOptimization";
  sk_step := [WMap true]; sk_after_init := []; sk_before_init := [];
  sk_init_pop_overridden := false;
  sk_raw_sites := 0; sk_core_writes := 0; sk_objective_calls := 0;
  sk_reflection := 0; sk_init_agent_ok := true; sk_greedy := GMin;
  sk_config_writes := []; sk_task_writes := [];
  sk_stale := ["_previous_error"]; sk_entropy := [];
  sk_reads_fitness := false; sk_reads_direction := false;
  sk_ctor_deref := []; sk_set_config_canonical := true;
  sk_fingerprint := "25e9440a24caded9" |}.

Definition sk_ForensicBasedInvestigationOptimization : skeleton := {|
  sk_name := "ForensicBasedInvestigationOptimization";
  sk_step := [WMap true; WMap true; WMap true; WMap true]; sk_after_init := []; sk_before_init := [];
  sk_init_pop_overridden := false;
  sk_raw_sites := 0; sk_core_writes := 0; sk_objective_calls := 0;
  sk_reflection := 0; sk_init_agent_ok := true; sk_greedy := GMin;
  sk_config_writes := []; sk_task_writes := [];
  sk_stale := ["_previous_error"]; sk_entropy := [];
  sk_reads_fitness := false; sk_reads_direction := false;
  sk_ctor_deref := []; sk_set_config_canonical := true;
  sk_fingerprint := "4492f974e3147546" |}.

Definition sk_ForestOptimizationAlgorithm : skeleton := {|
  sk_name := "ForestOptimizationAlgorithm";
  sk_step := [WOther; WOther; WSortSelf; WOther; WOther; WMap true; WOther]; sk_after_init := []; sk_before_init := [];
  sk_init_pop_overridden := false;
  sk_raw_sites := 0; sk_core_writes := 0; sk_objective_calls := 0;
  sk_reflection := 0; sk_init_agent_ok := true; sk_greedy := GMin;
  sk_config_writes := []; sk_task_writes := [];
  sk_stale := ["_previous_error"]; sk_entropy := [];
  sk_reads_fitness := false; sk_reads_direction := false;
  sk_ctor_deref := []; sk_set_config_canonical := true;
  sk_fingerprint := "7723b9b3c994cbc6" |}.

Definition sk_FoxOptimization : skeleton := {|
  sk_name := "FoxOptimization";
  sk_step := [WMap true]; sk_after_init := []; sk_before_init := [];
  sk_init_pop_overridden := false;
  sk_raw_sites := 0; sk_core_writes := 0; sk_objective_calls := 0;
  sk_reflection := 0; sk_init_agent_ok := true; sk_greedy := GMin;
  sk_config_writes := []; sk_task_writes := [];
  sk_stale := ["_previous_error"]; sk_entropy := [];
  sk_reads_fitness := false; sk_reads_direction := false;
  sk_ctor_deref := []; sk_set_config_canonical := true;
  sk_fingerprint := "d37770356c79693b" |}.

Definition sk_GainingSharingKnowledgeOptimization : skeleton := {|
  sk_name := "GainingSharingKnowledgeOptimization";
  sk_step := [WMap true]; sk_after_init := []; sk_before_init := [];
  sk_init_pop_overridden := false;
  sk_raw_sites := 0; sk_core_writes := 0; sk_objective_calls := 0;
  sk_reflection := 0; sk_init_agent_ok := true; sk_greedy := GMin;
  sk_config_writes := []; sk_task_writes := [];
  sk_stale := ["_previous_error"]; sk_entropy := [];
  sk_reads_fitness := false; sk_reads_direction := false;
  sk_ctor_deref := []; sk_set_config_canonical := true;
  sk_fingerprint := "a06361dcc17099fe" |}.

Definition sk_GeneticAlgorithmOptimization : skeleton := {|
  sk_name := "GeneticAlgorithmOptimization";
  sk_step := [WOther]; sk_after_init := []; sk_before_init := [];
  sk_init_pop_overridden := true;
  sk_raw_sites := 0; sk_core_writes := 0; sk_objective_calls := 0;
  sk_reflection := 0; sk_init_agent_ok := true; sk_greedy := GMin;
  sk_config_writes := []; sk_task_writes := [];
  sk_stale := ["_previous_error"]; sk_entropy := [];
  sk_reads_fitness := false; sk_reads_direction := false;
  sk_ctor_deref := []; sk_set_config_canonical := true;
  sk_fingerprint := "bd4ba847507d172c" |}.

Definition sk_GerminalCenterOptimization : skeleton := {|
  sk_name := "GerminalCenterOptimization";
  sk_step := [WMap false; WMap true]; sk_after_init := []; sk_before_init := [];
  sk_init_pop_overridden := false;
  sk_raw_sites := 0; sk_core_writes := 0; sk_objective_calls := 0;
  sk_reflection := 0; sk_init_agent_ok := true; sk_greedy := GMin;
  sk_config_writes := []; sk_task_writes := [];
  sk_stale := ["_previous_error"]; sk_entropy := [];
  sk_reads_fitness := false; sk_reads_direction := false;
  sk_ctor_deref := []; sk_set_config_canonical := true;
  sk_fingerprint := "e709d2078f1372a3" |}.

Definition sk_GiantTrevallyOptimization : skeleton := {|
  sk_name := "GiantTrevallyOptimization";
  sk_step := [WMap true; WMap true; WMap true]; sk_after_init := []; sk_before_init := [];
  sk_init_pop_overridden := false;
  sk_raw_sites := 0; sk_core_writes := 0; sk_objective_calls := 0;
  sk_reflection := 0; sk_init_agent_ok := true; sk_greedy := GMin;
  sk_config_writes := []; sk_task_writes := [];
  sk_stale := ["_previous_error"]; sk_entropy := [];
  sk_reads_fitness := false; sk_reads_direction := false;
  sk_ctor_deref := []; sk_set_config_canonical := true;
  sk_fingerprint := "316e6177acc246c2" |}.

Definition sk_GizaPyramidConstructionOptimization : skeleton := {|
  sk_name := "GizaPyramidConstructionOptimization";
  sk_step := [WExtendTrim]; sk_after_init := []; sk_before_init := [];
  sk_init_pop_overridden := false;
  sk_raw_sites := 0; sk_core_writes := 0; sk_objective_calls := 0;
  sk_reflection := 0; sk_init_agent_ok := true; sk_greedy := GMin;
  sk_config_writes := []; sk_task_writes := [];
  sk_stale := ["_previous_error"]; sk_entropy := [];
  sk_reads_fitness := false; sk_reads_direction := false;
  sk_ctor_deref := []; sk_set_config_canonical := true;
  sk_fingerprint := "48680b1b35737ad3" |}.

Definition sk_GoldenJackalOptimization : skeleton := {|
  sk_name := "GoldenJackalOptimization";
  sk_step := [WMap true]; sk_after_init := []; sk_before_init := [];
  sk_init_pop_overridden := false;
  sk_raw_sites := 0; sk_core_writes := 0; sk_objective_calls := 0;
  sk_reflection := 0; sk_init_agent_ok := true; sk_greedy := GMin;
  sk_config_writes := []; sk_task_writes := [];
  sk_stale := ["_previous_error"]; sk_entropy := [];
  sk_reads_fitness := false; sk_reads_direction := false;
  sk_ctor_deref := []; sk_set_config_canonical := true;
  sk_fingerprint := "380d154dbef26d93" |}.

Definition sk_GrasshopperOptimization : skeleton := {|
  sk_name := "GrasshopperOptimization";
  sk_step := [WMap true]; sk_after_init := []; sk_before_init := [];
  sk_init_pop_overridden := false;
  sk_raw_sites := 0; sk_core_writes := 0; sk_objective_calls := 0;
  sk_reflection := 0; sk_init_agent_ok := true; sk_greedy := GMin;
  sk_config_writes := []; sk_task_writes := [];
  sk_stale := ["_previous_error"]; sk_entropy := [];
  sk_reads_fitness := false; sk_reads_direction := false;
  sk_ctor_deref := []; sk_set_config_canonical := true;
  sk_fingerprint := "62c14aaa49e7526e" |}.

Definition sk_GreyWolfOptimization : skeleton := {|
  sk_name := "GreyWolfOptimization";
  sk_step := [WMap true]; sk_after_init := []; sk_before_init := [];
  sk_init_pop_overridden := false;
  sk_raw_sites := 0; sk_core_writes := 0; sk_objective_calls := 0;
  sk_reflection := 0; sk_init_agent_ok := true; sk_greedy := GMin;
  sk_config_writes := []; sk_task_writes := [];
  sk_stale := ["_previous_error"]; sk_entropy := [];
  sk_reads_fitness := false; sk_reads_direction := false;
  sk_ctor_deref := []; sk_set_config_canonical := true;
  sk_fingerprint := "0a6c905069bc17ea" |}.

Definition sk_HarmonySearchOptimization : skeleton := {|
  sk_name := "HarmonySearchOptimization";
  sk_step := [WExtendTrim]; sk_after_init := []; sk_before_init := [];
  sk_init_pop_overridden := false;
  sk_raw_sites := 0; sk_core_writes := 0; sk_objective_calls := 0;
  sk_reflection := 0; sk_init_agent_ok := true; sk_greedy := GMin;
  sk_config_writes := []; sk_task_writes := [];
  sk_stale := ["_previous_error"]; sk_entropy := [];
  sk_reads_fitness := false; sk_reads_direction := false;
  sk_ctor_deref := []; sk_set_config_canonical := true;
  sk_fingerprint := "3bfe202c8209b76f" |}.

Definition sk_HeapBasedOptimization : skeleton := {|
  sk_name := "HeapBasedOptimization";
  sk_step := [WSetItem false]; sk_after_init := []; sk_before_init := [];
  sk_init_pop_overridden := false;
  sk_raw_sites := 0; sk_core_writes := 0; sk_objective_calls := 0;
  sk_reflection := 0; sk_init_agent_ok := true; sk_greedy := GMin;
  sk_config_writes := []; sk_task_writes := [];
  sk_stale := ["_previous_error"]; sk_entropy := [];
  sk_reads_fitness := false; sk_reads_direction := false;
  sk_ctor_deref := []; sk_set_config_canonical := true;
  sk_fingerprint := "fb4fd0e23f3ae04e" |}.

Definition sk_HenryGasSolubilityOptimization : skeleton := {|
  sk_name := "HenryGasSolubilityOptimization";
  sk_step := [WOther; WMap true]; sk_after_init := []; sk_before_init := [];
  sk_init_pop_overridden := false;
  sk_raw_sites := 0; sk_core_writes := 0; sk_objective_calls := 0;
  sk_reflection := 0; sk_init_agent_ok := true; sk_greedy := GMin;
  sk_config_writes := []; sk_task_writes := [];
  sk_stale := ["_previous_error"]; sk_entropy := [];
  sk_reads_fitness := false; sk_reads_direction := false;
  sk_ctor_deref := []; sk_set_config_canonical := true;
  sk_fingerprint := "afee0cbb9fac32de" |}.

Definition sk_HungerGamesSearchOptimization : skeleton := {|
  sk_name := "HungerGamesSearchOptimization";
  sk_step := [WMap true; WMap true]; sk_after_init := []; sk_before_init := [];
  sk_init_pop_overridden := false;
  sk_raw_sites := 0; sk_core_writes := 0; sk_objective_calls := 0;
  sk_reflection := 0; sk_init_agent_ok := true; sk_greedy := GMin;
  sk_config_writes := []; sk_task_writes := [];
  sk_stale := ["_previous_error"]; sk_entropy := [];
  sk_reads_fitness := false; sk_reads_direction := false;
  sk_ctor_deref := []; sk_set_config_canonical := true;
  sk_fingerprint := "7de0abdd0cb12a3d" |}.

Definition sk_ImperialistCompetitiveOptimization : skeleton := {|
  sk_name := "ImperialistCompetitiveOptimization";
  sk_step := [WOther]; sk_after_init := []; sk_before_init := [];
  sk_init_pop_overridden := true;
  sk_raw_sites := 2; sk_core_writes := 0; sk_objective_calls := 0;
  sk_reflection := 0; sk_init_agent_ok := true; sk_greedy := GMin;
  sk_config_writes := []; sk_task_writes := [];
  sk_stale := ["_previous_error"]; sk_entropy := [];
  sk_reads_fitness := false; sk_reads_direction := true;
  sk_ctor_deref := []; sk_set_config_canonical := true;
  sk_fingerprint := "74ab71e3ac543dc6" |}.

Definition sk_ImprovedBrainStormOptimization : skeleton := {|
  sk_name := "ImprovedBrainStormOptimization";
  sk_step := [WOther]; sk_after_init := []; sk_before_init := [];
  sk_init_pop_overridden := false;
  sk_raw_sites := 0; sk_core_writes := 0; sk_objective_calls := 0;
  sk_reflection := 0; sk_init_agent_ok := true; sk_greedy := GMin;
  sk_config_writes := []; sk_task_writes := [];
  sk_stale := ["_previous_error"]; sk_entropy := [];
  sk_reads_fitness := false; sk_reads_direction := false;
  sk_ctor_deref := []; sk_set_config_canonical := true;
  sk_fingerprint := "5c0de3d9c4ef6509" |}.

Definition sk_InvasiveWeedOptimization : skeleton := {|
  sk_name := "InvasiveWeedOptimization";
  sk_step := [WExtendTrim]; sk_after_init := []; sk_before_init := [];
  sk_init_pop_overridden := false;
  sk_raw_sites := 0; sk_core_writes := 0; sk_objective_calls := 0;
  sk_reflection := 0; sk_init_agent_ok := true; sk_greedy := GMin;
  sk_config_writes := []; sk_task_writes := [];
  sk_stale := ["_previous_error"]; sk_entropy := [];
  sk_reads_fitness := false; sk_reads_direction := false;
  sk_ctor_deref := []; sk_set_config_canonical := true;
  sk_fingerprint := "cc007ec37ddf1b21" |}.

Definition sk_KrillHerdOptimization : skeleton := {|
  sk_name := "KrillHerdOptimization";
  sk_step := [WGreedyPop]; sk_after_init := []; sk_before_init := [];
  sk_init_pop_overridden := false;
  sk_raw_sites := 0; sk_core_writes := 0; sk_objective_calls := 0;
  sk_reflection := 0; sk_init_agent_ok := true; sk_greedy := GMin;
  sk_config_writes := []; sk_task_writes := [];
  sk_stale := ["_previous_error"]; sk_entropy := [];
  sk_reads_fitness := false; sk_reads_direction := false;
  sk_ctor_deref := []; sk_set_config_canonical := true;
  sk_fingerprint := "cb585847833c2a03" |}.

Definition sk_LeviFlightJayaSwarmOptimization : skeleton := {|
  sk_name := "LeviFlightJayaSwarmOptimization";
  sk_step := [WMap true]; sk_after_init := []; sk_before_init := [];
  sk_init_pop_overridden := false;
  sk_raw_sites := 0; sk_core_writes := 0; sk_objective_calls := 0;
  sk_reflection := 0; sk_init_agent_ok := true; sk_greedy := GMin;
  sk_config_writes := []; sk_task_writes := [];
  sk_stale := ["_previous_error"]; sk_entropy := [];
  sk_reads_fitness := false; sk_reads_direction := false;
  sk_ctor_deref := []; sk_set_config_canonical := true;
  sk_fingerprint := "768769faa5974dfe" |}.

Definition sk_MarinePredatorsOptimization : skeleton := {|
  sk_name := "MarinePredatorsOptimization";
  sk_step := [WMap true]; sk_after_init := []; sk_before_init := [];
  sk_init_pop_overridden := false;
  sk_raw_sites := 0; sk_core_writes := 0; sk_objective_calls := 0;
  sk_reflection := 0; sk_init_agent_ok := true; sk_greedy := GMin;
  sk_config_writes := []; sk_task_writes := [];
  sk_stale := ["_previous_error"]; sk_entropy := [];
  sk_reads_fitness := false; sk_reads_direction := false;
  sk_ctor_deref := []; sk_set_config_canonical := true;
  sk_fingerprint := "bdab6f77105ef23f" |}.

Definition sk_MonarchButterflyOptimization : skeleton := {|
  sk_name := "MonarchButterflyOptimization";
  sk_step := [WSortSelf; WOther; WOther]; sk_after_init := []; sk_before_init := [];
  sk_init_pop_overridden := false;
  sk_raw_sites := 0; sk_core_writes := 0; sk_objective_calls := 0;
  sk_reflection := 0; sk_init_agent_ok := true; sk_greedy := GMin;
  sk_config_writes := []; sk_task_writes := [];
  sk_stale := ["_previous_error"]; sk_entropy := [];
  sk_reads_fitness := false; sk_reads_direction := false;
  sk_ctor_deref := []; sk_set_config_canonical := true;
  sk_fingerprint := "a2b06fd284f05fb5" |}.

Definition sk_MothFlameOptimization : skeleton := {|
  sk_name := "MothFlameOptimization";
  sk_step := [WMap true]; sk_after_init := []; sk_before_init := [];
  sk_init_pop_overridden := false;
  sk_raw_sites := 0; sk_core_writes := 0; sk_objective_calls := 0;
  sk_reflection := 0; sk_init_agent_ok := true; sk_greedy := GMin;
  sk_config_writes := []; sk_task_writes := [];
  sk_stale := ["_previous_error"]; sk_entropy := [];
  sk_reads_fitness := false; sk_reads_direction := false;
  sk_ctor_deref := []; sk_set_config_canonical := true;
  sk_fingerprint := "ce61d642f32c46f4" |}.

Definition sk_MountainGazelleOptimization : skeleton := {|
  sk_name := "MountainGazelleOptimization";
  sk_step := [WExtendTrim]; sk_after_init := []; sk_before_init := [];
  sk_init_pop_overridden := false;
  sk_raw_sites := 0; sk_core_writes := 0; sk_objective_calls := 0;
  sk_reflection := 0; sk_init_agent_ok := true; sk_greedy := GMin;
  sk_config_writes := []; sk_task_writes := [];
  sk_stale := ["_previous_error"]; sk_entropy := [];
  sk_reads_fitness := false; sk_reads_direction := false;
  sk_ctor_deref := []; sk_set_config_canonical := true;
  sk_fingerprint := "6f8a28ef5d8dd12f" |}.

Definition sk_MultiverseOptimization : skeleton := {|
  sk_name := "MultiverseOptimization";
  sk_step := [WMap true]; sk_after_init := []; sk_before_init := [];
  sk_init_pop_overridden := false;
  sk_raw_sites := 0; sk_core_writes := 0; sk_objective_calls := 0;
  sk_reflection := 0; sk_init_agent_ok := true; sk_greedy := GMin;
  sk_config_writes := []; sk_task_writes := [];
  sk_stale := ["_previous_error"]; sk_entropy := [];
  sk_reads_fitness := false; sk_reads_direction := false;
  sk_ctor_deref := []; sk_set_config_canonical := true;
  sk_fingerprint := "8aec1ac6b9257203" |}.

Definition sk_NuclearReactionOptimization : skeleton := {|
  sk_name := "NuclearReactionOptimization";
  sk_step := [WMap true; WMap true; WMap true]; sk_after_init := []; sk_before_init := [];
  sk_init_pop_overridden := false;
  sk_raw_sites := 0; sk_core_writes := 0; sk_objective_calls := 0;
  sk_reflection := 0; sk_init_agent_ok := true; sk_greedy := GMin;
  sk_config_writes := []; sk_task_writes := [];
  sk_stale := ["_previous_error"]; sk_entropy := [];
  sk_reads_fitness := false; sk_reads_direction := false;
  sk_ctor_deref := []; sk_set_config_canonical := true;
  sk_fingerprint := "8789710ef1c185db" |}.

Definition sk_OspreyOptimization : skeleton := {|
  sk_name := "OspreyOptimization";
  sk_step := [WMap true]; sk_after_init := []; sk_before_init := [];
  sk_init_pop_overridden := false;
  sk_raw_sites := 0; sk_core_writes := 0; sk_objective_calls := 0;
  sk_reflection := 0; sk_init_agent_ok := true; sk_greedy := GMin;
  sk_config_writes := []; sk_task_writes := [];
  sk_stale := ["_previous_error"]; sk_entropy := [];
  sk_reads_fitness := false; sk_reads_direction := false;
  sk_ctor_deref := []; sk_set_config_canonical := true;
  sk_fingerprint := "62dfa7a82933b122" |}.

Definition sk_ParticleSwarmOptimization : skeleton := {|
  sk_name := "ParticleSwarmOptimization";
  sk_step := [WZipMap]; sk_after_init := []; sk_before_init := [];
  sk_init_pop_overridden := false;
  sk_raw_sites := 0; sk_core_writes := 0; sk_objective_calls := 0;
  sk_reflection := 0; sk_init_agent_ok := true; sk_greedy := GMin;
  sk_config_writes := []; sk_task_writes := [];
  sk_stale := ["_previous_error"]; sk_entropy := [];
  sk_reads_fitness := false; sk_reads_direction := false;
  sk_ctor_deref := []; sk_set_config_canonical := true;
  sk_fingerprint := "a5d9c8c9a808087e" |}.

Definition sk_PathfinderAlgorithmOptimization : skeleton := {|
  sk_name := "PathfinderAlgorithmOptimization";
  sk_step := [WMap true]; sk_after_init := []; sk_before_init := [];
  sk_init_pop_overridden := false;
  sk_raw_sites := 0; sk_core_writes := 0; sk_objective_calls := 0;
  sk_reflection := 0; sk_init_agent_ok := true; sk_greedy := GMin;
  sk_config_writes := []; sk_task_writes := [];
  sk_stale := ["_previous_error"]; sk_entropy := [];
  sk_reads_fitness := false; sk_reads_direction := false;
  sk_ctor_deref := []; sk_set_config_canonical := true;
  sk_fingerprint := "4bade32f41629c7d" |}.

Definition sk_PelicanOptimization : skeleton := {|
  sk_name := "PelicanOptimization";
  sk_step := [WMap true]; sk_after_init := []; sk_before_init := [];
  sk_init_pop_overridden := false;
  sk_raw_sites := 0; sk_core_writes := 0; sk_objective_calls := 0;
  sk_reflection := 0; sk_init_agent_ok := true; sk_greedy := GMin;
  sk_config_writes := []; sk_task_writes := [];
  sk_stale := ["_previous_error"]; sk_entropy := [];
  sk_reads_fitness := false; sk_reads_direction := false;
  sk_ctor_deref := []; sk_set_config_canonical := true;
  sk_fingerprint := "fe8a7a5d969f67ff" |}.

Definition sk_QleSineCosineAlgorithmOptimization : skeleton := {|
  sk_name := "QleSineCosineAlgorithmOptimization";
  sk_step := [WMap true]; sk_after_init := []; sk_before_init := [];
  sk_init_pop_overridden := false;
  sk_raw_sites := 0; sk_core_writes := 0; sk_objective_calls := 0;
  sk_reflection := 0; sk_init_agent_ok := true; sk_greedy := GMin;
  sk_config_writes := []; sk_task_writes := [];
  sk_stale := ["_previous_error"]; sk_entropy := [];
  sk_reads_fitness := false; sk_reads_direction := false;
  sk_ctor_deref := []; sk_set_config_canonical := true;
  sk_fingerprint := "632ede4a629cf4c9" |}.

Definition sk_RungeKuttaOptimization : skeleton := {|
  sk_name := "RungeKuttaOptimization";
  sk_step := [WMap false]; sk_after_init := []; sk_before_init := [];
  sk_init_pop_overridden := false;
  sk_raw_sites := 0; sk_core_writes := 0; sk_objective_calls := 0;
  sk_reflection := 0; sk_init_agent_ok := true; sk_greedy := GMin;
  sk_config_writes := []; sk_task_writes := [];
  sk_stale := ["_previous_error"]; sk_entropy := [];
  sk_reads_fitness := false; sk_reads_direction := false;
  sk_ctor_deref := []; sk_set_config_canonical := true;
  sk_fingerprint := "34b8478ceaaf3621" |}.

Definition sk_SalpSwarmOptimization : skeleton := {|
  sk_name := "SalpSwarmOptimization";
  sk_step := [WMap true]; sk_after_init := []; sk_before_init := [];
  sk_init_pop_overridden := false;
  sk_raw_sites := 0; sk_core_writes := 0; sk_objective_calls := 0;
  sk_reflection := 0; sk_init_agent_ok := true; sk_greedy := GMin;
  sk_config_writes := []; sk_task_writes := [];
  sk_stale := ["_previous_error"]; sk_entropy := [];
  sk_reads_fitness := false; sk_reads_direction := false;
  sk_ctor_deref := []; sk_set_config_canonical := true;
  sk_fingerprint := "508729b2aa3b8cfc" |}.

Definition sk_SeagullOptimization : skeleton := {|
  sk_name := "SeagullOptimization";
  sk_step := [WMap true]; sk_after_init := []; sk_before_init := [];
  sk_init_pop_overridden := false;
  sk_raw_sites := 0; sk_core_writes := 0; sk_objective_calls := 0;
  sk_reflection := 0; sk_init_agent_ok := true; sk_greedy := GMin;
  sk_config_writes := []; sk_task_writes := [];
  sk_stale := ["_previous_error"]; sk_entropy := [];
  sk_reads_fitness := false; sk_reads_direction := false;
  sk_ctor_deref := []; sk_set_config_canonical := true;
  sk_fingerprint := "38c51cb009fe8cd5" |}.

Definition sk_ServalOptimization : skeleton := {|
  sk_name := "ServalOptimization";
  sk_step := [WMap true]; sk_after_init := []; sk_before_init := [];
  sk_init_pop_overridden := false;
  sk_raw_sites := 0; sk_core_writes := 0; sk_objective_calls := 0;
  sk_reflection := 0; sk_init_agent_ok := true; sk_greedy := GMin;
  sk_config_writes := []; sk_task_writes := [];
  sk_stale := ["_previous_error"]; sk_entropy := [];
  sk_reads_fitness := false; sk_reads_direction := false;
  sk_ctor_deref := []; sk_set_config_canonical := true;
  sk_fingerprint := "25e584ca600cc39a" |}.

Definition sk_SiberianTigerOptimization : skeleton := {|
  sk_name := "SiberianTigerOptimization";
  sk_step := [WMap true]; sk_after_init := []; sk_before_init := [];
  sk_init_pop_overridden := false;
  sk_raw_sites := 0; sk_core_writes := 0; sk_objective_calls := 0;
  sk_reflection := 0; sk_init_agent_ok := true; sk_greedy := GMin;
  sk_config_writes := []; sk_task_writes := [];
  sk_stale := ["_previous_error"]; sk_entropy := [];
  sk_reads_fitness := false; sk_reads_direction := false;
  sk_ctor_deref := []; sk_set_config_canonical := true;
  sk_fingerprint := "bfc8d9874668e6e9" |}.

Definition sk_SineCosineAlgorithmOptimization : skeleton := {|
  sk_name := "SineCosineAlgorithmOptimization";
  sk_step := [WMap true]; sk_after_init := []; sk_before_init := [];
  sk_init_pop_overridden := false;
  sk_raw_sites := 0; sk_core_writes := 0; sk_objective_calls := 0;
  sk_reflection := 0; sk_init_agent_ok := true; sk_greedy := GMin;
  sk_config_writes := []; sk_task_writes := [];
  sk_stale := ["_previous_error"]; sk_entropy := [];
  sk_reads_fitness := false; sk_reads_direction := false;
  sk_ctor_deref := []; sk_set_config_canonical := true;
  sk_fingerprint := "e0b93394e8029996" |}.

Definition sk_SpottedHyenaOptimization : skeleton := {|
  sk_name := "SpottedHyenaOptimization";
  sk_step := [WMap true]; sk_after_init := []; sk_before_init := [];
  sk_init_pop_overridden := false;
  sk_raw_sites := 0; sk_core_writes := 0; sk_objective_calls := 0;
  sk_reflection := 0; sk_init_agent_ok := true; sk_greedy := GMin;
  sk_config_writes := []; sk_task_writes := [];
  sk_stale := ["_previous_error"]; sk_entropy := [];
  sk_reads_fitness := false; sk_reads_direction := false;
  sk_ctor_deref := []; sk_set_config_canonical := true;
  sk_fingerprint := "dc487aee38b9921e" |}.

Definition sk_SuccessHistoryIntelligentOptimization : skeleton := {|
  sk_name := "SuccessHistoryIntelligentOptimization";
  sk_step := [WMap true]; sk_after_init := []; sk_before_init := [];
  sk_init_pop_overridden := false;
  sk_raw_sites := 0; sk_core_writes := 0; sk_objective_calls := 0;
  sk_reflection := 0; sk_init_agent_ok := true; sk_greedy := GMin;
  sk_config_writes := []; sk_task_writes := [];
  sk_stale := ["_previous_error"]; sk_entropy := [];
  sk_reads_fitness := false; sk_reads_direction := false;
  sk_ctor_deref := []; sk_set_config_canonical := true;
  sk_fingerprint := "da862e07e73f595f" |}.

Definition sk_SwarmHillClimbingOptimization : skeleton := {|
  sk_name := "SwarmHillClimbingOptimization";
  sk_step := [WMap true]; sk_after_init := []; sk_before_init := [];
  sk_init_pop_overridden := false;
  sk_raw_sites := 0; sk_core_writes := 0; sk_objective_calls := 0;
  sk_reflection := 0; sk_init_agent_ok := true; sk_greedy := GMin;
  sk_config_writes := []; sk_task_writes := [];
  sk_stale := ["_previous_error"]; sk_entropy := [];
  sk_reads_fitness := false; sk_reads_direction := false;
  sk_ctor_deref := []; sk_set_config_canonical := true;
  sk_fingerprint := "5f92b04c6f873753" |}.

Definition sk_TasmanianDevilOptimization : skeleton := {|
  sk_name := "TasmanianDevilOptimization";
  sk_step := [WMap false]; sk_after_init := []; sk_before_init := [];
  sk_init_pop_overridden := false;
  sk_raw_sites := 0; sk_core_writes := 0; sk_objective_calls := 0;
  sk_reflection := 0; sk_init_agent_ok := true; sk_greedy := GMin;
  sk_config_writes := []; sk_task_writes := [];
  sk_stale := ["_previous_error"]; sk_entropy := [];
  sk_reads_fitness := false; sk_reads_direction := false;
  sk_ctor_deref := []; sk_set_config_canonical := true;
  sk_fingerprint := "ff3b9c25fcb5d8f2" |}.

Definition sk_TunaSwarmOptimization : skeleton := {|
  sk_name := "TunaSwarmOptimization";
  sk_step := [WMap true]; sk_after_init := []; sk_before_init := [];
  sk_init_pop_overridden := false;
  sk_raw_sites := 0; sk_core_writes := 0; sk_objective_calls := 0;
  sk_reflection := 0; sk_init_agent_ok := true; sk_greedy := GMin;
  sk_config_writes := []; sk_task_writes := [];
  sk_stale := ["_previous_error"]; sk_entropy := [];
  sk_reads_fitness := false; sk_reads_direction := false;
  sk_ctor_deref := []; sk_set_config_canonical := true;
  sk_fingerprint := "bd706b46028312a5" |}.

Definition sk_VirusColonySearchOptimization : skeleton := {|
  sk_name := "VirusColonySearchOptimization";
  sk_step := [WMap true; WMap true; WMap false]; sk_after_init := []; sk_before_init := [];
  sk_init_pop_overridden := false;
  sk_raw_sites := 0; sk_core_writes := 0; sk_objective_calls := 0;
  sk_reflection := 0; sk_init_agent_ok := true; sk_greedy := GMin;
  sk_config_writes := []; sk_task_writes := [];
  sk_stale := ["_previous_error"]; sk_entropy := [];
  sk_reads_fitness := false; sk_reads_direction := false;
  sk_ctor_deref := []; sk_set_config_canonical := true;
  sk_fingerprint := "4788b61ebbd52e99" |}.

Definition sk_WalrusOptimization : skeleton := {|
  sk_name := "WalrusOptimization";
  sk_step := [WMap true]; sk_after_init := []; sk_before_init := [];
  sk_init_pop_overridden := false;
  sk_raw_sites := 0; sk_core_writes := 0; sk_objective_calls := 0;
  sk_reflection := 0; sk_init_agent_ok := true; sk_greedy := GMin;
  sk_config_writes := []; sk_task_writes := [];
  sk_stale := ["_previous_error"]; sk_entropy := [];
  sk_reads_fitness := false; sk_reads_direction := false;
  sk_ctor_deref := []; sk_set_config_canonical := true;
  sk_fingerprint := "fd34d38ca1de35c9" |}.

Definition sk_WarStrategyOptimization : skeleton := {|
  sk_name := "WarStrategyOptimization";
  sk_step := [WMap true]; sk_after_init := []; sk_before_init := [];
  sk_init_pop_overridden := false;
  sk_raw_sites := 0; sk_core_writes := 0; sk_objective_calls := 0;
  sk_reflection := 0; sk_init_agent_ok := true; sk_greedy := GMin;
  sk_config_writes := []; sk_task_writes := [];
  sk_stale := ["_previous_error"]; sk_entropy := [];
  sk_reads_fitness := false; sk_reads_direction := false;
  sk_ctor_deref := []; sk_set_config_canonical := true;
  sk_fingerprint := "9248f1a79e7df432" |}.

Definition sk_WaterCycleOptimization : skeleton := {|
  sk_name := "WaterCycleOptimization";
  sk_step := [WOther]; sk_after_init := []; sk_before_init := [];
  sk_init_pop_overridden := false;
  sk_raw_sites := 0; sk_core_writes := 0; sk_objective_calls := 0;
  sk_reflection := 0; sk_init_agent_ok := true; sk_greedy := GMin;
  sk_config_writes := []; sk_task_writes := [];
  sk_stale := ["_previous_error"]; sk_entropy := [];
  sk_reads_fitness := false; sk_reads_direction := false;
  sk_ctor_deref := []; sk_set_config_canonical := true;
  sk_fingerprint := "11d5175de3884bae" |}.

Definition sk_WhalesOptimization : skeleton := {|
  sk_name := "WhalesOptimization";
  sk_step := [WMap true]; sk_after_init := []; sk_before_init := [];
  sk_init_pop_overridden := false;
  sk_raw_sites := 0; sk_core_writes := 0; sk_objective_calls := 0;
  sk_reflection := 0; sk_init_agent_ok := true; sk_greedy := GMin;
  sk_config_writes := []; sk_task_writes := [];
  sk_stale := ["_previous_error"]; sk_entropy := [];
  sk_reads_fitness := false; sk_reads_direction := false;
  sk_ctor_deref := []; sk_set_config_canonical := true;
  sk_fingerprint := "d9bdb9582cacaa01" |}.

Definition sk_WildebeestHerdOptimization : skeleton := {|
  sk_name := "WildebeestHerdOptimization";
  sk_step := [WMap true; WMap true; WGreedyPop]; sk_after_init := []; sk_before_init := [];
  sk_init_pop_overridden := false;
  sk_raw_sites := 0; sk_core_writes := 0; sk_objective_calls := 0;
  sk_reflection := 0; sk_init_agent_ok := true; sk_greedy := GMin;
  sk_config_writes := []; sk_task_writes := [];
  sk_stale := ["_previous_error"]; sk_entropy := [];
  sk_reads_fitness := false; sk_reads_direction := false;
  sk_ctor_deref := []; sk_set_config_canonical := true;
  sk_fingerprint := "a82a777f0ceca34a" |}.

Definition sk_WindDrivenOptimization : skeleton := {|
  sk_name := "WindDrivenOptimization";
  sk_step := [WGreedyPop]; sk_after_init := []; sk_before_init := [];
  sk_init_pop_overridden := false;
  sk_raw_sites := 0; sk_core_writes := 0; sk_objective_calls := 0;
  sk_reflection := 0; sk_init_agent_ok := true; sk_greedy := GMin;
  sk_config_writes := []; sk_task_writes := [];
  sk_stale := ["_previous_error"]; sk_entropy := [];
  sk_reads_fitness := false; sk_reads_direction := false;
  sk_ctor_deref := []; sk_set_config_canonical := true;
  sk_fingerprint := "4f61e198de5d6eec" |}.

Definition sk_ZebraOptimization : skeleton := {|
  sk_name := "ZebraOptimization";
  sk_step := [WMap true; WMap true]; sk_after_init := []; sk_before_init := [];
  sk_init_pop_overridden := false;
  sk_raw_sites := 0; sk_core_writes := 0; sk_objective_calls := 0;
  sk_reflection := 0; sk_init_agent_ok := true; sk_greedy := GMin;
  sk_config_writes := []; sk_task_writes := [];
  sk_stale := ["_previous_error"]; sk_entropy := [];
  sk_reads_fitness := false; sk_reads_direction := false;
  sk_ctor_deref := []; sk_set_config_canonical := true;
  sk_fingerprint := "34a6624ff65a88bb" |}.

Definition all_skeletons : list skeleton :=
  [sk_AfricanVultureOptimization;
   sk_AntColonyOptimization;
   sk_AntLionOptimization;
   sk_AquilaOptimization;
   sk_ArchimedeOptimization;
   sk_BacterialForagingOptimization;
   sk_BatOptimization;
   sk_BattleRoyaleOptimization;
   sk_BeeColonyOptimization;
   sk_BiogeographyBasedOptimization;
   sk_BrainStormOptimization;
   sk_BrownBearOptimization;
   sk_CamelCaravanOptimization;
   sk_CatSwarmOptimization;
   sk_ChaosGameOptimization;
   sk_ChernobylDisasterOptimization;
   sk_CoatiOptimization;
   sk_CoralReefOptimization;
   sk_CoronavirusHerdImmunityOptimization;
   sk_CoyotesOptimization;
   sk_CuckooSearchOptimization;
   sk_DragonflyOptimization;
   sk_DwarfMongooseOptimization;
   sk_EarthwormsOptimization;
   sk_EgretSwarmOptimization;
   sk_ElectromagneticFieldOptimization;
   sk_ElephantHerdOptimization;
   sk_EnergyValleyOptimization;
   sk_FicksLawOptimization;
   sk_FireHawkOptimization;
   sk_FireflySwarmOptimization;
   sk_FireworksOptimization;
   sk_FishSchoolSearchOptimization;
   sk_FlowerPollinationAlgorithmOptimization;
   sk_ForensicBasedInvestigationOptimization;
   sk_ForestOptimizationAlgorithm;
   sk_FoxOptimization;
   sk_GainingSharingKnowledgeOptimization;
   sk_GeneticAlgorithmOptimization;
   sk_GerminalCenterOptimization;
   sk_GiantTrevallyOptimization;
   sk_GizaPyramidConstructionOptimization;
   sk_GoldenJackalOptimization;
   sk_GrasshopperOptimization;
   sk_GreyWolfOptimization;
   sk_HarmonySearchOptimization;
   sk_HeapBasedOptimization;
   sk_HenryGasSolubilityOptimization;
   sk_HungerGamesSearchOptimization;
   sk_ImperialistCompetitiveOptimization;
   sk_ImprovedBrainStormOptimization;
   sk_InvasiveWeedOptimization;
   sk_KrillHerdOptimization;
   sk_LeviFlightJayaSwarmOptimization;
   sk_MarinePredatorsOptimization;
   sk_MonarchButterflyOptimization;
   sk_MothFlameOptimization;
   sk_MountainGazelleOptimization;
   sk_MultiverseOptimization;
   sk_NuclearReactionOptimization;
   sk_OspreyOptimization;
   sk_ParticleSwarmOptimization;
   sk_PathfinderAlgorithmOptimization;
   sk_PelicanOptimization;
   sk_QleSineCosineAlgorithmOptimization;
   sk_RungeKuttaOptimization;
   sk_SalpSwarmOptimization;
   sk_SeagullOptimization;
   sk_ServalOptimization;
   sk_SiberianTigerOptimization;
   sk_SineCosineAlgorithmOptimization;
   sk_SpottedHyenaOptimization;
   sk_SuccessHistoryIntelligentOptimization;
   sk_SwarmHillClimbingOptimization;
   sk_TasmanianDevilOptimization;
   sk_TunaSwarmOptimization;
   sk_VirusColonySearchOptimization;
   sk_WalrusOptimization;
   sk_WarStrategyOptimization;
   sk_WaterCycleOptimization;
   sk_WhalesOptimization;
   sk_WildebeestHerdOptimization;
   sk_WindDrivenOptimization;
   sk_ZebraOptimization].

(* exported optimizer classes for which no class definition was found (fail closed) *)
Definition missing_skeletons : list string := [].
