(* GENERATED from /repo by pv/regen.py on every run — do not edit. *)
From Coq Require Import List ZArith Bool Arith.
From PV Require Import Xnum Select PyLib.
Import ListNotations.

Section Gen.
Variable A : Type.
Variable cost : A -> xnum.
Variable copy : A -> A.
Variable pool_perm : list A -> list A.
Variable init_draw : nat -> A.

Definition gen_sort_by_cost (population : (list A)) (task_type : dir) : (list A) :=
  let pop_new := population in
  let pop_new_v1 := (py_sort cost (dir_eqb task_type MAX) pop_new) in
  pop_new_v1.

Definition gen_sort_by_cost_indexes (population : (list A)) (task_type : dir) (pi : (list nat)) : (list nat) :=
  let result := pi in
  let result_v2 := if (dir_eqb task_type MAX) then let result_v1 := (rev result) in
  result_v1 else result in
  result_v2.

Definition gen_sort_and_trim (population : (list A)) (population_size : nat) : (list A) :=
  (firstn population_size (gen_sort_by_cost population MIN)).

Definition gen_best_agents (population : (list A)) (n_best : nat) (task_type : dir) : (list A) :=
  (firstn n_best (gen_sort_by_cost population task_type)).

Definition gen_worst_agents (population : (list A)) (n_worst : nat) (task_type : dir) : (list A) :=
  (skipn ((length population) - n_worst) (gen_sort_by_cost population task_type)).

Definition gen_best_agent (population : (list A)) (task_type : dir) : (option A) :=
  match single (gen_best_agents population 1 task_type) with None => None | Some b_agent =>
  (Some b_agent) end.

Definition gen_worst_agent (population : (list A)) (task_type : dir) : (option A) :=
  match single (gen_worst_agents population 1 task_type) with None => None | Some w_agent =>
  (Some w_agent) end.

Definition gen_best_agents_indexes (population : (list A)) (n_best : nat) (task_type : dir) (pi : (list nat)) : (list nat) :=
  (firstn n_best (gen_sort_by_cost_indexes population task_type pi)).

Definition gen_worst_agents_indexes (population : (list A)) (n_worst : nat) (task_type : dir) (pi : (list nat)) : (list nat) :=
  (skipn ((length population) - n_worst) (gen_sort_by_cost_indexes population task_type pi)).

Definition gen_special_agents (population : (list A)) (n_best : (option nat)) (n_worst : (option nat)) (task_type : dir) : (option ((list A) * (list A))) :=
  if (andb (negb (is_some n_best)) (negb (is_some n_worst))) then None else
  let best := [] in
  let best_v3 := match n_best with Some n_best_v1 =>
      let best_v2 := (gen_best_agents population n_best_v1 task_type) in
  best_v2
    | None => best end in
  let worst := [] in
  let worst_v6 := match n_worst with Some n_worst_v4 =>
      let worst_v5 := (gen_worst_agents population n_worst_v4 task_type) in
  worst_v5
    | None => worst end in
  (Some (best_v3, worst_v6)).

Definition gen_greedy_select_agent (agent : A) (new_agent : A) : A :=
  let agent_copy := (copy agent) in
  (if (xltb (cost new_agent) (cost agent_copy)) then new_agent else agent_copy).

Definition gen_greedy_select_population (pop : (list A)) (new_population : (list A)) (mode : mode) : (option (list A)) :=
  let self__population_v1 := (gen_sort_by_cost pop MIN) in
  let new_population_v2 := (gen_sort_by_cost new_population MIN) in
  if (mode_eqb mode SERIAL) then match (py_enum_zip (fun agent m_v3 => (gen_greedy_select_agent agent m_v3)) self__population_v1 new_population_v2) with None => None | Some self__population_v4 =>
  (Some self__population_v4) end else
  match (py_enum_zip (fun agent m_v5 => (gen_greedy_select_agent agent m_v5)) self__population_v1 new_population_v2) with None => None | Some executors =>
  let self__population_v6 := (pool_perm executors) in
  (Some self__population_v6) end.

Definition gen_generate_agents (n_agents : nat) (mode : mode) : (list A) :=
  if (mode_eqb mode SERIAL) then (map (fun i_ => (init_draw i_)) (seq 0 n_agents)) else
  let executors := (map (fun i_ => (init_draw i_)) (seq 0 n_agents)) in
  let pop := (pool_perm executors) in
  pop.

Definition gen_init_population (pop : (list A)) (population_size : nat) (mode : mode) : (list A) :=
  let self__population_v1 := (gen_generate_agents population_size mode) in
  self__population_v1.

Definition gen_extend_and_trim_population (pop : (list A)) (new_population : (list A)) (population_size : nat) : (list A) :=
  if (Nat.eqb (length new_population) 0) then pop else
  let self__population_v1 := (pop ++ new_population) in
  let self__population_v2 := (gen_sort_and_trim self__population_v1 population_size) in
  self__population_v2.

Definition gen_replace_and_trim_population (pop : (list A)) (new_population : (list A)) (population_size : nat) : (list A) :=
  let self__population_v1 := (gen_sort_and_trim new_population population_size) in
  self__population_v1.
End Gen.

Definition gen_sort_by_cost_mutates_param : bool := false.
Definition gen_sort_by_cost_indexes_mutates_param : bool := false.
Definition gen_sort_and_trim_mutates_param : bool := false.
Definition gen_best_agents_mutates_param : bool := false.
Definition gen_worst_agents_mutates_param : bool := false.
Definition gen_best_agent_mutates_param : bool := false.
Definition gen_worst_agent_mutates_param : bool := false.
Definition gen_best_agents_indexes_mutates_param : bool := false.
Definition gen_worst_agents_indexes_mutates_param : bool := false.
Definition gen_special_agents_mutates_param : bool := false.
Definition gen_greedy_select_agent_mutates_param : bool := false.
Definition gen_greedy_select_population_mutates_param : bool := false.
Definition gen_generate_agents_mutates_param : bool := false.
Definition gen_init_population_mutates_param : bool := false.
Definition gen_extend_and_trim_population_mutates_param : bool := false.
Definition gen_replace_and_trim_population_mutates_param : bool := false.
