(* GENERATED from /repo by pv/regen.py on every run — do not edit. *)
From Coq Require Import List ZArith Bool Arith.
From PV Require Import Xnum Select PyLib Trend.
Import ListNotations.

Section Gen.
Variable A : Type.
Variable cost : A -> xnum.
Variable POS : Type.
Variable pos : A -> POS.

Definition gen_agent_trend (evo : (list (list A))) (d : dir) (idx : nat) (iters : (option (list nat))) : (option (list xnum)) :=
  let iters_v1 := match iters with Some v_ => v_ | None => (seq 0 (length evo)) end in
  (map_opt (fun i => (trend_cell A cost xnum cost evo d i idx)) iters_v1).

Definition gen_best_agent_trend (evo : (list (list A))) (d : dir) (iters : (option (list nat))) : (option (list xnum)) :=
  (gen_agent_trend evo d 0 iters).

Definition gen_agent_position (evo : (list (list A))) (d : dir) (idx : nat) (iters : (option (list nat))) : (option (list POS)) :=
  let iters_v1 := match iters with Some v_ => v_ | None => (seq 0 (length evo)) end in
  (map_opt (fun i => (trend_cell A cost POS pos evo d i idx)) iters_v1).

Definition gen_best_agent_position (evo : (list (list A))) (d : dir) (iters : (option (list nat))) : (option (list POS)) :=
  (gen_agent_position evo d 0 iters).
End Gen.

Definition gen_agent_trend_mutates_param : bool := false.
Definition gen_best_agent_trend_mutates_param : bool := false.
Definition gen_agent_position_mutates_param : bool := false.
Definition gen_best_agent_position_mutates_param : bool := false.
