(* C13Main.v — the C13 statements.  Scalar kinds: about the methods REGENERATED from models.py;
   multi-variables and random sampling: about the hand model (tied by correspondence). *)
From Coq Require Import List ZArith Bool Arith Lia Permutation.
From PV Require Import Xnum Select PyLib Argsort Labels Vars Vars_proofs.
From PVGen Require Import GenVars.
From PVBridge Require Import VarsBridge.
Import ListNotations.

(* ContinuousVariable: correct maps every non-NaN input (incl. +-inf) into [lo, hi], fixes members, is idempotent *)
Theorem cont_laws lo hi x : is_fin lo = true -> is_fin hi = true -> xltb lo hi = true -> non_nan x ->
  let y := gen_cont_correct lo hi x in
  is_fin y = true /\ xleb lo y = true /\ xleb y hi = true /\
  (xleb lo x = true -> xleb x hi = true -> y = x) /\ gen_cont_correct lo hi y = y.
Proof.
  intros Hl Hh Hlt Hx. cbn zeta. unfold gen_cont_correct.
  pose proof (cont_correct_in_dom lo hi x (conj Hl (conj Hh Hlt)) Hx) as H. cbn in H.
  apply andb_true_iff in H as [H H2]. apply andb_true_iff in H as [H0 H1].
  repeat split; auto.
  - intros A B. apply xclip_fix. split; auto.
  - apply xclip_fix. split; auto.
Qed.

Section Disc.
Variable C : Type.
(* DiscreteVariable: correct yields an index of a declared choice; members are fixed; decode returns that choice *)
Theorem disc_laws (choices : list C) x : choices <> [] -> non_nan x ->
  exists k, gen_disc_correct C choices x = Some k /\ (0 <= k < Z.of_nat (length choices))%Z /\
    (forall j, (0 <= j < Z.of_nat (length choices))%Z -> x = xint j -> k = j) /\
    gen_disc_correct C choices (xint k) = Some k /\
    exists c, gen_disc_decode C choices (xint k) = Some c /\ nth_error choices (Z.to_nat k) = Some c.
Proof.
  intros Hne Hx.
  assert (Hn : 1 <= length choices) by (destruct choices; [congruence|cbn; lia]).
  destruct (disc_correct_in_dom (length choices) x Hn Hx) as (k & E & Hk).
  rewrite disc_correct_bridge in E. destruct (gen_disc_correct C choices x) as [k'|] eqn:Eg; [|discriminate].
  cbn in E. inversion E as [E']. assert (k' = k).
  { unfold xint in E'. inversion E' as [E'']. pose proof SCALE_pos. nia. }
  subst k'. exists k. split; auto. split; auto.
  assert (Fix : forall j, (0 <= j < Z.of_nat (length choices))%Z -> gen_disc_correct C choices (xint j) = Some j).
  { intros j Hj. pose proof (disc_correct_fix (length choices) (xint j) (is_int_in_xint _ _ Hj)) as F.
    rewrite disc_correct_bridge in F. destruct (gen_disc_correct C choices (xint j)) as [j'|]; [|discriminate].
    cbn in F. inversion F as [F']. f_equal. pose proof SCALE_pos. nia. }
  split.
  - intros j Hj ->. rewrite (Fix j Hj) in Eg. inversion Eg; auto.
  - split; [apply Fix; auto|].
    rewrite disc_decode_bridge.
    destruct (disc_decode_declared (length choices) (xint k) (is_int_in_xint _ _ Hk)) as (k2 & Ed & Ex & Hk2).
    rewrite Ed. assert (k2 = k) by (unfold xint in Ex; inversion Ex; pose proof SCALE_pos; nia). subst k2.
    destruct (nth_error choices (Z.to_nat k)) as [c|] eqn:En; [exists c; auto|].
    apply nth_error_None in En. lia.
Qed.
End Disc.

(* PermutationVariable: whatever valid inner argsort numpy returns, correct yields a permutation of
   the item indexes, leaves permutations unchanged and is idempotent; decode looks the corrected
   index order up in the label encoder *)
Theorem perm_laws (v : list xnum) (pi : list nat) : valid_argsort xltb XNaN v pi ->
  let r := gen_perm_correct v pi in
  Permutation r (seq 0 (length v)) /\
  (forall p, Permutation p (seq 0 (length v)) -> v = nats_x p -> r = p) /\
  (forall pi', valid_argsort xltb XNaN (nats_x r) pi' -> gen_perm_correct (nats_x r) pi' = r).
Proof.
  intros Hv. cbn zeta. rewrite !perm_correct_bridge. destruct Hv as [P S].
  assert (R : Permutation (correct_perm_of pi) (seq 0 (length v))).
  { unfold correct_perm_of, argsort_nat. rewrite (argsort_perm nat Nat.ltb pi).
    rewrite (Permutation_length P), seq_length. reflexivity. }
  assert (Fix : forall p q, Permutation p (seq 0 (length p)) -> valid_argsort xltb XNaN (nats_x p) q -> correct_perm_of q = p).
  { intros p q Hp Hq.
    pose proof (perm_correct_fix (length p) (nats_x p) q) as F.
    assert (D : in_domb (SPerm (length p)) (CVec (nats_x p)) = true).
    { cbn. rewrite map_opt_nats_x. apply is_permb_spec; auto. }
    specialize (F D Hq). apply (f_equal (map_opt x_to_nat)) in F. rewrite !map_opt_nats_x in F. inversion F; auto. }
  repeat split; auto.
  - intros p Hp ->. unfold nats_x in *. rewrite map_length in *.
    apply Fix; [|split; auto]. rewrite (Permutation_length Hp), seq_length at 1. auto.
    + unfold nats_x. rewrite map_length. auto.
  - intros pi' Hpi'. rewrite perm_correct_bridge. apply Fix; auto.
    rewrite (Permutation_length R), seq_length. exact R.
Qed.
Theorem perm_decode_law L (labels : list L) v pi :
  gen_perm_decode L labels v pi = decode_labels L labels (gen_perm_correct v pi).
Proof. reflexivity. Qed.

Theorem validators_reject :
  (forall lo hi, gen_cont_validate lo hi = None <-> xleb hi lo = true) /\
  (forall k, gen_binary_validate k = None <-> (k <= 0)%Z).
Proof.
  split.
  - intros lo hi. unfold gen_cont_validate. destruct (xleb hi lo); split; congruence.
  - intros k. unfold gen_binary_validate. destruct (Z.leb_spec k 0); split; try congruence; try lia.
Qed.
