(* SelectBridge.v — the definitions regenerated from helpers.py / abstract.py coincide with the hand
   model of Select.v that the C16 (C03, C10, C17) theorems are about. *)
From Coq Require Import List ZArith Bool Arith Lia Permutation.
From PV Require Import Xnum Select PyLib Select_proofs.
From PVGen Require Import GenSelect.
Import ListNotations.

Section Bridge.
Variable A : Type.
Variable cost : A -> xnum.
Variable copy : A -> A.
Variable pool_perm : list A -> list A.

(* helpers.get_pool_results (regenerated: a loop appending i.result() for i in as_completed(futures)) returns the results in the completion order, one per future *)
Lemma get_pool_results_bridge l : gen_get_pool_results A pool_perm l = pool_perm l.
Proof.
  unfold gen_get_pool_results.
  assert (H : forall (m acc : list A), fold_left (fun st_ i => st_ ++ [i]) m acc = acc ++ m).
  { induction m as [|x t IH]; intros acc; cbn [fold_left]; [rewrite app_nil_r; reflexivity|]. rewrite IH, <- app_assoc. reflexivity. }
  apply (H (pool_perm l) []).
Qed.

Lemma sort_by_cost_bridge l d : gen_sort_by_cost A cost l d = sort_by_cost cost d l.
Proof. unfold gen_sort_by_cost, py_sort. destruct d; reflexivity. Qed.

Lemma sort_by_cost_indexes_bridge l d pi :
  gen_sort_by_cost_indexes A l d pi = sort_by_cost_indexes d pi.
Proof. unfold gen_sort_by_cost_indexes. destruct d; reflexivity. Qed.

Lemma sort_and_trim_bridge l p : gen_sort_and_trim A cost l p = sort_and_trim cost l p.
Proof. unfold gen_sort_and_trim. rewrite sort_by_cost_bridge. reflexivity. Qed.

Lemma best_agents_bridge l n d : gen_best_agents A cost l n d = best_agents cost n d l.
Proof. unfold gen_best_agents. rewrite sort_by_cost_bridge. reflexivity. Qed.

Lemma worst_agents_bridge l n d : gen_worst_agents A cost l n d = worst_agents cost n d l.
Proof. unfold gen_worst_agents. rewrite sort_by_cost_bridge. reflexivity. Qed.

Lemma best_agent_bridge l d : gen_best_agent A cost l d = best_agent cost d l.
Proof.
  unfold gen_best_agent, best_agent. rewrite best_agents_bridge.
  destruct (best_agents cost 1 d l) as [|x [|y t]]; reflexivity.
Qed.
Lemma worst_agent_bridge l d : gen_worst_agent A cost l d = worst_agent cost d l.
Proof.
  unfold gen_worst_agent, worst_agent. rewrite worst_agents_bridge.
  destruct (worst_agents cost 1 d l) as [|x [|y t]]; reflexivity.
Qed.

Lemma best_agents_indexes_bridge l n d pi :
  gen_best_agents_indexes A l n d pi = best_agents_indexes n d pi.
Proof. unfold gen_best_agents_indexes. rewrite sort_by_cost_indexes_bridge. reflexivity. Qed.
(* the code slices with len(population); the model with length pi: equal for an argsort of the costs *)
Lemma worst_agents_indexes_bridge l n d pi : length pi = length l ->
  gen_worst_agents_indexes A l n d pi = worst_agents_indexes n d pi.
Proof.
  intros H. unfold gen_worst_agents_indexes, worst_agents_indexes.
  rewrite sort_by_cost_indexes_bridge, H. reflexivity.
Qed.

Lemma special_agents_bridge l nb nw d :
  gen_special_agents A cost l nb nw d = special_agents cost nb nw d l.
Proof.
  unfold gen_special_agents, special_agents.
  destruct nb, nw; cbn; rewrite ?best_agents_bridge, ?worst_agents_bridge; reflexivity.
Qed.

(* the code compares the challenger with the COPY of the incumbent; equal costs make that the model's test *)
Hypothesis copy_cost : forall a, cost (copy a) = cost a.
Lemma greedy_select_agent_bridge a b : gen_greedy_select_agent A cost copy a b = greedy cost copy a b.
Proof. unfold gen_greedy_select_agent, greedy. rewrite copy_cost. reflexivity. Qed.

Lemma map2_ext {X Y Z} (f g : X -> Y -> Z) l1 l2 : (forall x y, f x y = g x y) -> map2 f l1 l2 = map2 g l1 l2.
Proof. intros H. revert l2; induction l1 as [|x t IH]; intros [|y u]; cbn; auto. rewrite H, IH. reflexivity. Qed.

(* serial mode: exactly the model; pooled modes: the model's result in the pool's completion order *)
Lemma greedy_select_population_bridge_serial pop new :
  gen_greedy_select_population A cost copy pool_perm pop new SERIAL = greedy_population cost copy pop new.
Proof.
  unfold gen_greedy_select_population, greedy_population, py_enum_zip. cbn [mode_eqb].
  rewrite !sort_by_cost_bridge, !sort_length.
  destruct (length new <? length pop); auto.
  f_equal. apply map2_ext. intros; apply greedy_select_agent_bridge.
Qed.
Lemma greedy_select_population_bridge_pool pop new m : m <> SERIAL ->
  gen_greedy_select_population A cost copy pool_perm pop new m =
  option_map pool_perm (greedy_population cost copy pop new).
Proof.
  intros Hm. unfold gen_greedy_select_population, greedy_population, py_enum_zip.
  destruct m; [congruence| |]; cbn [mode_eqb];
  rewrite !sort_by_cost_bridge, !sort_length;
  (destruct (length new <? length pop); cbn; auto; rewrite get_pool_results_bridge;
   do 2 f_equal; apply map2_ext; intros; apply greedy_select_agent_bridge).
Qed.

(* _init_population: exactly population_size agents, one per submitted evaluation, in every mode
   (a pool returns the results in some completion order: a permutation) *)
Variable init_draw : nat -> A.
Lemma init_population_size pop P m : (forall l, Permutation l (pool_perm l)) ->
  length (gen_init_population A pool_perm init_draw pop P m) = P /\
  Permutation (gen_init_population A pool_perm init_draw pop P m) (map init_draw (seq 0 P)).
Proof.
  intros Hp. unfold gen_init_population, gen_generate_agents. rewrite get_pool_results_bridge. destruct (mode_eqb m SERIAL).
  - split; [rewrite map_length, seq_length; reflexivity|apply Permutation_refl].
  - split; [rewrite <- (Permutation_length (Hp _)), map_length, seq_length; reflexivity|apply Permutation_sym, Hp].
Qed.

Lemma extend_and_trim_bridge pop new p :
  gen_extend_and_trim_population A cost pop new p = extend_and_trim cost p pop new.
Proof.
  unfold gen_extend_and_trim_population, extend_and_trim. rewrite sort_and_trim_bridge.
  destruct new; reflexivity.
Qed.
Lemma replace_and_trim_bridge pop new p :
  gen_replace_and_trim_population A cost pop new p = replace_and_trim cost p new.
Proof. unfold gen_replace_and_trim_population, replace_and_trim. apply sort_and_trim_bridge. Qed.
End Bridge.

(* none of the helpers mutates a list it was handed (T-core's alias tracking: an in-place
   .sort/.extend/.append/... on a parameter that is not the method's own state sets the flag) *)
Lemma helpers_do_not_mutate_caller_lists :
  gen_sort_by_cost_mutates_param = false /\ gen_sort_by_cost_indexes_mutates_param = false /\
  gen_sort_and_trim_mutates_param = false /\ gen_best_agents_mutates_param = false /\
  gen_worst_agents_mutates_param = false /\ gen_best_agent_mutates_param = false /\
  gen_worst_agent_mutates_param = false /\ gen_best_agents_indexes_mutates_param = false /\
  gen_worst_agents_indexes_mutates_param = false /\ gen_special_agents_mutates_param = false /\
  gen_greedy_select_agent_mutates_param = false /\ gen_greedy_select_population_mutates_param = false /\
  gen_extend_and_trim_population_mutates_param = false /\ gen_replace_and_trim_population_mutates_param = false.
Proof. repeat split; reflexivity. Qed.
