(* TrendBridge.v — utils.py as regenerated coincides with the model of Trend.v. *)
From Coq Require Import List ZArith Bool Arith.
From PV Require Import Xnum Select PyLib Trend.
From PVGen Require Import GenTrend.
Import ListNotations.

Section Bridge.
Variable A : Type.
Variable cost : A -> xnum.
Variable POS : Type.
Variable pos : A -> POS.

Lemma agent_trend_bridge evo d idx iters : gen_agent_trend A cost evo d idx iters = agent_trend A cost xnum cost evo d idx iters.
Proof. unfold gen_agent_trend, agent_trend. destruct iters; reflexivity. Qed.
Lemma best_agent_trend_bridge evo d iters : gen_best_agent_trend A cost evo d iters = best_agent_trend A cost xnum cost evo d iters.
Proof. unfold gen_best_agent_trend, best_agent_trend. apply agent_trend_bridge. Qed.
Lemma agent_position_bridge evo d idx iters : gen_agent_position A cost POS pos evo d idx iters = agent_trend A cost POS pos evo d idx iters.
Proof. unfold gen_agent_position, agent_trend. destruct iters; reflexivity. Qed.
Lemma best_agent_position_bridge evo d iters : gen_best_agent_position A cost POS pos evo d iters = agent_trend A cost POS pos evo d 0 iters.
Proof. unfold gen_best_agent_position. apply agent_position_bridge. Qed.
End Bridge.
