(* C04Main.v — C04 (stop rule) and C03 (best_solution) for a run of the REGENERATED optimize() schema,
   for every optimizer (hidden state, hooks, step function), every instance history, every
   configuration and every rate history. *)
From Coq Require Import List ZArith Bool Arith Lia Permutation.
From PV Require Import Xnum Select PyLib Select_proofs Argsort Loop Loop_proofs.
From PVGen Require Import GenStop GenSchema.
From PVBridge Require Import LoopBridge.
Import ListNotations.

Section Main.
Variable A : Type.
Variable cost : A -> xnum.
Variable with_cost : A -> xnum -> A.
Hypothesis with_cost_cost : forall a x, cost (with_cost a x) = x.
Variable F : Type.
Variables (fsub : F -> F -> F) (fabs : F -> F) (fltb fleb : F -> F -> bool) (fzero fone : F).
Variable avg : list A -> F.
Variable H : Type.
Variable before_init : H -> H.
Variable init_pop : H -> H * list A.
Variable after_init : H -> list A -> H * list A.
Variable step : H -> nat -> list A -> H * list A.

Notation run := (run A cost with_cost F fsub fabs fltb fleb fzero fone avg H before_init init_pop after_init step).
Notation report := (report A cost with_cost).
Notation pop_at := (pop_at A H step).
Notation rate := (rate A F fsub fabs fone avg H step).
Notation crit := (crit F fsub fabs fltb fleb fzero).

Definition entry_state (i : inst A F H) : H * list A * list A :=
  let hb := before_init (i_hidden _ _ _ i) in
  let '(h1, pinit) := init_pop hb in
  let '(h0, p0) := after_init h1 pinit in (h0, p0, pinit).

(* every generation that the run reaches is non-empty (otherwise the code raises ValueError: C06/C10) *)
Definition populated (c : cfg F) (h0 : H) (p0 pinit : list A) : Prop :=
  pinit <> [] /\
  forall j, 1 <= j <= max_cycles c -> (forall j', 1 <= j' < j -> crit (rate h0 p0) c j' = false) -> pop_at h0 p0 j <> [].

Theorem stop_rule ar (i : inst A F H) c h0 p0 pinit :
  i_config _ _ _ i = Some c -> valid_args ar -> 1 <= max_cycles c ->
  entry_state i = (h0, p0, pinit) -> populated c h0 p0 pinit ->
  exists K r i',
    run (max_cycles c) gen_optimize_schema ar i = Done A F H r i' K /\           (* K optimization steps were executed *)
    1 <= K <= max_cycles c /\                                                   (* at most max_cycles *)
    crit (rate h0 p0) c K = true /\                                             (* a criterion holds at K ... *)
    (forall j, 1 <= j < K -> crit (rate h0 p0) c j = false) /\                  (* ... and at no earlier cycle *)
    length (r_evolution _ _ r) = K + 1 /\ length (r_rates _ _ r) = K /\
    (forall k, 1 <= k <= K -> nth (k - 1) (r_rates _ _ r) fzero = fabs (fsub fone (avg (pop_at h0 p0 k)))) /\
    (forall k, 1 <= k <= K -> nth k (r_evolution _ _ r) [] = map (report (a_dir ar)) (pop_at h0 p0 k)) /\
    nth 0 (r_evolution _ _ r) [] = map (report (a_dir ar)) pinit.
Proof.
  intros Hc Hv Hm He [Hne Hpop]. rewrite schema_bridge.
  unfold entry_state in He.
  destruct (init_pop (before_init (i_hidden _ _ _ i))) as [h1 pin] eqn:Ei.
  destruct (after_init h1 pin) as [h0' p0'] eqn:Ea. inversion He; subst h0' p0' pin. clear He.
  pose proof (optimize_spec A cost with_cost F fsub fabs fltb fleb fzero fone avg H before_init init_pop after_init step ar c i Hc Hv Hm) as S.
  cbn zeta in S. rewrite Ei in S. cbn [fst snd] in S. rewrite Ea in S. cbn [fst snd] in S.
  destruct (S Hne Hpop) as (K & r & i' & R & HK & Hcr & Hfirst & Hev & Hra & _).
  exists K, r, i'. repeat split; auto; try lia.
  - rewrite Hev. cbn [length]. unfold gens. rewrite map_length, seq_length. lia.
  - rewrite Hra. apply rates_length.
  - intros k Hk. rewrite Hra. unfold rates_upto.
    rewrite (nth_map_lt (rate h0 p0) _ (k - 1) 0 fzero) by (rewrite seq_length; lia).
    rewrite seq_nth by lia. replace (1 + (k - 1)) with k by lia. reflexivity.
  - intros k Hk. rewrite Hev. destruct k as [|k']; [lia|]. cbn [nth]. unfold gens.
    rewrite (nth_map_lt (fun j => map (report (a_dir ar)) (pop_at h0 p0 j)) _ k' 0 []) by (rewrite seq_length; lia).
    rewrite seq_nth by lia. reflexivity.
  - rewrite Hev. reflexivity.
Qed.

(* C03: best_solution is a member of the last recorded generation and nobody there is strictly better *)
Lemma better_report d a b : better cost d (report d a) (report d b) = better cost MIN a b.
Proof. destruct d; cbn; auto. rewrite !with_cost_cost. apply xneg_ltb. Qed.

Theorem best_is_optimum ar (i : inst A F H) c h0 p0 pinit :
  i_config _ _ _ i = Some c -> valid_args ar -> 1 <= max_cycles c ->
  entry_state i = (h0, p0, pinit) -> populated c h0 p0 pinit ->
  (forall k, costs_ok A cost (pop_at h0 p0 k)) ->
  exists K r i' b,
    run (max_cycles c) gen_optimize_schema ar i = Done A F H r i' K /\
    r_best _ _ r = Some (report (a_dir ar) b) /\
    In (report (a_dir ar) b) (last (r_evolution _ _ r) []) /\
    forall o, In o (last (r_evolution _ _ r) []) -> better cost (a_dir ar) o (report (a_dir ar) b) = false.
Proof.
  intros Hc Hv Hm He [Hne Hpop] Hcosts. rewrite schema_bridge.
  unfold entry_state in He.
  destruct (init_pop (before_init (i_hidden _ _ _ i))) as [h1 pin] eqn:Ei.
  destruct (after_init h1 pin) as [h0' p0'] eqn:Ea. inversion He; subst h0' p0' pin. clear He.
  pose proof (optimize_spec A cost with_cost F fsub fabs fltb fleb fzero fone avg H before_init init_pop after_init step ar c i Hc Hv Hm) as S.
  cbn zeta in S. rewrite Ei in S. cbn [fst snd] in S. rewrite Ea in S. cbn [fst snd] in S.
  destruct (S Hne Hpop) as (K & r & i' & R & HK & Hcr & Hfirst & Hev & Hra & Hb & _).
  assert (HneK : pop_at h0 p0 K <> []) by (apply Hpop; [lia|]; intros; apply Hfirst; lia).
  destruct (special_nonempty A cost (pop_at h0 p0 K) HneK) as (b & w & _ & Hbest).
  exists K, r, i', b. split; auto. rewrite Hb, Hbest. split; auto.
  assert (Hlast : last (r_evolution _ _ r) [] = map (report (a_dir ar)) (pop_at h0 p0 K)).
  { rewrite Hev. destruct K as [|K']; [lia|]. unfold gens. rewrite seq_S, map_app. cbn [map].
    rewrite app_comm_cons, last_last. reflexivity. }
  rewrite Hlast.
  destruct (best_agent_optimal A cost MIN (pop_at h0 p0 K) b (Hcosts K) Hbest) as [Hin Hopt].
  split; [apply in_map; auto|].
  intros o Ho. apply in_map_iff in Ho as (o' & <- & Ho'). rewrite better_report. apply Hopt; auto.
Qed.

(* invalid calls are rejected before any cycle runs (steps = 0) *)
Theorem invalid_rejected fuel ar (i : inst A F H) :
  (i_config _ _ _ i = None -> run fuel gen_optimize_schema ar i = ErrValue A F H 0) /\
  (forall c, i_config _ _ _ i = Some c -> a_workers ar = Some None -> run fuel gen_optimize_schema ar i = ErrValue A F H 0) /\
  (forall c, i_config _ _ _ i = Some c -> a_workers ar <> Some None -> a_mode ar = Some None ->
     run fuel gen_optimize_schema ar i = ErrValue A F H 0).
Proof.
  rewrite schema_bridge. repeat split.
  - apply no_config_rejected.
  - intros c Hc Hw. eapply bad_workers_rejected; eauto.
  - intros c Hc Hw Hm. eapply bad_mode_rejected; eauto.
Qed.
End Main.
