(* LoopBridge.v — the stop rule, the sign-restoring result constructors and the statement schema of
   optimize(), all regenerated from /repo, coincide with the hand model of Loop.v. *)
From Coq Require Import List ZArith Bool Arith.
From PV Require Import Xnum Select PyLib Loop.
From PVGen Require Import GenStop GenSchema.
Import ListNotations.

Section Bridge.
Variable F : Type.
Variables (fsub : F -> F -> F) (fabs : F -> F) (fltb fleb : F -> F -> bool) (fzero fone : F).
Variable A : Type.
Variable cost : A -> xnum.
Variable with_cost : A -> xnum -> A.

Lemma should_stop_bridge c cycle diffs cur :
  gen_should_stop F fabs fltb fleb fzero c cycle diffs cur = should_stop F fabs fltb fleb fzero c cycle diffs cur.
Proof.
  unfold gen_should_stop, should_stop, small_decrease.
  destruct (early c), (fitness_error c); cbn; repeat rewrite orb_false_r; try reflexivity;
  repeat rewrite <- orb_assoc; reflexivity.
Qed.

Lemma error_check_bridge c cycle errors diffs avg_fit :
  gen_error_check F fsub fabs fltb fleb fzero fone c cycle errors diffs avg_fit =
  let '(cur, stop, e', d') := error_check F fsub fabs fltb fleb fzero fone c cycle errors diffs avg_fit in
  (cur, avg_fit, stop, e', d').
Proof. unfold gen_error_check, error_check. rewrite should_stop_bridge. reflexivity. Qed.

Lemma population_refine_bridge a d : gen_population_refine A cost with_cost a d = report A cost with_cost d a.
Proof. unfold gen_population_refine, report. destruct d; reflexivity. Qed.
Lemma result_refine_bridge a d : gen_result_refine A cost with_cost a d = report A cost with_cost d a.
Proof. unfold gen_result_refine, report. destruct d; reflexivity. Qed.
End Bridge.

Lemma schema_bridge : gen_optimize_schema = optimize_schema.
Proof. reflexivity. Qed.
