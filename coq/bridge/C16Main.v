(* C16Main.v — the C16 statements, about the definitions REGENERATED from the source. *)
From Coq Require Import List ZArith Bool Arith Lia Permutation Sorted.
From PV Require Import Xnum Select PyLib Select_proofs.
From PVGen Require Import GenSelect.
From PVBridge Require Import SelectBridge.
Import ListNotations.

Section C16.
Variable A : Type.
Variable cost : A -> xnum.
Variable copy : A -> A.
Variable pool_perm : list A -> list A.
Hypothesis copy_cost : forall a, cost (copy a) = cost a.
Hypothesis pool_perm_perm : forall l, Permutation l (pool_perm l).   (* any completion order *)

Notation costs_ok := (costs_ok A cost).
Notation Before := (Before A cost).
Notation better := (better cost).

(* best_agents: n members (as positions of the input: together with the omitted ones they are a
   permutation of it), best first, and nobody omitted is strictly better than somebody returned *)
Theorem best_agents_correct l n d : costs_ok l -> n <= length l ->
  let r := gen_best_agents A cost l n d in
  exists omitted,
    length r = n /\ Permutation l (r ++ omitted) /\ StronglySorted (Before d) r /\
    forall x o, In x r -> In o omitted -> better d o x = false.
Proof.
  intros Hc Hn. cbn zeta. rewrite best_agents_bridge.
  exists (skipn n (sort_by_cost cost d l)). repeat split.
  - apply best_length; auto.
  - apply best_partition.
  - apply best_first_sorted; auto.
  - intros x o Hx Ho. eapply best_optimal; eauto.
Qed.

Theorem worst_agents_correct l n d : costs_ok l -> n <= length l ->
  let r := gen_worst_agents A cost l n d in
  exists omitted,
    length r = n /\ Permutation l (omitted ++ r) /\ StronglySorted (Before d) r /\
    forall x o, In x r -> In o omitted -> better d x o = false.
Proof.
  intros Hc Hn. cbn zeta. rewrite worst_agents_bridge.
  exists (firstn (length l - n) (sort_by_cost cost d l)). repeat split.
  - apply worst_length; auto.
  - apply worst_partition.
  - apply worst_last_sorted; auto.
  - intros x o Hx Ho. eapply worst_optimal; eauto.
Qed.

Theorem best_agent_correct l d : costs_ok l ->
  match gen_best_agent A cost l d with
  | None => l = []
  | Some b => In b l /\ forall o, In o l -> better d o b = false
  end.
Proof.
  intros Hc. rewrite best_agent_bridge. destruct (best_agent cost d l) eqn:E.
  - eapply best_agent_optimal; eauto.
  - apply best_agent_none in E; auto.
Qed.

Theorem worst_agent_correct l d : costs_ok l ->
  match gen_worst_agent A cost l d with
  | None => l = []
  | Some w => In w l /\ forall o, In o l -> better d w o = false
  end.
Proof.
  intros Hc. rewrite worst_agent_bridge. destruct l as [|a0 t] eqn:El; [reflexivity|]. rewrite <- El in *.
  assert (Hne : l <> []) by (rewrite El; discriminate).
  rewrite (worst_agent_spec A cost d l a0 Hne).
  set (w := last (sort_by_cost cost d l) a0).
  assert (Hs : sort_by_cost cost d l <> []).
  { intros E. apply Hne. apply Permutation_nil. rewrite <- E. apply Permutation_sym, sort_perm. }
  assert (Hw : In w (sort_by_cost cost d l)).
  { unfold w. destruct (exists_last Hs) as (q & x & ->). rewrite last_last. apply in_or_app; right; left; auto. }
  split; [apply (sort_in A cost d); auto|].
  intros o Ho. apply (sort_in A cost d) in Ho.
  destruct (exists_last Hs) as (q & x & Eq). unfold w in *. rewrite Eq in *. rewrite last_last in *.
  apply in_app_or in Ho as [Ho|[<-|[]]].
  - pose proof (sort_sorted A cost d l Hc) as S. rewrite Eq in S.
    assert (G : forall (m : list A) y z, StronglySorted (Before d) (m ++ [z]) -> In y m -> Before d y z).
    { induction m as [|h m IH]; cbn; intros y z Hm Hy; [contradiction|]. inversion Hm as [|? ? Hm' Hf]; subst.
      destruct Hy as [<-|Hy]; [|eapply IH; eauto]. rewrite Forall_forall in Hf. apply Hf. apply in_or_app; right; left; auto. }
    specialize (G q o x S Ho). unfold Select_proofs.Before in G. rewrite before_not_better in G.
    apply negb_true_iff in G. exact G.
  - destruct d; cbn; apply xltb_irrefl.
Qed.

Theorem special_agents_correct l nb nw d :
  gen_special_agents A cost l nb nw d =
  match nb, nw with
  | None, None => None
  | _, _ => Some (match nb with Some n => gen_best_agents A cost l n d | None => [] end,
                  match nw with Some n => gen_worst_agents A cost l n d | None => [] end)
  end.
Proof.
  rewrite special_agents_bridge. unfold special_agents.
  destruct nb, nw; rewrite ?best_agents_bridge, ?worst_agents_bridge; reflexivity.
Qed.

(* index variants: whatever tie-breaking numpy's argsort chose, the designated agents have the same
   costs (in the same order) as the agents returned by the list variants *)
Theorem best_indexes_correct l n d pi : costs_ok l -> is_argsort (map cost l) pi ->
  map (nth_key (map cost l)) (gen_best_agents_indexes A l n d pi) = map cost (gen_best_agents A cost l n d).
Proof.
  intros Hc Hp. rewrite best_agents_indexes_bridge, best_agents_bridge.
  apply best_indexes_same_costs; auto.
Qed.
Theorem worst_indexes_correct l n d pi : costs_ok l -> is_argsort (map cost l) pi ->
  map (nth_key (map cost l)) (gen_worst_agents_indexes A l n d pi) = map cost (gen_worst_agents A cost l n d).
Proof.
  intros Hc Hp. rewrite worst_agents_indexes_bridge, worst_agents_bridge.
  - apply worst_indexes_same_costs; auto.
  - destruct Hp as [Hp _]. rewrite (Permutation_length Hp), seq_length, map_length. reflexivity.
Qed.

(* the single-index variants: the head of the 1-element index lists, i.e. an index whose cost is the cost of the best / worst agent *)
Theorem best_index_correct l d pi : costs_ok l -> is_argsort (map cost l) pi ->
  option_map (nth_key (map cost l)) (gen_best_agent_index A l d pi) = option_map cost (hd_error (gen_best_agents A cost l 1 d)).
Proof.
  intros Hc Hp. unfold gen_best_agent_index. pose proof (best_indexes_correct l 1 d pi Hc Hp) as E.
  destruct (gen_best_agents_indexes A l 1 d pi) as [|i r]; destruct (gen_best_agents A cost l 1 d) as [|b rb]; cbn in *; try discriminate; auto.
  injection E as E1 _. rewrite E1. reflexivity.
Qed.
Theorem worst_index_correct l d pi : costs_ok l -> is_argsort (map cost l) pi ->
  option_map (nth_key (map cost l)) (gen_worst_agent_index A l d pi) = option_map cost (hd_error (gen_worst_agents A cost l 1 d)).
Proof.
  intros Hc Hp. unfold gen_worst_agent_index. pose proof (worst_indexes_correct l 1 d pi Hc Hp) as E.
  destruct (gen_worst_agents_indexes A l 1 d pi) as [|i r]; destruct (gen_worst_agents A cost l 1 d) as [|b rb]; cbn in *; try discriminate; auto.
  injection E as E1 _. rewrite E1. reflexivity.
Qed.

(* sort-and-trim keeps the p cheapest in ascending order *)
Theorem sort_and_trim_correct l p : costs_ok l ->
  let r := gen_sort_and_trim A cost l p in
  exists omitted,
    length r = Nat.min p (length l) /\ Permutation l (r ++ omitted) /\ StronglySorted (Before MIN) r /\
    forall x o, In x r -> In o omitted -> xltb (cost o) (cost x) = false.
Proof.
  intros Hc. cbn zeta. rewrite sort_and_trim_bridge.
  exists (skipn p (sort_by_cost cost MIN l)).
  destruct (sort_and_trim_spec A cost l p Hc) as (H1 & H2 & H3 & H4). repeat split; auto.
  apply (best_partition A cost p MIN l).
Qed.

(* greedy replacement keeps the incumbent unless the challenger is strictly cheaper *)
Theorem greedy_agent_correct a b :
  gen_greedy_select_agent A cost copy a b = if xltb (cost b) (cost a) then b else copy a.
Proof. rewrite greedy_select_agent_bridge; auto. Qed.

(* ... element-wise on the two cost-sorted populations; in pooled modes the same agents in the
   pool's completion order; IndexError (None) exactly when the challengers are fewer *)
Theorem greedy_population_correct pop new m :
  match gen_greedy_select_population A cost copy pool_perm pop new m with
  | None => length new < length pop
  | Some r => length pop <= length new /\
      exists r0, Permutation r0 r /\ (m = SERIAL -> r = r0) /\ length r0 = length pop /\
        forall i d, i < length pop ->
          nth i r0 d = (let a := nth i (gen_sort_by_cost A cost pop MIN) d in
                        let b := nth i (gen_sort_by_cost A cost new MIN) d in
                        if xltb (cost b) (cost a) then b else copy a)
  end.
Proof.
  pose proof (greedy_population_spec A cost copy pop new) as S.
  destruct (mode_eqb m SERIAL) eqn:Em.
  - assert (m = SERIAL) by (destruct m; cbn in Em; congruence). subst m.
    rewrite greedy_select_population_bridge_serial by auto.
    destruct (greedy_population cost copy pop new) as [r|]; auto.
    destruct S as (S1 & S2 & S3). split; auto. exists r. repeat split; auto;
    try (intros i d Hi; rewrite !sort_by_cost_bridge; apply S3; auto).
  - assert (Hm : m <> SERIAL) by (intros ->; cbn in Em; discriminate).
    rewrite greedy_select_population_bridge_pool by auto.
    destruct (greedy_population cost copy pop new) as [r|]; cbn; auto.
    destruct S as (S1 & S2 & S3). split; auto. exists r. repeat split; auto; try congruence;
    try (intros i d Hi; rewrite !sort_by_cost_bridge; apply S3; auto).
Qed.

Theorem extend_and_trim_correct pop new p :
  gen_extend_and_trim_population A cost pop new p =
  match new with [] => pop | _ => gen_sort_and_trim A cost (pop ++ new) p end.
Proof. unfold gen_extend_and_trim_population. destruct new; reflexivity. Qed.
Theorem replace_and_trim_correct pop new p :
  gen_replace_and_trim_population A cost pop new p = gen_sort_and_trim A cost new p.
Proof. reflexivity. Qed.

(* sorting is a stable permutation: equal-cost agents keep their input order (both directions) *)
Theorem sort_by_cost_correct l d : costs_ok l ->
  let r := gen_sort_by_cost A cost l d in
  Permutation l r /\ StronglySorted (Before d) r /\
  forall c, filter (same_cost A cost c) r = filter (same_cost A cost c) l.
Proof.
  intros Hc. cbn zeta. rewrite sort_by_cost_bridge. repeat split.
  - apply sort_perm.
  - apply sort_sorted; auto.
  - intros c. apply sort_stable.
Qed.
End C16.

(* non-vacuity: a concrete population with ties, a negative cost and both infinities *)
Example c16_example :
  let l := [(0, XFin 5); (1, XNInf); (2, XFin 5); (3, XPInf); (4, XFin (-3))]%Z in
  map fst (gen_best_agents (Z * xnum) snd l 3 MIN) = [1; 4; 0]%Z /\
  map fst (gen_best_agents (Z * xnum) snd l 3 MAX) = [3; 0; 2]%Z /\
  map fst (gen_worst_agents (Z * xnum) snd l 2 MIN) = [2; 3]%Z /\
  costs_ok (Z * xnum) snd l.
Proof. cbn zeta. repeat split; try reflexivity. repeat constructor; unfold non_nan; cbn; congruence. Qed.
