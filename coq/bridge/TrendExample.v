(* TrendExample.v — non-vacuity of the C15 trend theorems: on a concrete three-generation history with ties the REGENERATED trend utilities return `Some` (the premise of
   C15_agent_trend / C15_agent_position / C15_best_trend_last), with the values the theorems describe (maximisation: second best of each generation; explicit iteration
   list; positions), and `None` exactly on the rejected inputs (rank or iteration out of range). *)
From Coq Require Import List ZArith Bool.
From PV Require Import Xnum Select PyLib Select_proofs Trend.
From PVGen Require Import GenTrend.
Import ListNotations.

Definition tr_evo : list (list Z) := [[3; 1; 2]; [2; 2; 5]; [0; 4; 4]]%Z.
Definition tr_cost (z : Z) : xnum := XFin z.

Example trend_hypotheses_satisfiable :
  gen_agent_trend Z tr_cost tr_evo MAX 1 None = Some [XFin 2; XFin 2; XFin 4] /\
  gen_agent_trend Z tr_cost tr_evo MIN 0 (Some [2; 0]) = Some [XFin 0; XFin 1] /\
  gen_agent_trend Z tr_cost tr_evo MIN 3 None = None /\
  gen_agent_trend Z tr_cost tr_evo MIN 0 (Some [3]) = None /\
  gen_best_agent_trend Z tr_cost tr_evo MAX None = Some [XFin 3; XFin 5; XFin 4] /\
  gen_agent_position Z tr_cost Z (fun z => (10 * z)%Z) tr_evo MIN 2 None = Some [30; 50; 40]%Z /\
  tr_evo <> [] /\ costs_ok Z tr_cost (last tr_evo []) /\
  In 4%Z (last tr_evo []) /\ (forall o, In o (last tr_evo []) -> better tr_cost MAX o 4%Z = false).
Proof.
  repeat split; try (vm_compute; reflexivity); try discriminate.
  - repeat constructor; discriminate.
  - cbn; tauto.
  - intros o Ho. cbn in Ho. destruct Ho as [<- | [<- | [<- | []]]]; reflexivity.
Qed.
