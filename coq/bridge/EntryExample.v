(* EntryExample.v — non-vacuity of the C06 totality theorems: the mixed task, objective and out-of-range candidate of ProvExample meet EVERY hypothesis of
   C06_init_agent_total and the REGENERATED _init_agent evaluates to `Some` on them; with two weights for the scalar objective (count mismatch) it evaluates to `None`
   (the rejection theorem's premise); the valid-call theorem shares the hypotheses witnessed in C04Example. *)
From Coq Require Import List ZArith Bool Arith.
From PV Require Import Xnum Select PyLib Argsort Vars Vars_proofs Task_proofs Init Init_proofs.
From PVGen Require Import GenInit.
From PVBridge Require Import InitBridge ProvExample.
Import ListNotations.

Definition en_raw : option (list coord) := Some [CNum XPInf; CNum (mk 3 (-1))].
Definition is_some {X} (o : option X) : bool := match o with Some _ => true | None => false end.

Example entry_hypotheses_satisfiable :
  valid_task ex_task /\ valid_flat ex_task /\ shape_ok_all ex_task (candidate en_raw []) /\
  (forall x, n_weights unit None = objv_count (ex_obj x)) /\
  (forall x, @None (list unit) = None -> exists c, ex_obj x = OScalar c) /\
  is_some (gen_init_agent unit ex_dot unit ex_fit ex_obj ex_task MAX None en_raw []) = true /\
  (forall x, n_weights unit (Some [tt; tt]) <> objv_count (ex_obj x)) /\
  is_some (gen_init_agent unit ex_dot unit ex_fit ex_obj ex_task MAX (Some [tt; tt]) en_raw []) = false.
Proof.
  assert (Hobj : forall x, exists c, ex_obj x = OScalar c).
  { intros x. unfold ex_obj. destruct x as [|[v|v] r]; eexists; reflexivity. }
  split; [repeat constructor|]. split; [repeat constructor; unfold xint; cbn; discriminate|].
  split; [split; [reflexivity|repeat constructor; unfold mk; discriminate]|].
  split; [intros x; destruct (Hobj x) as [c ->]; reflexivity|].
  split; [intros x _; apply Hobj|].
  split; [vm_compute; reflexivity|].
  split; [intros x; destruct (Hobj x) as [c ->]; cbn; discriminate|].
  vm_compute; reflexivity.
Qed.
