(* LifeExample.v — non-vacuity and non-triviality of the non-interference theorems over the call structure (C07, C08, C09, C18): for a skeleton taken from the
   REGENERATED `all_skeletons`, two stores that agree on the inputs but differ in the instance state, in numpy's stream and in the other entropy meet the hypotheses of
   [result_depends_on_inputs_only]; with an oracle that adds up everything it reads the two results are equal (as the theorem says) while a store that differs on the
   INPUT gives another result - the conclusion is not true merely because the model ignores its stores. *)
From Coq Require Import String List Bool Arith.
From PV Require Import Skeleton Lifecycle Lifecycle_proofs.
From PVGen Require Import Algos Expected.
From PVBridge Require Import AlgoBridge LifeMain.
Import ListNotations.

Definition lf_sum (vs : list nat) (_ : loc) : nat := list_sum vs.
Definition lf_s1 : store loc nat := fun l => match l with LIn => 1 | LG => 3 | LE => 9 | LState => 7 | LResult => 5 end.
Definition lf_s2 : store loc nat := fun l => match l with LIn => 1 | _ => 0 end.
Definition lf_s3 : store loc nat := fun l => match l with LIn => 2 | _ => 0 end.
Definition lf_run (sk : skeleton) (s : store loc nat) : nat := run_call nat lf_sum lf_sum lf_sum lf_sum sk 2 s LResult.

(* the witness is the first skeleton with no stale read, no extra entropy and no write to the caller's objects - robust to known findings in other optimizers *)
Definition lf_pick (sk : skeleton) : bool := is_nil (sk_stale sk) && is_nil (sk_entropy sk) && is_nil (sk_config_writes sk) && is_nil (sk_task_writes sk).

Example life_hypotheses_satisfiable :
  exists sk, In sk all_skeletons /\ ~ In (sk_name sk) known_stale /\ ~ In (sk_name sk) known_entropy /\ ~ In (sk_name sk) known_config_writes /\
    lf_s1 LIn = lf_s2 LIn /\ lf_s1 LState <> lf_s2 LState /\ lf_s1 LG <> lf_s2 LG /\ lf_s1 LE <> lf_s2 LE /\
    lf_run sk lf_s1 = lf_run sk lf_s2 /\ lf_run sk lf_s3 <> lf_run sk lf_s2 /\
    run_call nat lf_sum lf_sum lf_sum lf_sum sk 2 lf_s1 LIn = lf_s1 LIn.
Proof.
  destruct (find lf_pick all_skeletons) as [sk|] eqn:E; [|vm_compute in E; discriminate].
  destruct (find_some _ _ E) as [Hin _]. exists sk. split; [exact Hin|]. clear Hin.
  vm_compute in E. injection E as <-.
  split; [vm_compute; tauto|]. split; [vm_compute; tauto|]. split; [vm_compute; tauto|].
  vm_compute. repeat split; try reflexivity; discriminate.
Qed.
