(* ElitProgBridge.v — T-algo's judgement "this map-style population write keeps every slot at least as good as it was" is RE-DERIVED inside Coq: the element
   function of every such write of every optimizer, extracted as a program of ElitLang.v (gen/ElitProgs.v, regenerated on every run), is put through the analysis
   whose soundness is proved (ElitLang.agood_sound); every write T-algo flags as keeping is accepted by it, and the writes listed are exactly the WMap writes of the
   regenerated skeletons, in order. *)
From Coq Require Import String List ZArith Bool Arith.
From PV Require Import Skeleton ElitLang.
From PVGen Require Import Algos ElitProgs.
Import ListNotations.

Definition FUEL : nat := 3000.
Definition judge (p : bool * option exp) : bool := match snd p with Some e => agood FUEL [0%nat] e | None => false end.

(* (1) the flags T-algo computed are the ones the proved-sound analysis computes *)
Lemma talgo_wmap_flags_rederived :
  forallb (fun row => forallb (fun p => implb (fst p) (judge p)) (snd row)) elit_programs = true.
Proof. vm_compute. reflexivity. Qed.

(* (2) the programs are those of the skeletons' WMap writes, one per write and in order *)
Fixpoint wmap_flags (ws : list popwrite) : list bool :=
  match ws with [] => [] | WMap b :: t => b :: wmap_flags t | _ :: t => wmap_flags t end.
Fixpoint bl_eqb (a b : list bool) : bool :=
  match a, b with [], [] => true | x :: t, y :: u => Bool.eqb x y && bl_eqb t u | _, _ => false end.
Fixpoint lookup (n : string) (l : list (string * list (bool * option exp))) : list (bool * option exp) :=
  match l with [] => [] | (m, ps) :: t => if String.eqb n m then ps else lookup n t end.
Lemma programs_cover_the_skeletons :
  forallb (fun sk => bl_eqb (wmap_flags (sk_step sk)) (map fst (lookup (sk_name sk) elit_programs))) all_skeletons = true.
Proof. vm_compute. reflexivity. Qed.

(* hence: whatever the numeric kernel does, the element function of a write flagged `WMap true` returns an agent whose internal cost is <= the incumbent's *)
Definition judge_with (f : nat) (p : bool * option exp) : bool := match snd p with Some e => agood f [0%nat] e | None => false end.
Lemma flags_give_acceptance (f : nat) (L : list (string * list (bool * option exp))) :
  forallb (fun row => forallb (fun p => implb (fst p) (judge_with f p)) (snd row)) L = true ->
  forall name progs e, In (name, progs) L -> In (true, Some e) progs -> agood f [0%nat] e = true.
Proof.
  intros H name progs e Hrow Hp. rewrite forallb_forall in H. specialize (H (name, progs) Hrow). cbn [snd] in H.
  rewrite forallb_forall in H. specialize (H (true, Some e) Hp). unfold judge_with in H. cbn [fst snd] in H.
  destruct (agood f [0%nat] e); [reflexivity|discriminate].
Qed.
Theorem flagged_wmap_keeps_slot : forall name progs e, In (name, progs) elit_programs -> In (true, Some e) progs ->
  forall (c0 : Z) (r : env) (v : Z), (r 0%nat <= c0)%Z -> eval r e v -> (v <= c0)%Z.
Proof.
  intros name progs e Hrow Hp c0 r v Hs Hev.
  exact (accepted_program_keeps c0 FUEL e r v (flags_give_acceptance FUEL elit_programs talgo_wmap_flags_rederived name progs e Hrow Hp) Hs Hev).
Qed.
