(* DualExample.v — non-vacuity and non-triviality of C12_duality: the pinned set of fitness- and direction-blind optimizers is inhabited; for its first member, two
   stores that agree on the inputs (seed, configuration, INTERNAL objective) and differ in the direction and in the fitness fields hold the same positions and internal
   costs after 2 cycles under an oracle that adds up everything it reads, while a store that differs on the input does not. *)
From Coq Require Import String List Bool Arith.
From PV Require Import Skeleton Lifecycle Lifecycle_proofs.
From PVGen Require Import Algos Expected.
From PVBridge Require Import AlgoBridge LifeMain.
Import ListNotations.

Definition du_sum (vs : list nat) (_ : dloc) : nat := list_sum vs.
Definition du_s1 : store dloc nat := fun l => match l with DIn => 1 | DDir => 4 | DFit => 6 | _ => 0 end.
Definition du_s2 : store dloc nat := fun l => match l with DIn => 1 | _ => 0 end.
Definition du_s3 : store dloc nat := fun l => match l with DIn => 2 | _ => 0 end.
Definition du_run (sk : skeleton) (s : store dloc nat) : nat := Lifecycle.exec dloc dloc_eqb nat (dual_call nat du_sum du_sum du_sum du_sum sk 2) s DPC.
Definition du_pick (sk : skeleton) : bool := existsb (String.eqb (sk_name sk)) pinned_fitness_blind.

Example dual_hypotheses_satisfiable :
  exists sk, In sk all_skeletons /\ In (sk_name sk) pinned_fitness_blind /\
    du_s1 DIn = du_s2 DIn /\ du_s1 DDir <> du_s2 DDir /\ du_s1 DFit <> du_s2 DFit /\
    du_run sk du_s1 = du_run sk du_s2 /\ du_run sk du_s3 <> du_run sk du_s2.
Proof.
  destruct (find du_pick all_skeletons) as [sk|] eqn:E; [|vm_compute in E; discriminate].
  destruct (find_some _ _ E) as [Hin Hp]. exists sk. split; [exact Hin|]. split.
  - unfold du_pick in Hp. apply existsb_exists in Hp as (n & Hn & He). apply String.eqb_eq in He. rewrite He. exact Hn.
  - clear Hin Hp. vm_compute in E. injection E as <-. vm_compute. repeat split; try reflexivity; discriminate.
Qed.
