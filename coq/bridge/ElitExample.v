(* ElitExample.v — non-vacuity of the C17 / C10 trajectory theorems: a concrete agent type without NaN costs, a step that improves every slot
   (a `WMap true` write), and a skeleton PICKED FROM THE REGENERATED `all_skeletons` (elitist, size-known, with a `WMap true` write in its step) meet EVERY
   hypothesis of [elitist_best_ever] / [elitist_reported] / [regular_size]. *)
From Coq Require Import String List ZArith Bool Arith Lia.
From PV Require Import Xnum Select PyLib Select_proofs Loop Loop_proofs Skeleton Skeleton_proofs.
From PVGen Require Import Algos Expected.
From PVBridge Require Import AlgoBridge ElitMain.
Import ListNotations.
Open Scope list_scope.

Definition elA := Z.
Definition el_cost (a : elA) : xnum := XFin a.
Definition el_copy (a : elA) : elA := a.
Definition el_with_cost (a : elA) (x : xnum) : elA := match x with XFin z => z | _ => a end.
Definition el_step (h : unit) (_ : nat) (pop : list elA) : unit * list elA := (h, map (fun a => (a - 1)%Z) pop).
Definition is_wmap_true (w : popwrite) : bool := match w with WMap true => true | _ => false end.
Definition el_pick (sk : skeleton) : bool := elitist sk && forallb size_known (sk_step sk) && existsb is_wmap_true (sk_step sk).

Lemma el_costs_ok : forall l : list elA, costs_ok elA el_cost l.
Proof. intros l. unfold costs_ok. apply Forall_forall. intros a _. unfold el_cost. discriminate. Qed.

Lemma el_map_not_worse pop : Forall2 (not_worse elA el_cost) pop (map (fun a => (a - 1)%Z) pop).
Proof.
  induction pop as [|a pop IH]; cbn [map]; constructor; [|exact IH].
  unfold not_worse, el_cost. cbn. apply Z.ltb_ge. lia.
Qed.

Example elit_hypotheses_satisfiable :
  (forall a, el_cost (el_copy a) = el_cost a) /\ (forall l : list elA, costs_ok elA el_cost l) /\ 1 <= 3 /\
  exists sk, In sk all_skeletons /\ elitist sk = true /\ forallb size_known (sk_step sk) = true /\
             step_conforms elA el_cost el_copy 3 unit el_step sk /\
             pop_at elA unit el_step tt [5; 2; 2]%Z 2 = [3; 0; 0]%Z.
Proof.
  split; [reflexivity|]. split; [exact el_costs_ok|]. split; [lia|].
  destruct (find el_pick all_skeletons) as [sk|] eqn:E; [|vm_compute in E; discriminate].
  apply find_some in E as [Hin Hp]. unfold el_pick in Hp.
  apply andb_true_iff in Hp as [Hp Hw]. apply andb_true_iff in Hp as [He Hs].
  exists sk. split; [exact Hin|]. split; [exact He|]. split; [exact Hs|]. split; [|reflexivity].
  intros h k pop. cbn [el_step snd].
  apply existsb_exists in Hw as (wr & Hwin & Hwt).
  assert (wr = WMap true) as -> by (destruct wr as [[|]| | | | | | |]; cbn in Hwt; try discriminate; reflexivity).
  eapply steps_cons; [exact Hwin | exact (el_map_not_worse pop) | apply steps_nil].
Qed.
