(* AlgoBridge.v — the skeletons regenerated from the optimizers' source (gen/Algos.v) against the
   pinned classification and the known non-conformances (gen/Expected.v).  All by computation. *)
From Coq Require Import String List Bool.
From PV Require Import Skeleton.
From PVGen Require Import Algos Expected.
Import ListNotations.
Open Scope string_scope.

Definition mem (s : string) (l : list string) : bool := existsb (String.eqb s) l.
Definition named (n : string) (p : skeleton -> bool) : bool :=
  existsb (fun sk => String.eqb (sk_name sk) n && p sk) all_skeletons.

(* every exported optimizer has a skeleton, and the pinned list of exported optimizers is still exported *)
Lemma no_missing_skeleton : missing_skeletons = [].
Proof. reflexivity. Qed.
Lemma exported_pinned : forallb (fun n => named n (fun _ => true)) pinned_exported = true.
Proof. vm_compute. reflexivity. Qed.

(* provenance: every optimizer conforms, except the ones listed as known findings *)
Lemma prov_all : forallb (fun sk => conforms_prov sk || mem (sk_name sk) known_prov) all_skeletons = true.
Proof. vm_compute. reflexivity. Qed.

(* the objective is reached only through _init_agent: every optimizer, no exception *)
Lemma calls_all : forallb conforms_calls all_skeletons = true.
Proof. vm_compute. reflexivity. Qed.

(* the sets computed from the current source contain the pinned ones *)
Lemma elitist_pinned : forallb (fun n => named n elitist) pinned_elitist = true.
Proof. vm_compute. reflexivity. Qed.
Lemma size_regular_pinned : forallb (fun n => named n size_regular) pinned_size_regular = true.
Proof. vm_compute. reflexivity. Qed.
(* every optimizer is size-regular, variable by design, or carries a hand size model (SizeModels) *)
Definition blind (sk : skeleton) : bool := negb (sk_reads_fitness sk) && negb (sk_reads_direction sk).
Lemma fitness_blind_pinned : forallb (fun n => named n blind) pinned_fitness_blind = true.
Proof. vm_compute. reflexivity. Qed.

Definition is_nil {X} (l : list X) : bool := match l with [] => true | _ => false end.
Lemma no_config_task_writes :
  forallb (fun sk => (is_nil (sk_config_writes sk) && is_nil (sk_task_writes sk)) || mem (sk_name sk) known_config_writes) all_skeletons = true.
Proof. vm_compute. reflexivity. Qed.
Lemma no_stale_reads : forallb (fun sk => is_nil (sk_stale sk) || mem (sk_name sk) known_stale) all_skeletons = true.
Proof. vm_compute. reflexivity. Qed.
Lemma no_entropy : forallb (fun sk => is_nil (sk_entropy sk) || mem (sk_name sk) known_entropy) all_skeletons = true.
Proof. vm_compute. reflexivity. Qed.
Lemma ctor_and_set_config :
  forallb (fun sk => (is_nil (sk_ctor_deref sk) && sk_set_config_canonical sk) || mem (sk_name sk) known_ctor_deref) all_skeletons = true.
Proof. vm_compute. reflexivity. Qed.

(* lifting the boolean sweeps to statements about members of the list *)
Lemma mem_spec s l : mem s l = true <-> In s l.
Proof.
  unfold mem. rewrite existsb_exists. split.
  - intros (x & Hx & E). apply String.eqb_eq in E. subst; auto.
  - intros H. exists s. split; auto. apply String.eqb_refl.
Qed.
Lemma prov_member sk : In sk all_skeletons -> ~ In (sk_name sk) known_prov -> conforms_prov sk = true.
Proof.
  intros Hin Hk. pose proof prov_all as H. rewrite forallb_forall in H. specialize (H sk Hin).
  apply orb_true_iff in H as [H|H]; auto. apply mem_spec in H. contradiction.
Qed.
Lemma named_spec n p : named n p = true -> exists sk, In sk all_skeletons /\ sk_name sk = n /\ p sk = true.
Proof.
  unfold named. rewrite existsb_exists. intros (sk & Hin & H). apply andb_true_iff in H as [E Hp].
  apply String.eqb_eq in E. eauto.
Qed.
Lemma elitist_member n : In n pinned_elitist -> exists sk, In sk all_skeletons /\ sk_name sk = n /\ elitist sk = true.
Proof. intros H. apply named_spec. pose proof elitist_pinned as E. rewrite forallb_forall in E. auto. Qed.
Lemma size_regular_member n : In n pinned_size_regular -> exists sk, In sk all_skeletons /\ sk_name sk = n /\ size_regular sk = true.
Proof. intros H. apply named_spec. pose proof size_regular_pinned as E. rewrite forallb_forall in E. auto. Qed.
