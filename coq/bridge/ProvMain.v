(* ProvMain.v — C01 / C02 / C05 (and the history part of C15) for every exported optimizer whose
   regenerated skeleton conforms, i.e. for all of gen/Algos.v except the named known findings. *)
From Coq Require Import String List ZArith Bool Arith.
From PV Require Import Xnum Select PyLib Argsort Vars Vars_proofs Task_proofs Init Init_proofs Skeleton Skeleton_proofs.
From PVGen Require Import GenInit Algos Expected.
From PVBridge Require Import InitBridge AlgoBridge.
Import ListNotations.
Open Scope list_scope.

Section Main.
Variable W : Type.
Variable dot : list xnum -> list W -> xnum.
Hypothesis dot_neg : forall l w, dot (map xneg l) w = xneg (dot l w).
Variable FT : Type.
Variable fitness_of : xnum -> dir -> FT.
Variable obj : list coord -> objv.
Variables (t : task) (d : dir) (w : option (list W)).
Hypothesis Hvt : valid_task t.
Hypothesis Hvf : valid_flat t.

Definition run_ok (sk : skeleton) (ops : list (op FT)) : Prop :=
  Forall (fun o => licensed FT sk o = true) ops /\ Forall (raw_ok FT t) ops.

Theorem every_agent_well_formed sk ops : In sk all_skeletons -> ~ In (sk_name sk) known_prov -> run_ok sk ops ->
  let s := exec_ops W dot FT fitness_of obj t d w ops in
  Forall (fun a => in_spaceb t (a_pos a) = true) (heap FT s) /\                                      (* C01 *)
  Forall (fun a => Some (reported_cost FT d a) = user_cost W dot obj w (a_pos a)
                   /\ a_fit a = fitness_of (a_cost a) d) (heap FT s) /\                              (* C02 *)
  Forall (fun x => in_spaceb t x = true) (calls FT s).                                              (* C05 *)
Proof.
  intros Hin Hk [Hl Hr]. cbn zeta.
  pose proof (provenance_invariant W dot dot_neg FT fitness_of obj t d w Hvt Hvf sk ops (prov_member sk Hin Hk) Hl Hr) as [Hh Hc].
  repeat split; auto; eapply Forall_impl; try exact Hh; intros a (H1 & H2 & H3); auto.
Qed.

Theorem objective_only_inside_space sk ops : In sk all_skeletons -> run_ok sk ops ->
  Forall (fun x => in_spaceb t x = true) (calls FT (exec_ops W dot FT fitness_of obj t d w ops)).
Proof.
  intros Hin [Hl Hr]. apply (calls_invariant W dot dot_neg FT fitness_of obj t d w Hvt Hvf sk); auto.
  pose proof calls_all as H. rewrite forallb_forall in H. auto.
Qed.

Theorem recorded_agents_immutable sk ops1 ops2 i a : In sk all_skeletons -> ~ In (sk_name sk) known_prov ->
  Forall (fun o => licensed FT sk o = true) ops2 ->
  nth_error (heap FT (exec_ops W dot FT fitness_of obj t d w ops1)) i = Some a ->
  nth_error (heap FT (exec_ops W dot FT fitness_of obj t d w (ops1 ++ ops2))) i = Some a.
Proof. intros Hin Hk. apply recorded_agent_never_changes. apply prov_member; auto. Qed.
End Main.
