(* MultiBridge.v — Multitask.__check_input__ / __check_modes__ / __get_mode__ as REGENERATED from multitask.py (T-core)
   coincide with the hand model of Multi.v (C20). *)
From Coq Require Import List Arith Bool Lia.
From PV Require Import PyLib Multi.
From PVGen Require Import GenMulti.
Import ListNotations.

Section Bridge.
Variable V : Type.
Variable valid : V -> bool.
Variable serial : V.

(* how the Python argument (`values`, and whether it is a tuple) maps to the model's argument *)
Definition arg_of (values : option (list V)) (is_tuple : bool) : modes_arg V :=
  match values with None => MNone V | Some vs => if is_tuple then MTuple V vs else MNotTuple V end.

Lemma map_const_repeat {X} (x : X) k s : map (fun _ : nat => x) (seq s k) = repeat x k.
Proof. revert s. induction k as [|k IH]; intros s; cbn; auto. f_equal. apply IH. Qed.

Lemma map_nth_seq (f : V -> list V) vs : map (fun idx => f (nth idx vs serial)) (seq 0 (length vs)) = map f vs.
Proof.
  induction vs as [|x t IH] using rev_ind; auto.
  rewrite app_length. cbn [length]. rewrite Nat.add_1_r, seq_S, !map_app. cbn [map Nat.add]. f_equal.
  - rewrite <- IH. apply map_ext_in. intros i Hi. apply in_seq in Hi. rewrite app_nth1 by lia. reflexivity.
  - rewrite app_nth2 by lia. rewrite Nat.sub_diag. reflexivity.
Qed.

Lemma check_input_bridge values is_tuple n m :
  gen_multi_check_input V serial values is_tuple n m = check_input V serial n m (arg_of values is_tuple).
Proof.
  unfold gen_multi_check_input, check_input, arg_of. destruct values as [vs|]; auto. destruct is_tuple; cbn [negb]; auto.
  destruct (length vs =? 1) eqn:E1.
  { rewrite !map_const_repeat. reflexivity. }
  destruct (length vs =? n) eqn:En.
  { apply Nat.eqb_eq in En. subst n. f_equal. f_equal.
    rewrite <- (map_nth_seq (fun v => repeat v m)). apply map_ext. intros i. apply map_const_repeat. }
  destruct (length vs =? m) eqn:Em.
  { rewrite map_const_repeat. reflexivity. }
  destruct (length vs =? n * m) eqn:Enm; auto.
  f_equal. f_equal. apply map_ext. intros i. replace ((i + 1) * m - i * m) with m by lia. reflexivity.
Qed.

Lemma check_modes_bridge t : gen_multi_check_modes V valid t = if check_modes V valid t then Some tt else None.
Proof. unfold gen_multi_check_modes, check_modes. destruct t as [rows|]; auto. destruct (forallb valid (concat rows)); reflexivity. Qed.

(* in range, __get_mode__ yields the table entry when it is a valid mode (and raises ValueError otherwise) *)
Lemma get_mode_bridge t i j :
  (forall rows, t = Some rows -> i < length rows /\ j < length (nth i rows [])) ->
  gen_multi_get_mode V valid serial t i j =
  (if valid (get_mode V serial t i j) then Some (get_mode V serial t i j) else None).
Proof.
  intros Hr. unfold gen_multi_get_mode, get_mode. destruct t as [rows|].
  - destruct (Hr rows eq_refl) as [Hi Hj].
    rewrite (nth_error_nth' rows [] Hi). cbn [obind]. rewrite (nth_error_nth' _ serial Hj).
    destruct (valid (nth j (nth i rows []) serial)); reflexivity.
  - destruct (valid serial); reflexivity.
Qed.

(* the table built by __check_input__ has n rows of m entries *)
Lemma check_input_shape n m a rows : check_input V serial n m a = Some (Some rows) ->
  length rows = n /\ forall i, i < n -> length (nth i rows []) = m.
Proof.
  unfold check_input. destruct a as [| |vs]; try discriminate.
  destruct (length vs =? 1) eqn:E1; [intros H; inversion H; subst; clear H|].
  { rewrite repeat_length. split; auto. intros i Hi. rewrite (nth_repeat _ _ n i Hi). apply repeat_length. }
  destruct (length vs =? n) eqn:En; [intros H; inversion H; subst; clear H|].
  { apply Nat.eqb_eq in En. rewrite map_length. split; auto. intros i Hi.
    rewrite (nth_indep _ [] (repeat serial m)) by (rewrite map_length; lia).
    rewrite (map_nth (fun v => repeat v m)). apply repeat_length. }
  destruct (length vs =? m) eqn:Em; [intros H; inversion H; subst; clear H|].
  { apply Nat.eqb_eq in Em. rewrite repeat_length. split; auto. intros i Hi. rewrite (nth_repeat _ _ n i Hi). exact Em. }
  destruct (length vs =? n * m) eqn:Enm; [intros H; inversion H; subst; clear H|discriminate].
  apply Nat.eqb_eq in Enm. rewrite map_length, seq_length. split; auto. intros i Hi.
  rewrite (nth_indep _ [] ((fun i => firstn m (skipn (i * m) vs)) 0)) by (rewrite map_length, seq_length; lia).
  rewrite (map_nth (fun i => firstn m (skipn (i * m) vs))). rewrite seq_nth by lia. cbn [Nat.add].
  rewrite firstn_length, skipn_length. nia.
Qed.

(* END TO END on the regenerated methods: a constructed Multitask (check_input and check_modes passed) designates for every
   pair in range exactly the entry of the model's table, and never raises there *)
Theorem regenerated_get_mode values is_tuple n m t i j : valid serial = true -> i < n -> j < m ->
  gen_multi_check_input V serial values is_tuple n m = Some t -> gen_multi_check_modes V valid t = Some tt ->
  check_input V serial n m (arg_of values is_tuple) = Some t /\
  gen_multi_get_mode V valid serial t i j = Some (get_mode V serial t i j).
Proof.
  intros Hs Hi Hj Hc Hm. rewrite check_input_bridge in Hc. split; auto.
  rewrite check_modes_bridge in Hm.
  assert (Hr : forall rows, t = Some rows -> i < length rows /\ j < length (nth i rows [])).
  { intros rows ->. destruct (check_input_shape _ _ _ _ Hc) as [Hl Hrow]. rewrite Hl, (Hrow i Hi). auto. }
  rewrite (get_mode_bridge t i j Hr).
  destruct (check_modes V valid t) eqn:Ecm; [|discriminate].
  assert (Hv : valid (get_mode V serial t i j) = true).
  { unfold get_mode, check_modes in *. destruct t as [rows|].
    - destruct (Hr rows eq_refl) as [Hi' Hj']. rewrite forallb_forall in Ecm. apply Ecm.
      apply in_concat. exists (nth i rows []). split; apply nth_In; auto.
    - exact Hs.      (* modes=None: ModeSolver('serial') must itself be a member of the enum *) }
  rewrite Hv. reflexivity.
Qed.
End Bridge.
