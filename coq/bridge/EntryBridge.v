(* EntryBridge.v — the regenerated Task.validate_objective_weights is the hand model of Entry.v; the statements of the
   regenerated optimize() schema that precede the loop contain no optimization step. *)
From Coq Require Import List ZArith Bool Arith.
From PV Require Import Xnum Select PyLib Argsort Vars Init Loop Loop_proofs Entry.
From PVGen Require Import GenInit GenSchema.
From PVBridge Require Import LoopBridge InitBridge.
Import ListNotations.

Lemma validate_weights_bridge w : gen_task_validate_weights w = validate_weights w.
Proof.
  unfold gen_task_validate_weights, validate_weights, weights_ok. destruct w as [ws|]; cbn [is_some negb opt_list]; auto.
  destruct (forallb _ ws); reflexivity.
Qed.

Lemma gen_before_loop_no_step : forallb (fun s => negb (is_step s)) (before_loop gen_optimize_schema) = true.
Proof. rewrite schema_bridge. reflexivity. Qed.
Lemma gen_before_loop_builds_population : In SInitPop (before_loop gen_optimize_schema) /\ In SCheckConfig (before_loop gen_optimize_schema)
  /\ In SWorkers (before_loop gen_optimize_schema) /\ In SMode (before_loop gen_optimize_schema).
Proof. rewrite schema_bridge. cbn. intuition. Qed.
