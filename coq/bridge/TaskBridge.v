(* TaskBridge.v — the Task-level loops and comprehensions REGENERATED from models.py by T-core (space_dimension of __init__, get_variables, get_bounds,
   transform_solution) coincide with the hand model of Vars.v that the C14 theorems are about.  They are parametric in the per-variable methods
   (size, children, lowers / uppers, decode_var) of the hand model. *)
From Coq Require Import List ZArith Bool Arith Lia.
From PV Require Import Xnum Select PyLib Argsort Vars.
From PVGen Require Import GenTask.
Import ListNotations.

Lemma dimension_bridge t : gen_task_dimension t = dimension t.
Proof. reflexivity. Qed.

Lemma get_variables_bridge t : gen_task_get_variables t = flat_vars t.
Proof.
  unfold gen_task_get_variables, flat_vars. induction t as [|[n v] r IH]; cbn [flat_map]; auto.
  rewrite IH, map_id. reflexivity.
Qed.

Lemma fold_pair_app {X Y Z} (f : X -> list Y) (g : X -> list Z) l a b :
  fold_left (fun st v => let '(a1, b1) := st in let '(a2, b2) := (f v, g v) in (a1 ++ a2, b1 ++ b2)) l (a, b) = (a ++ flat_map f l, b ++ flat_map g l).
Proof.
  revert a b. induction l as [|v r IH]; intros a b; cbn [fold_left flat_map]; [rewrite !app_nil_r; reflexivity|].
  rewrite IH, !app_assoc. reflexivity.
Qed.

Lemma get_bounds_bridge t :
  gen_task_get_bounds t = (flat_map (fun nv => lowers (snd nv)) t, flat_map (fun nv => uppers (snd nv)) t).
Proof.
  unfold gen_task_get_bounds.
  rewrite (fold_pair_app (fun v : nat * var => lowers (snd v)) (fun v => uppers (snd v)) t [] []). reflexivity.
Qed.

(* the two sides are the sides of the model's bounds, entry by entry: one (lower, upper) pair per coordinate *)
Lemma sides_of_bounds t :
  fst (gen_task_get_bounds t) = map lower_of (bounds t) /\ snd (gen_task_get_bounds t) = map upper_of (bounds t).
Proof.
  rewrite get_bounds_bridge. cbn [fst snd]. unfold bounds, lowers, uppers.
  split; induction t as [|[n v] r IH]; cbn [flat_map]; auto; rewrite map_app, IH; reflexivity.
Qed.

(* transform_solution: the fold with a running counter and a dict is the model's recursive slicing *)
Definition tstep (x : list coord) (acc : option (list (nat * dval) * nat)) (v : nat * var) : option (list (nat * dval) * nat) :=
  match acc with
  | None => None
  | Some st_ => let '(d, c) := st_ in
      let temp := firstn ((c + size (snd v)) - c) (skipn c x) in
      match decode_var (snd v) temp with
      | None => None
      | Some item => Some (dict_set (fst v) item d, c + size (snd v))
      end
  end.

Lemma tstep_none x t : fold_left (tstep x) t None = None.
Proof. induction t; cbn; auto. Qed.

Lemma skipn_skipn {X} a b (l : list X) : skipn a (skipn b l) = skipn (b + a) l.
Proof. revert l. induction b as [|b IH]; intros l; cbn [skipn Nat.add]; auto. destruct l; [destruct a; reflexivity|]. apply IH. Qed.

Lemma dimension_cons n v r : dimension ((n, v) :: r) = size v + dimension r.
Proof. reflexivity. Qed.

Lemma tfold_spec x t : forall d c,
  fold_left (tstep x) t (Some (d, c)) =
  match transform_from t (skipn c x) with
  | Some r => Some (fold_left (fun d kv => dict_set (fst kv) (snd kv) d) r d, c + dimension t)
  | None => None
  end.
Proof.
  induction t as [|[n v] r IH]; intros d c.
  - cbn. rewrite Nat.add_0_r. reflexivity.
  - cbn [fold_left tstep fst snd transform_from]. replace (c + size v - c) with (size v) by lia.
    destruct (decode_var v (firstn (size v) (skipn c x))) as [item|].
    + rewrite IH, skipn_skipn. destruct (transform_from r (skipn (c + size v) x)) as [rr|]; auto.
      cbn [fold_left fst snd]. rewrite dimension_cons. f_equal. f_equal. lia.
    + rewrite tstep_none. destruct (transform_from r (skipn (size v) (skipn c x))); reflexivity.
Qed.

Lemma transform_solution_bridge t x : gen_task_transform_solution t x = transform_solution t x.
Proof.
  unfold gen_task_transform_solution, transform_solution.
  change (fold_left _ t (Some ([], 0))) with (fold_left (tstep x) t (Some ([], 0))).
  rewrite tfold_spec. cbn [skipn]. destruct (transform_from t x) as [r|]; reflexivity.
Qed.

(* ---- empty_solution (REGENERATED): the concatenation, in declaration order, of one sample per variable; when every variable's sample holds one member of the
   domain per child (what MultiVarBridge.multi_randomize_in_dom / child_randomize_in_dom prove of the regenerated randomize() under numpy's documented ranges),
   the random solution has one coordinate per dimension and lies in the search space *)
From PV Require Import Vars_proofs Task_proofs.
Lemma empty_solution_bridge rv t : gen_task_empty_solution rv t = flat_map (fun nv => rv (snd nv)) t.
Proof.
  unfold gen_task_empty_solution. induction t as [|[n v] r IH]; cbn [flat_map]; auto. rewrite IH, map_id. reflexivity.
Qed.
Lemma Forall2_app_ {X Y} (R : X -> Y -> Prop) a b c d : Forall2 R a c -> Forall2 R b d -> Forall2 R (a ++ b) (c ++ d).
Proof. induction 1; cbn; auto. Qed.
Lemma forall2_zip_forallb (vs : list svar) (x : list coord) :
  Forall2 (fun sv c => in_domb sv c = true) vs x -> forallb (fun p => in_domb (snd p) (fst p)) (zip x vs) = true.
Proof. induction 1 as [|sv c vs x H Hr IH]; cbn; auto. rewrite H, IH. reflexivity. Qed.
Theorem empty_solution_in_space rv t : valid_task t ->
  (forall nv, In nv t -> Forall2 (fun sv c => in_domb sv c = true) (children (snd nv)) (rv (snd nv))) ->
  length (gen_task_empty_solution rv t) = dimension t /\ in_spaceb t (gen_task_empty_solution rv t) = true.
Proof.
  intros Hv Hr. rewrite empty_solution_bridge.
  assert (F : Forall2 (fun sv c => in_domb sv c = true) (flat_vars t) (flat_map (fun nv => rv (snd nv)) t)).
  { unfold flat_vars. induction t as [|nv r IH]; cbn [flat_map]; [constructor|].
    apply Forall2_app_; [apply Hr; left; auto|]. apply IH; [inversion Hv; auto|intros; apply Hr; right; auto]. }
  assert (L : length (flat_map (fun nv => rv (snd nv)) t) = dimension t).
  { rewrite <- (Forall2_len _ _ _ F). apply flat_vars_length; auto. }
  split; auto. unfold in_spaceb. rewrite L, Nat.eqb_refl. cbn [andb]. apply forall2_zip_forallb; auto.
Qed.

(* the whole chain, regenerated end to end: Task.empty_solution over the regenerated randomize() of every variable class, under numpy's documented ranges *)
From PVGen Require Import GenMultiVar.
From PVBridge Require Import MultiVarBridge.
Theorem random_solution_in_space (du : xnum -> xnum -> xnum) (dc : nat -> nat) (dp : nat -> list nat) t :
  (forall lo hi, is_fin lo = true -> is_fin hi = true -> xltb lo hi = true -> is_fin (du lo hi) = true /\ xleb lo (du lo hi) = true /\ xleb (du lo hi) hi = true) ->
  (forall n, 1 <= n -> dc n < n) -> (forall n, is_permb n (dp n) = true) ->
  valid_task t -> valid_flat t ->
  let rv := fun v => gen_cmv_randomize (child_randomize du dc dp) (children v) in
  length (gen_task_empty_solution rv t) = dimension t /\ in_spaceb t (gen_task_empty_solution rv t) = true.
Proof.
  intros H1 H2 H3 Hv Hf rv. apply empty_solution_in_space; auto.
  intros nv Hin. apply (multi_randomize_in_dom du dc dp H1 H2 H3).
  unfold valid_flat, flat_vars in Hf. rewrite Forall_forall in *. intros sv Hsv. apply Hf. apply in_flat_map. exists nv. auto.
Qed.
