(* ElitMain.v — C17 (elitist optimizers never lose their best) and C10 (size conservation) for the
   skeletons regenerated from the source, over the trajectory of a run of the optimize() schema. *)
From Coq Require Import String List ZArith Bool Arith Lia Permutation.
From PV Require Import Xnum Select PyLib Select_proofs Loop Loop_proofs Skeleton Skeleton_proofs.
From PVGen Require Import Algos Expected.
From PVBridge Require Import AlgoBridge.
Import ListNotations.
Open Scope list_scope.

Section Main.
Variable A : Type.
Variable cost : A -> xnum.
Variable copy : A -> A.
Hypothesis copy_cost : forall a, cost (copy a) = cost a.
Variable with_cost : A -> xnum -> A.
Hypothesis with_cost_cost : forall a x, cost (with_cost a x) = x.
Variable P : nat.
Hypothesis HP : 1 <= P.
Variable H : Type.
Variable step : H -> nat -> list A -> H * list A.
Hypothesis all_costs_ok : forall l : list A, costs_ok A cost l.          (* no agent has a NaN cost *)

Notation pop_at := (pop_at A H step).
Notation report := (report A cost with_cost).

(* the optimizer's step only edits the population through the writes its skeleton lists *)
Definition step_conforms (sk : skeleton) : Prop :=
  forall h k pop, steps_rel A cost copy P (sk_step sk) pop (snd (step h k pop)).

Lemma pop_at_S h0 p0 k : pop_at h0 p0 (S k) = snd (step (fst (traj A H step h0 p0 k)) (S k) (pop_at h0 p0 k)).
Proof. unfold Loop_proofs.pop_at. cbn [traj]. destruct (traj A H step h0 p0 k) as [h p]. reflexivity. Qed.

Theorem elitist_monotone sk h0 p0 : elitist sk = true -> step_conforms sk ->
  forall k, keeps_best A cost (pop_at h0 p0 k) (pop_at h0 p0 (S k)).
Proof.
  intros He Hs k. rewrite pop_at_S. unfold elitist in He.
  apply andb_true_iff in He as [He _]. apply andb_true_iff in He as [_ He].
  apply (elitist_steps_keep_best A cost copy copy_cost P HP (sk_step sk)); auto; apply Hs.
Qed.

Theorem elitist_best_ever sk h0 p0 : elitist sk = true -> step_conforms sk ->
  forall j K, j <= K -> keeps_best A cost (pop_at h0 p0 j) (pop_at h0 p0 K).
Proof.
  intros He Hs j K Hj. induction Hj as [|K Hj IH]; [apply keeps_best_refl|].
  apply (keeps_best_trans A cost _ (pop_at h0 p0 K) _); auto. apply (elitist_monotone sk); auto.
Qed.

(* in the task's direction, on the reported (sign-restored) costs *)
Lemma not_worse_report d o n : not_worse A cost o n -> better cost d (report d o) (report d n) = false.
Proof. intros Hn. destruct d; cbn; auto. rewrite !with_cost_cost, xneg_ltb. exact Hn. Qed.

Theorem elitist_reported sk h0 p0 d : elitist sk = true -> step_conforms sk ->
  forall j K, j <= K -> forall o, In o (map (report d) (pop_at h0 p0 j)) ->
  exists n, In n (map (report d) (pop_at h0 p0 K)) /\ better cost d o n = false.
Proof.
  intros He Hs j K Hj o Ho. apply in_map_iff in Ho as (o' & <- & Ho').
  destruct (elitist_best_ever sk h0 p0 He Hs j K Hj o' Ho') as (n & Hn & Hc).
  exists (report d n). split; [apply in_map; auto|apply not_worse_report; auto].
Qed.

(* ---- size (C10): regular optimizers keep exactly P agents in every generation *)
Definition phases_conform (sk : skeleton) : Prop :=
  step_conforms sk.

Theorem regular_size sk h0 p0 : forallb size_known (sk_step sk) = true -> step_conforms sk ->
  length p0 = P -> forall k, length (pop_at h0 p0 k) = P.
Proof.
  intros Hk Hs H0 k. induction k as [|k IH]; [exact H0|].
  rewrite pop_at_S. apply (size_regular_steps A cost copy P HP (sk_step sk) (pop_at h0 p0 k)); auto; apply Hs.
Qed.
End Main.

(* every pinned elitist optimizer is elitist in the regenerated skeletons, every pinned regular one is size-regular *)
Theorem pinned_elitist_are_elitist n : In n pinned_elitist -> exists sk, In sk all_skeletons /\ sk_name sk = n /\ elitist sk = true.
Proof. exact (elitist_member n). Qed.
Theorem pinned_regular_are_regular n : In n pinned_size_regular -> exists sk, In sk all_skeletons /\ sk_name sk = n /\ size_regular sk = true.
Proof. exact (size_regular_member n). Qed.
