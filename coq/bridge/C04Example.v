(* C04Example.v — non-vacuity of the C03 / C04 main theorems: a concrete optimizer, instance, configuration and call meet
   EVERY hypothesis of [stop_rule] and [best_is_optimum] (so the implications are not empty), and the run of the REGENERATED
   schema on it computes (vm_compute) to the outcome the theorems describe: a maximisation with ties in the final generation
   whose order changes on every cycle. *)
From Coq Require Import List ZArith Bool Arith Lia.
From PV Require Import Xnum Select PyLib Select_proofs Loop Loop_proofs.
From PVGen Require Import GenStop GenSchema.
From PVBridge Require Import LoopBridge C04Main.
Import ListNotations.

(* an agent is its internal cost; rates are integers; the step reverses the population (order changes, ties stay) *)
Definition exA := xnum.
Definition ex_cost (a : exA) : xnum := a.
Definition ex_with_cost (_ : exA) (x : xnum) : exA := x.
Definition ex_avg (_ : list exA) : Z := 0%Z.
Definition ex_before (h : unit) : unit := h.
Definition ex_p0 : list exA := [XFin 3; XFin 1; XFin 1; XFin 2].
Definition ex_init (h : unit) : unit * list exA := (h, ex_p0).
Definition ex_after (h : unit) (p : list exA) : unit * list exA := (h, p).
Definition ex_step (h : unit) (_ : nat) (p : list exA) : unit * list exA := (h, rev p).
Definition ex_cfg : cfg Z := {| population_size := 4; max_cycles := 3; fitness_error := None; early := None |}.
Definition ex_inst : inst exA Z unit :=
  {| i_config := Some ex_cfg; i_cycle := 0; i_errors := []; i_diffs := []; i_pop := []; i_best := None; i_worst := None;
     i_mode := SERIAL; i_workers := 1; i_hidden := tt |}.
Definition ex_args : args := {| a_dir := MAX; a_mode := None; a_workers := None |}.

Lemma ex_with_cost_cost : forall a x, ex_cost (ex_with_cost a x) = x.
Proof. reflexivity. Qed.

Lemma ex_pop_at k : pop_at exA unit ex_step tt ex_p0 k = ex_p0 \/ pop_at exA unit ex_step tt ex_p0 k = rev ex_p0.
Proof.
  unfold pop_at. induction k as [|k IH]; [left; reflexivity|]. cbn [traj].
  destruct (traj exA unit ex_step tt ex_p0 k) as [h p]. cbn [snd] in *. unfold ex_step.
  destruct IH as [-> | ->]; [right; reflexivity | left; reflexivity].
Qed.

Example hypotheses_satisfiable :
  i_config _ _ _ ex_inst = Some ex_cfg /\ valid_args ex_args /\ 1 <= max_cycles ex_cfg /\
  entry_state exA Z unit ex_before ex_init ex_after ex_inst = (tt, ex_p0, ex_p0) /\
  populated exA Z Z.sub Z.abs Z.ltb Z.leb 0%Z 1%Z ex_avg unit ex_step ex_cfg tt ex_p0 ex_p0 /\
  (forall k, costs_ok exA ex_cost (pop_at exA unit ex_step tt ex_p0 k)).
Proof.
  split; [reflexivity|]. split; [split; discriminate|]. split; [cbn; lia|]. split; [reflexivity|]. split.
  - split; [discriminate|]. intros j _ _. destruct (ex_pop_at j) as [-> | ->]; discriminate.
  - intros k. unfold costs_ok. destruct (ex_pop_at k) as [-> | ->]; repeat constructor; discriminate.
Qed.

(* the run itself, evaluated: 3 steps, 4 recorded generations, best_solution = the highest user-side cost (-1) *)
Definition ex_run := run exA ex_cost ex_with_cost Z Z.sub Z.abs Z.ltb Z.leb 0%Z 1%Z ex_avg unit ex_before ex_init ex_after ex_step
                         (max_cycles ex_cfg) gen_optimize_schema ex_args ex_inst.
Example run_evaluates :
  match ex_run with
  | Done _ _ _ r _ K => K = 3 /\ r_best _ _ r = Some (XFin (-1)) /\ length (r_evolution _ _ r) = 4 /\
                        last (r_evolution _ _ r) [] = [XFin (-2); XFin (-1); XFin (-1); XFin (-3)]
  | _ => False
  end.
Proof. vm_compute. repeat split; reflexivity. Qed.
