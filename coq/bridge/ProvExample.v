(* ProvExample.v — non-vacuity of the C01 / C02 / C05 main theorem [every_agent_well_formed]: a concrete weight carrier, objective, mixed task,
   direction, conforming regenerated skeleton and operation sequence (a drawn initial solution that must be clipped, an out-of-range raw candidate with +inf,
   a copy) meet EVERY hypothesis, and the machine really builds three agents on it. *)
From Coq Require Import String List ZArith Bool Arith.
From PV Require Import Xnum Select PyLib Argsort Vars Vars_proofs Task_proofs Init Init_proofs Skeleton Skeleton_proofs.
From PVGen Require Import GenInit Algos Expected.
From PVBridge Require Import InitBridge AlgoBridge ProvMain.
Import ListNotations.
Open Scope list_scope.

Definition ex_dot (l : list xnum) (_ : list unit) : xnum := match l with [] => XFin 0 | x :: _ => x end.
Definition ex_fit (_ : xnum) (_ : dir) : unit := tt.
Definition ex_obj (x : list coord) : objv := match x with CNum v :: _ => OScalar v | _ => OScalar (xint 0) end.
Definition ex_task : task := [(0, VCont (xint (-5)) (xint 5)); (1, VDisc 3)]%nat.
Definition ex_ops : list (op unit) :=
  [OInit unit None [CNum (xint 7); CNum (xint 1)]; OInit unit (Some [CNum XPInf; CNum (mk 3 (-1))]) []; OCopy unit 0].
Definition ex_pick (sk : skeleton) : bool := conforms_prov sk && negb (existsb (String.eqb (sk_name sk)) known_prov).

Lemma ex_dot_neg : forall l w, ex_dot (map xneg l) w = xneg (ex_dot l w).
Proof. intros [|x l] w; reflexivity. Qed.

Lemma existsb_eqb_false n l : existsb (String.eqb n) l = false -> ~ In n l.
Proof.
  intros E Hin. assert (existsb (String.eqb n) l = true) as T by (apply existsb_exists; exists n; split; [exact Hin | apply String.eqb_refl]).
  rewrite T in E. discriminate.
Qed.

Example prov_hypotheses_satisfiable :
  (forall l w, ex_dot (map xneg l) w = xneg (ex_dot l w)) /\ valid_task ex_task /\ valid_flat ex_task /\
  exists sk, In sk all_skeletons /\ ~ In (sk_name sk) known_prov /\ run_ok unit ex_task sk ex_ops /\
             length (heap unit (exec_ops unit ex_dot unit ex_fit ex_obj ex_task MAX None ex_ops)) = 3.
Proof.
  split; [exact ex_dot_neg|]. split; [repeat constructor|]. split; [repeat constructor; unfold xint; cbn; discriminate|].
  destruct (find ex_pick all_skeletons) as [sk|] eqn:E; [|vm_compute in E; discriminate].
  apply find_some in E as [Hin Hp]. unfold ex_pick in Hp. apply andb_true_iff in Hp as [_ Hk]. apply negb_true_iff in Hk.
  exists sk. split; [exact Hin|]. split; [apply existsb_eqb_false; exact Hk|]. split.
  - split; [repeat constructor|]. repeat constructor; unfold xint, mk; discriminate.
  - vm_compute. reflexivity.
Qed.
