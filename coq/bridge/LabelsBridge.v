(* LabelsBridge.v — the LabelEncoder methods and PermutationVariable's label table / decode, REGENERATED from models.py, coincide with the hand model
   Labels.v; hence the decode half of C13 for permutations: for EVERY list of declared items (repeated ones included) the decoded value is a rearrangement
   of the declared items, entry j being the label of index correct(value)[j]. *)
From Coq Require Import List ZArith Bool Arith Lia Permutation.
From PV Require Import Xnum Select PyLib Argsort Labels Vars Vars_proofs.
From PVGen Require Import GenVars GenLabels.
From PVBridge Require Import VarsBridge C13Main.
Import ListNotations.

Section Bridge.
Variable L : Type.
Variable eqb : L -> L -> bool.
Variable leb : L -> L -> bool.
Variable unknown : L.

Lemma le_fit_labels_bridge y : gen_le_fit_labels L eqb leb y = fit_labels L eqb leb y.
Proof. reflexivity. Qed.
Lemma le_fit_index_bridge y labels : gen_le_fit_index L eqb y labels = fit_index L eqb labels.
Proof. reflexivity. Qed.
Lemma le_transform_bridge labels index y : gen_le_transform L eqb (Some labels) index y = transform L eqb index y.
Proof. reflexivity. Qed.
Lemma le_transform_unfitted index y : gen_le_transform L eqb None index y = None.
Proof. reflexivity. Qed.
Lemma le_inverse_transform_bridge labels index y : gen_le_inverse_transform L unknown (Some labels) index y = inverse_transform L unknown labels index y.
Proof. reflexivity. Qed.
Lemma le_inverse_transform_unfitted index y : gen_le_inverse_transform L unknown None index y = None.
Proof. reflexivity. Qed.

(* the encoder as PermutationVariable.__init__ leaves it: LabelEncoder() then fit(items) *)
Definition fitted_transform (items : list L) : list L -> option (list nat) :=
  gen_le_transform L eqb (Some (gen_le_fit_labels L eqb leb items)) (gen_le_fit_index L eqb items (gen_le_fit_labels L eqb leb items)).

Lemma perm_labels_bridge items : gen_perm_labels L (fitted_transform items) items = perm_labels L eqb leb items.
Proof. reflexivity. Qed.

Hypothesis eqb_spec : forall x y, eqb x y = true <-> x = y.

Theorem perm_decode_rearranges_gen (items : list L) v pi : length v = length items -> valid_argsort xltb XNaN v pi ->
  exists labels out, gen_perm_labels L (fitted_transform items) items = Some labels /\ Permutation labels items /\
    gen_perm_decode L labels v pi = Some out /\ Permutation out items /\ length out = length v /\
    (forall j, j < length v -> nth j out unknown = nth (nth j (gen_perm_correct v pi) 0) labels unknown).
Proof.
  intros Hlen Hv. destruct (perm_laws v pi Hv) as (Hr & _).
  assert (Hr' : Permutation (gen_perm_correct v pi) (seq 0 (length items))) by (rewrite <- Hlen; exact Hr).
  destruct (perm_decode_items_rearranges L eqb leb unknown eqb_spec items (gen_perm_correct v pi) Hr')
    as (labels & out & Hl & Hp & Hd & Ho & Hlo & Hn).
  exists labels, out. rewrite perm_labels_bridge. split; auto. split; auto.
  unfold perm_decode_items in Hd. rewrite Hl in Hd. cbn [obind] in Hd.
  rewrite perm_decode_law. split; auto. split; auto.
  assert (Hlr : length (gen_perm_correct v pi) = length v) by (rewrite (Permutation_length Hr), seq_length; reflexivity).
  split; [congruence|]. intros j Hj. apply Hn. lia.
Qed.

(* distinct items: the label table is the encoder's own label list - what decode returned before the repair (inverse_transform of the corrected value) *)
Theorem perm_labels_distinct_gen (items : list L) :
  (forall a b, leb a b = true \/ leb b a = true) -> NoDup items ->
  gen_perm_labels L (fitted_transform items) items = Some (gen_le_fit_labels L eqb leb items).
Proof. intros _ Hnd. rewrite perm_labels_bridge, le_fit_labels_bridge. apply perm_labels_distinct; auto. Qed.
End Bridge.
