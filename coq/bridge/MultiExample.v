(* MultiExample.v — non-vacuity of the C20 theorems: for n = 2 algorithms and m = 3 tasks every documented shape of `modes` (one value, per algorithm, per task,
   per pair, None) passes the REGENERATED __check_input__ / __check_modes__ (the premises `= Some t`, `= Some tt` of the theorems), the REGENERATED __get_mode__ designates
   the table entry the theorems name, the undocumented shapes and unknown modes are rejected, and the plan has n*m*k entries. *)
From Coq Require Import List ZArith Bool Arith.
From PV Require Import Multi.
From PVGen Require Import GenMulti.
From PVBridge Require Import MultiBridge.
Import ListNotations.

Definition mu_valid (v : nat) : bool := v <? 3.                  (* modes 0 (serial), 1, 2 *)
Definition mu_table (values : option (list nat)) (is_tuple : bool) : option (list (list (option nat))) :=
  match gen_multi_check_input nat 0 values is_tuple 2 3 with
  | Some t => match gen_multi_check_modes nat mu_valid t with
              | Some tt => Some (map (fun i => map (fun j => gen_multi_get_mode nat mu_valid 0 t i j) (seq 0 3)) (seq 0 2))
              | None => None end
  | None => None end.

Example multi_hypotheses_satisfiable :
  mu_table (Some [2]) true = Some [[Some 2; Some 2; Some 2]; [Some 2; Some 2; Some 2]] /\
  mu_table (Some [1; 2]) true = Some [[Some 1; Some 1; Some 1]; [Some 2; Some 2; Some 2]] /\
  mu_table (Some [1; 2; 0]) true = Some [[Some 1; Some 2; Some 0]; [Some 1; Some 2; Some 0]] /\
  mu_table (Some [1; 2; 0; 0; 2; 1]) true = Some [[Some 1; Some 2; Some 0]; [Some 0; Some 2; Some 1]] /\
  mu_table None false = Some [[Some 0; Some 0; Some 0]; [Some 0; Some 0; Some 0]] /\
  mu_table (Some [1; 2; 0; 0]) true = None /\ mu_table (Some [1; 2]) false = None /\ mu_table (Some [1; 7]) true = None /\
  (2 <> 1 /\ 3 <> 1 /\ 3 <> 2 /\ 2 * 3 <> 1 /\ 2 * 3 <> 2 /\ 2 * 3 <> 3) /\
  length (plan nat 0 (Some [[1; 1; 1]; [2; 2; 2]]) 2 3 4) = 2 * 3 * 4.
Proof. vm_compute. repeat split; try reflexivity; discriminate. Qed.
