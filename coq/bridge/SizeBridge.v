(* SizeBridge.v — the grouping helper _generate_group_population as REGENERATED from abstract.py (T-core: a for loop over range, slices, append, the residual
   rule) produces groups whose sizes are exactly SizeModels.groups_sizes - the function the hand size models of the group-based optimizers are built on (C10). *)
From Coq Require Import List Arith Bool Lia.
From PV Require Import Xnum Select PyLib SizeModels.
From PVGen Require Import GenSelect.
Import ListNotations.

Section Bridge.
Variable A : Type.
Variable cost : A -> xnum.
Variable copy : A -> A.

Lemma fold_append_map {X Y} (f : X -> Y) l acc : fold_left (fun st x => st ++ [f x]) l acc = acc ++ map f l.
Proof. revert acc. induction l as [|x r IH]; intros acc; cbn; [rewrite app_nil_r; reflexivity|]. rewrite IH, <- app_assoc. reflexivity. Qed.

Lemma slice_length (pop : list A) a b : a <= b -> length (firstn (b - a) (skipn a pop)) = slice_len (length pop) a b.
Proof. intros H. rewrite firstn_length, skipn_length. unfold slice_len. lia. Qed.

Lemma lastn_length (pop : list A) k : length (lastn k pop) = Nat.min (length pop) k.
Proof. unfold lastn. rewrite skipn_length. lia. Qed.

Theorem group_sizes_bridge pop P n_groups n_agents wr :
  map (@length A) (gen_generate_group_population A copy pop P n_groups n_agents wr) = groups_sizes (length pop) P n_groups n_agents wr.
Proof.
  unfold gen_generate_group_population, groups_sizes.
  rewrite (fold_append_map (fun idx => map (fun agent => copy agent) (firstn ((idx + 1) * n_agents - idx * n_agents) (skipn (idx * n_agents) pop)))).
  cbn [app].
  assert (E : map (@length A) (map (fun idx => map (fun agent => copy agent) (firstn ((idx + 1) * n_agents - idx * n_agents) (skipn (idx * n_agents) pop))) (seq 0 n_groups))
              = map (fun i => slice_len (length pop) (i * n_agents) ((i + 1) * n_agents)) (seq 0 n_groups)).
  { rewrite map_map. apply map_ext. intros i. rewrite map_length. apply slice_length. nia. }
  destruct wr; cbn [negb andb].
  - destruct (P mod n_groups =? 0) eqn:Er; cbn [negb].
    + rewrite E, app_nil_r. reflexivity.
    + rewrite map_app, E. cbn [map]. rewrite map_length, lastn_length. reflexivity.
  - rewrite E, app_nil_r. reflexivity.
Qed.

(* hence the number of agents in all groups together is groups_total: what `list(chain.from_iterable(groups))` / the comprehension over the packs rebuilds *)
Theorem group_total_bridge pop P n_groups n_agents wr :
  length (concat (gen_generate_group_population A copy pop P n_groups n_agents wr)) = groups_total (length pop) P n_groups n_agents wr.
Proof.
  unfold groups_total. rewrite <- group_sizes_bridge.
  induction (gen_generate_group_population A copy pop P n_groups n_agents wr) as [|g r IH]; cbn; auto.
  rewrite app_length, IH. reflexivity.
Qed.
End Bridge.
