(* PoolExample.v — non-vacuity of the C11 theorems: a completion order that is NOT the submission order (`rev`) meets the permutation hypothesis, and the REGENERATED
   pooled _init_population / _greedy_select_population evaluated under it really return their agents in another order than the serial mode does - the envelope
   "any permutation" is inhabited by a non-identity and the theorems speak about runs whose order differs. *)
From Coq Require Import List ZArith Bool Permutation.
From PV Require Import Xnum Select PyLib Select_proofs Pool.
From PVGen Require Import GenSelect GenHyper.
Import ListNotations.

Example pool_hypotheses_satisfiable :
  (forall l : list Z, Permutation l (rev l)) /\ rev [1; 2; 3]%Z <> [1; 2; 3]%Z /\
  gen_init_population Z (@rev Z) (fun k => Z.of_nat k) [] 3 THREAD = [2; 1; 0]%Z /\
  gen_init_population Z (@rev Z) (fun k => Z.of_nat k) [] 3 SERIAL = [0; 1; 2]%Z /\
  gen_greedy_select_population Z (fun z => XFin z) (fun z => z) (@rev Z) [5; 1; 3]%Z [4; 2; 0]%Z THREAD = Some [4; 2; 0]%Z /\
  gen_greedy_select_population Z (fun z => XFin z) (fun z => z) (@rev Z) [5; 1; 3]%Z [4; 2; 0]%Z SERIAL = Some [0; 2; 4]%Z /\
  gen_greedy_select_population Z (fun z => XFin z) (fun z => z) (@rev Z) [5; 1; 3]%Z [4; 2]%Z THREAD = None.
Proof.
  split; [intros l; apply Permutation_rev|]. split; [discriminate|]. vm_compute. repeat split; reflexivity.
Qed.
