(* VarsBridge.v — the one-line methods regenerated from models.py coincide with the hand model
   (Vars.v) that the C13 / C14 theorems are about. *)
From Coq Require Import List ZArith Bool Arith Lia.
From PV Require Import Xnum Select PyLib Argsort Labels Vars Vars_proofs.
From PVGen Require Import GenVars.
Import ListNotations.

Section Bridge.
Variable C : Type.
Variable L : Type.
Variable enc_transform : list L -> option (list nat).

Lemma cont_correct_bridge lo hi x :
  correct1 (SCont lo hi) (CNum x) = Some (CNum (gen_cont_correct lo hi x)).
Proof. reflexivity. Qed.
Lemma cont_validate_bridge lo hi : is_some (gen_cont_validate lo hi) = valid_varb (VCont lo hi).
Proof. unfold gen_cont_validate. cbn. destruct (xleb hi lo); reflexivity. Qed.
Lemma binary_validate_bridge k : is_some (gen_binary_validate k) = valid_varb (VBinary k).
Proof. unfold gen_binary_validate. cbn. destruct (k <=? 0)%Z; reflexivity. Qed.

Lemma disc_get_bounds_bridge (choices : list C) :
  gen_disc_get_bounds C choices = (0%Z, (Z.of_nat (length choices) - 1)%Z).
Proof. reflexivity. Qed.
Lemma disc_correct_bridge (choices : list C) x :
  correct_disc (length choices) x = option_map xint (gen_disc_correct C choices x).
Proof.
  unfold correct_disc, gen_disc_correct, gen_disc_get_bounds, disc_hi.
  destruct (xtrunc _); reflexivity.
Qed.
Lemma disc_decode_bridge (choices : list C) x :
  gen_disc_decode C choices x =
  match decode1 (SDisc (length choices)) (CNum x) with
  | Some (DChoice k) => nth_error choices (Z.to_nat k)
  | _ => None
  end.
Proof.
  unfold gen_disc_decode, decode1, obind, py_getitem. destruct (xtrunc x) as [k|]; auto.
  set (n := Z.of_nat (length choices)).
  destruct (k <? - n)%Z eqn:E1, (n <=? k)%Z eqn:E2, (- n <=? k)%Z eqn:E3, (k <? n)%Z eqn:E4; cbn; auto;
    try (apply Z.ltb_lt in E1); try (apply Z.ltb_ge in E1); try (apply Z.leb_le in E2); try (apply Z.leb_gt in E2);
    try (apply Z.leb_le in E3); try (apply Z.leb_gt in E3); try (apply Z.ltb_lt in E4); try (apply Z.ltb_ge in E4); lia.
Qed.
Lemma perm_correct_bridge v pi : gen_perm_correct v pi = correct_perm_of pi.
Proof. reflexivity. Qed.
Lemma perm_decode_bridge labels v pi :
  gen_perm_decode L labels v pi = decode_labels L labels (correct_perm_of pi).
Proof. reflexivity. Qed.
End Bridge.
