(* InitBridge.v — Task.correct_solution / solve / initial_solution, _fcn, _init_agent and
   calculate_fitness as regenerated from /repo coincide with the hand model of Init.v. *)
From Coq Require Import List ZArith Bool Arith.
From PV Require Import Xnum Select PyLib Argsort Vars Init.
From PVGen Require Import GenInit.
Import ListNotations.

Lemma map_opt_ext {X Y} (f g : X -> option Y) l : (forall x, f x = g x) -> map_opt f l = map_opt g l.
Proof. intros H. unfold map_opt. f_equal. apply map_ext. exact H. Qed.

Section Bridge.
Variable W : Type.
Variable dot : list xnum -> list W -> xnum.
Variable FT : Type.
Variable fitness_of : xnum -> dir -> FT.
Variable obj : list coord -> objv.

Lemma correct_solution_bridge t x : gen_task_correct_solution t x = correct_solution t x.
Proof. unfold gen_task_correct_solution, correct_solution. apply map_opt_ext. intros [c v]. reflexivity. Qed.

Lemma solve_bridge t x : gen_task_solve obj t x = option_map snd (solve obj t x).
Proof. unfold gen_task_solve, solve. rewrite correct_solution_bridge. destruct (correct_solution t x); reflexivity. Qed.

Lemma initial_solution_bridge t raw draw : gen_task_initial_solution t raw draw = initial_solution t raw draw.
Proof. unfold gen_task_initial_solution, initial_solution. rewrite correct_solution_bridge. reflexivity. Qed.

Lemma fcn_bridge t d x : gen_fcn obj t d x = option_map snd (fcn obj t d x).
Proof.
  unfold gen_fcn, fcn. rewrite solve_bridge. destruct (solve obj t x) as [[s c]|]; cbn; auto. destruct d; reflexivity.
Qed.

Lemma init_agent_bridge t d w raw draw :
  gen_init_agent W dot FT fitness_of obj t d w raw draw = option_map fst (init_agent W dot FT fitness_of obj t d w raw draw).
Proof.
  unfold gen_init_agent, init_agent. rewrite initial_solution_bridge.
  destruct (initial_solution t raw draw) as [pos|]; auto.
  rewrite fcn_bridge. destruct (fcn obj t d pos) as [[arg c]|]; cbn; auto.
  destruct (negb (n_weights W w =? objv_count c)); auto.
  destruct (mix W dot c w); reflexivity.
Qed.
End Bridge.

Lemma fitness_bridge F fadd fdiv fabs fopp fleb fzero fone (v : F) d :
  gen_fitness F fadd fdiv fabs fopp fleb fzero fone v d = fitness F fadd fdiv fabs fopp fleb fzero fone v d.
Proof. unfold gen_fitness, fitness, phi. destruct d; reflexivity. Qed.
