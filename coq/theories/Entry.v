(* Entry.v — C06, the half that is logic: what optimize() and the task / variable validators reject up front,
   and that nothing runs before the rejection (no optimization step is executed by the prologue). *)
From Coq Require Import List ZArith Bool Arith Lia.
From PV Require Import Xnum Select PyLib Argsort Vars Init Loop.
Import ListNotations.

(* Task.validate_objective_weights (hand model; gen/GenInit.v is bridged to it): None = ValueError *)
Definition weights_ok (ws : list xnum) : bool := forallb (fun w => xleb (XFin 0) w) ws.
Definition validate_weights (w : option (list xnum)) : option unit :=
  match w with None => Some tt | Some ws => if weights_ok ws then Some tt else None end.

Lemma forallb_false {X} (f : X -> bool) l : forallb f l = false -> exists x, In x l /\ f x = false.
Proof.
  induction l as [|y ys IH]; cbn; [discriminate|]. destruct (f y) eqn:Ey; cbn.
  - intros E. destruct (IH E) as (x & Hin & Hx). exists x; auto.
  - intros _. exists y; auto.
Qed.

(* rejected exactly when some weight is not >= 0 (a negative weight, or NaN) *)
Theorem validate_weights_rejects w :
  validate_weights w = None <-> exists ws x, w = Some ws /\ In x ws /\ xleb (XFin 0) x = false.
Proof.
  unfold validate_weights, weights_ok. destruct w as [ws|].
  - destruct (forallb _ ws) eqn:E.
    + split; [discriminate|]. intros (ws' & x & Hw & Hin & Hx). injection Hw as <-.
      rewrite forallb_forall in E. rewrite (E x Hin) in Hx. discriminate.
    + split; [|reflexivity]. intros _. destruct (forallb_false _ _ E) as (x & Hin & Hx). exists ws, x. auto.
  - split; [discriminate|]. intros (ws & x & Hw & _). discriminate.
Qed.

Section Steps.
Variable A : Type.
Variable cost : A -> xnum.
Variable with_cost : A -> xnum -> A.
Variable F : Type.
Variables (fsub : F -> F -> F) (fabs : F -> F) (fltb fleb : F -> F -> bool) (fzero fone : F).
Variable avg : list A -> F.
Variable H : Type.
Variable before_init : H -> H.
Variable init_pop : H -> H * list A.
Variable after_init : H -> list A -> H * list A.
Variable step : H -> nat -> list A -> H * list A.

Notation exec1 := (exec1 A cost with_cost F fsub fabs fltb fleb fzero fone avg H before_init init_pop after_init step).
Notation exec_flat := (exec_flat A cost with_cost F fsub fabs fltb fleb fzero fone avg H before_init init_pop after_init step).

Definition is_step (s : stmt) : bool := match s with SStep => true | _ => false end.

(* only SStep counts an optimization step *)
Lemma exec1_steps ar s fr : is_step s = false -> f_steps _ _ _ (fst (exec1 ar s fr)) = f_steps _ _ _ fr.
Proof.
  intros Hs. destruct s; try discriminate; cbn [Loop.exec1]; try reflexivity;
    repeat match goal with
           | |- context [match ?x with _ => _ end] => destruct x
           | |- context [let '(_, _) := ?x in _] => destruct x
           end; reflexivity.
Qed.

(* a statement list without SStep executes no optimization step, however it ends (normally or by raising) *)
Theorem no_step_before_loop ar l fr : forallb (fun s => negb (is_step s)) l = true ->
  f_steps _ _ _ (fst (exec_flat ar l fr)) = f_steps _ _ _ fr.
Proof.
  revert fr. induction l as [|s t IH]; intros fr Hl; [reflexivity|].
  cbn in Hl. apply andb_prop in Hl as [Hs Ht]. apply negb_true_iff in Hs.
  cbn [Loop.exec_flat].
  pose proof (exec1_steps ar s fr Hs) as E1.
  destruct (exec1 ar s fr) as [fr' fl] eqn:E. cbn [fst] in E1.
  destruct fl; cbn [fst]; try exact E1.
  rewrite IH; auto.
Qed.
End Steps.

(* the initial population - where a weight-count mismatch surfaces - is built by the prologue: the statements of the
   schema before the loop contain no optimization step *)
Definition before_loop (schema : list stmt) : list stmt :=
  (fix go l := match l with [] => [] | SWhile _ :: _ => [] | s :: t => s :: go t end) schema.

Section Mismatch.
Variable W : Type.
Variable dot : list xnum -> list W -> xnum.
Variable FT : Type.
Variable fitness_of : xnum -> dir -> FT.
Variable obj : list coord -> objv.

Lemma objv_count_neg c : objv_count (objv_neg c) = objv_count c.
Proof. destruct c; cbn; auto. apply map_length. Qed.

(* the number of objectives disagrees with the number of weights: every construction of an agent is refused *)
Theorem weight_count_mismatch_rejected t d w raw draw :
  (forall x, n_weights W w <> objv_count (obj x)) -> init_agent W dot FT fitness_of obj t d w raw draw = None.
Proof.
  intros Hn. unfold init_agent. destruct (initial_solution t raw draw) as [pos|]; auto.
  unfold fcn, solve. destruct (correct_solution t pos) as [s|]; auto.
  assert (E : Nat.eqb (n_weights W w) (objv_count (match d with MIN => obj s | MAX => objv_neg (obj s) end)) = false).
  { apply Nat.eqb_neq. destruct d; [apply Hn | rewrite objv_count_neg; apply Hn]. }
  rewrite E. reflexivity.
Qed.
End Mismatch.
