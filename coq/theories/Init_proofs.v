(* Init_proofs.v — every agent produced by _init_agent lies in the search space, the objective was
   evaluated exactly at its stored position, and its reported cost is the user's objective there
   (C01, C05, C02 for a single construction). *)
From Coq Require Import List ZArith Bool Arith Lia.
From PV Require Import Xnum Select PyLib Argsort Vars Vars_proofs Task_proofs Init.
Import ListNotations.

Lemma map_opt_some {X Y} (f : X -> option Y) (g : X -> Y) l :
  (forall x, In x l -> f x = Some (g x)) -> map_opt f l = Some (map g l).
Proof.
  unfold map_opt. induction l as [|a t IH]; cbn; intros H; auto.
  rewrite (H a) by auto. rewrite IH by (intros; apply H; auto). reflexivity.
Qed.
Lemma map_fst_zip {X Y} (l1 : list X) (l2 : list Y) : length l1 <= length l2 -> map fst (zip l1 l2) = l1.
Proof.
  revert l2. induction l1 as [|x t IH]; intros [|y u] H; cbn in *; auto; try lia. f_equal. apply IH. lia.
Qed.

(* a member of the search space is a fixed point of correct_solution *)
Theorem correct_solution_fix t x : valid_task t -> in_spaceb t x = true -> correct_solution t x = Some x.
Proof.
  intros Hv H. unfold in_spaceb in H. apply andb_true_iff in H as [Hl Hd]. apply Nat.eqb_eq in Hl.
  unfold correct_solution. rewrite (map_opt_some _ fst).
  - rewrite map_fst_zip; auto. rewrite flat_vars_length; auto. lia.
  - intros [c sv] Hin. cbn. apply correct_fix. rewrite forallb_forall in Hd. apply (Hd (c, sv) Hin).
Qed.

Section InitProofs.
Variable W : Type.
Variable dot : list xnum -> list W -> xnum.
Hypothesis dot_neg : forall l w, dot (map xneg l) w = xneg (dot l w).     (* oracle law: np.dot(-l, w) = -np.dot(l, w) *)
Variable FT : Type.
Variable fitness_of : xnum -> dir -> FT.
Variable obj : list coord -> objv.

Notation init_agent := (init_agent W dot FT fitness_of obj).
Notation user_cost := (user_cost W dot obj).

Lemma mix_neg c w cost : mix W dot (objv_neg c) w = Some cost -> mix W dot c w = Some (xneg cost).
Proof.
  destruct w as [ws|], c as [x|l]; cbn; intros H; inversion H; subst; try discriminate.
  - change [xneg x] with (map xneg [x]). rewrite dot_neg, xneg_invol. reflexivity.
  - rewrite dot_neg, xneg_invol. reflexivity.
  - rewrite xneg_invol. reflexivity.
Qed.

(* the candidate actually corrected: the optimizer's raw vector, or a fresh random draw *)
Definition candidate (raw : option (list coord)) (draw : list coord) := match raw with Some r => r | None => draw end.

Theorem init_agent_sound t d w raw draw a arg :
  valid_task t -> valid_flat t -> shape_ok_all t (candidate raw draw) ->
  init_agent t d w raw draw = Some (a, arg) ->
  in_spaceb t (a_pos a) = true                      (* C01: the stored position is in the search space *)
  /\ arg = a_pos a                                  (* C05: the objective was evaluated exactly there ... *)
  /\ in_spaceb t arg = true                         (*      ... i.e. inside the search space *)
  /\ Some (reported_cost FT d a) = user_cost w (a_pos a)      (* C02: reported cost = the user's objective at the position *)
  /\ a_fit a = fitness_of (a_cost a) d.             (* C02: fitness is calculate_fitness of that cost *)
Proof.
  intros Hv Hf Hs H. unfold Init.init_agent, initial_solution in H. fold (candidate raw draw) in H.
  destruct (correct_solution_in_space t (candidate raw draw) Hv Hf Hs) as (pos & Ec & Hin).
  rewrite Ec in H. unfold fcn, solve in H.
  rewrite (correct_solution_fix t pos Hv Hin) in H.
  destruct (negb (n_weights W w =? objv_count match d with MIN => obj pos | MAX => objv_neg (obj pos) end)); [discriminate|].
  destruct (mix W dot (match d with MIN => obj pos | MAX => objv_neg (obj pos) end) w) as [cost|] eqn:Em; [|discriminate].
  inversion H; subst. cbn [a_pos a_cost a_fit]. repeat split; auto.
  unfold Init.user_cost, reported_cost. cbn [a_cost]. destruct d.
  - symmetry. exact Em.
  - symmetry. apply mix_neg. exact Em.
Qed.

(* conversely: a NaN or a short candidate is never silently repaired — the objective then sees a non-member
   or the construction fails; stated for a continuous coordinate *)
Theorem nan_candidate_not_in_space lo hi : in_domb (SCont lo hi) (CNum (xclip XNaN lo hi)) = false.
Proof. reflexivity. Qed.

(* progress: with a well-shaped candidate and a matching number of objectives the construction succeeds *)
Theorem init_agent_total t d w raw draw :
  valid_task t -> valid_flat t -> shape_ok_all t (candidate raw draw) ->
  (forall x, n_weights W w = objv_count (obj x)) ->
  (forall x, w = None -> exists c, obj x = OScalar c) ->
  exists a arg, init_agent t d w raw draw = Some (a, arg).
Proof.
  intros Hv Hf Hs Hn Hsc. unfold Init.init_agent, initial_solution. fold (candidate raw draw).
  destruct (correct_solution_in_space t (candidate raw draw) Hv Hf Hs) as (pos & Ec & Hin).
  rewrite Ec. unfold fcn, solve. rewrite (correct_solution_fix t pos Hv Hin).
  assert (Hcnt : objv_count (match d with MIN => obj pos | MAX => objv_neg (obj pos) end) = objv_count (obj pos)).
  { destruct d; auto. destruct (obj pos); cbn; auto. apply map_length. }
  rewrite Hcnt, <- (Hn pos), Nat.eqb_refl. cbn [negb].
  destruct w as [ws|].
  - destruct d, (obj pos); cbn; eauto.
  - destruct (Hsc pos eq_refl) as (c & Eo). rewrite Eo. destruct d; cbn; eauto.
Qed.
End InitProofs.

(* the fitness formula: fitness = phi(reported cost), both directions, on any float carrier — no law of
   floating-point arithmetic is needed because the sign restoration of the report is the same negation *)
Theorem fitness_is_phi_of_reported F fadd fdiv fabs fopp fleb fzero fone (internal : F) d :
  fitness F fadd fdiv fabs fopp fleb fzero fone internal d =
  phi F fadd fdiv fabs fleb fzero fone (match d with MIN => internal | MAX => fopp internal end).
Proof. reflexivity. Qed.
