(* Task_proofs.v — a task's search-space description is consistent with its variables (C14). *)
From Coq Require Import List ZArith Bool Arith Lia Permutation.
From PV Require Import Xnum Select PyLib Argsort Vars Vars_proofs.
Import ListNotations.

Definition valid_task (t : task) : Prop := Forall (fun nv => valid_varb (snd nv) = true) t.

Lemma zip_length {X Y} (l1 : list X) (l2 : list Y) : length (zip l1 l2) = Nat.min (length l1) (length l2).
Proof. revert l2; induction l1 as [|x t IH]; intros [|y u]; cbn; auto. Qed.

(* ------------------------------------------------------------------ dimension *)
Lemma children_length v : valid_varb v = true -> length (children v) = size v.
Proof.
  destruct v; cbn; auto; intros H.
  1,2: unfold bounds_ok in H; apply andb_true_iff in H as [H _]; apply Nat.eqb_eq in H;
       rewrite map_length, zip_length; lia.
  - apply map_length.
  - apply repeat_length.
Qed.
Lemma var_bounds_length v : valid_varb v = true -> length (var_bounds v) = size v.
Proof.
  destruct v; cbn; auto; intros H.
  1,2: unfold bounds_ok in H; apply andb_true_iff in H as [H _]; apply Nat.eqb_eq in H;
       rewrite map_length, zip_length; lia.
  - apply map_length.
  - apply repeat_length.
Qed.
Lemma flat_map_length_sum {X Y} (f : X -> list Y) (g : X -> nat) l :
  Forall (fun x => length (f x) = g x) l -> length (flat_map f l) = list_sum (map g l).
Proof. induction 1 as [|x l Hx Hl IH]; cbn; auto. rewrite app_length, Hx, IH. reflexivity. Qed.

Theorem dimension_is_sum t : dimension t = list_sum (map (fun nv => size (snd nv)) t).
Proof. reflexivity. Qed.
Theorem flat_vars_length t : valid_task t -> length (flat_vars t) = dimension t.
Proof.
  intros H. unfold flat_vars, dimension. apply (flat_map_length_sum _ (fun nv => size (snd nv))).
  eapply Forall_impl; [|exact H]. intros nv Hv. apply children_length; auto.
Qed.
Theorem bounds_length t : valid_task t -> length (bounds t) = dimension t.
Proof.
  intros H. unfold bounds, dimension. apply (flat_map_length_sum _ (fun nv => size (snd nv))).
  eapply Forall_impl; [|exact H]. intros nv Hv. apply var_bounds_length; auto.
Qed.

(* ------------------------------------------------------------------ bounds *)
(* the bounds a coordinate's own (flattened) variable declares *)
Definition svar_bounds (sv : svar) : bnd :=
  match sv with
  | SCont lo hi => BNum lo hi
  | SDisc n => BNum (xint 0) (disc_hi n)
  | SPerm n => BPerm n
  end.
Definition is_binary (v : var) : bool := match v with VBinary _ => true | _ => false end.

Theorem var_bounds_own v : is_binary v = false -> var_bounds v = map svar_bounds (children v).
Proof.
  destruct v; cbn; intros H; try discriminate; auto; rewrite map_map; reflexivity.
Qed.
(* BinaryVariable declares [0, 2 - eps] for each bit: truncation of anything in range is 0 or 1 *)
Theorem binary_bounds k : var_bounds (VBinary k) = repeat (BNum (xint 0) BIN_HI) (Z.to_nat k)
  /\ xltb (xint 1) BIN_HI = true /\ xltb BIN_HI (xint 2) = true.
Proof. split; [reflexivity|]. split; vm_compute; reflexivity. Qed.

Theorem bounds_own t : Forall (fun nv => is_binary (snd nv) = false) t ->
  bounds t = map svar_bounds (flat_vars t).
Proof.
  unfold bounds, flat_vars. induction 1 as [|nv l Hnv Hl IH]; cbn; auto.
  rewrite map_app, IH, var_bounds_own; auto.
Qed.

Definition bnd_ordered (b : bnd) : Prop :=
  match b with BNum lo hi => xleb lo hi = true | BPerm _ => True end.
Theorem bounds_ordered t : valid_task t ->
  Forall (fun nv => match snd nv with
                    | VCont lo hi => non_nan lo /\ non_nan hi
                    | VContMulti los his | VMultiObj los his => Forall non_nan (los ++ his)
                    | VDisc n => 1 <= n | VDiscMulti ns => Forall (fun n => 1 <= n) ns
                    | _ => True end) t ->
  Forall bnd_ordered (bounds t).
Proof.
  assert (F : forall lo hi, non_nan lo -> non_nan hi -> xleb hi lo = false -> xleb lo hi = true).
  { intros lo hi Hl Hh H. destruct (xleb_total lo hi Hl Hh); congruence. }
  assert (D : forall n, 1 <= n -> xleb (xint 0) (disc_hi n) = true).
  { intros n Hn. unfold disc_hi, xint. cbn [xleb]. apply Z.leb_le. pose proof SCALE_pos. nia. }
  intros Hv Hf. unfold valid_task in Hv. unfold bounds. apply Forall_forall. intros b Hb.
  apply in_flat_map in Hb as (nv & Hnv & Hb). rewrite Forall_forall in Hv, Hf.
  specialize (Hv nv Hnv). specialize (Hf nv Hnv). destruct (snd nv); cbn in *.
  - destruct Hb as [<-|[]]. cbn. destruct Hf. apply F; auto. apply negb_true_iff; auto.
  - apply in_map_iff in Hb as (p & <- & Hp). cbn. unfold bounds_ok in Hv.
    apply andb_true_iff in Hv as [_ Hv]. apply negb_true_iff in Hv.
    destruct (in_zip_l _ _ _ Hp). rewrite Forall_forall in Hf.
    apply F; try (apply Hf, in_or_app; auto).
    destruct (xleb (snd p) (fst p)) eqn:E; auto.
    assert (existsb (fun p => xleb (snd p) (fst p)) (zip los his) = true) by (apply existsb_exists; eauto). congruence.
  - apply in_map_iff in Hb as (p & <- & Hp). cbn. unfold bounds_ok in Hv.
    apply andb_true_iff in Hv as [_ Hv]. apply negb_true_iff in Hv.
    destruct (in_zip_l _ _ _ Hp). rewrite Forall_forall in Hf.
    apply F; try (apply Hf, in_or_app; auto).
    destruct (xleb (snd p) (fst p)) eqn:E; auto.
    assert (existsb (fun p => xleb (snd p) (fst p)) (zip los his) = true) by (apply existsb_exists; eauto). congruence.
  - destruct Hb as [<-|[]]. cbn. apply D; auto.
  - apply in_map_iff in Hb as (n & <- & Hn). cbn. rewrite Forall_forall in Hf. apply D; auto.
  - apply repeat_spec in Hb. subst. vm_compute. reflexivity.
  - destruct Hb as [<-|[]]. exact I.
Qed.

(* ------------------------------------------------------------------ correct_solution *)
Lemma sequence_length {X} (l : list (option X)) r : sequence l = Some r -> length r = length l.
Proof.
  revert r. induction l as [|[x|] t IH]; cbn; intros r H; try discriminate.
  - inversion H; auto.
  - destruct (sequence t); [|discriminate]. inversion H; subst. cbn. f_equal. apply IH; auto.
Qed.
Lemma sequence_nth {X} (l : list (option X)) r i d : sequence l = Some r -> i < length l ->
  nth i l None = Some (nth i r d).
Proof.
  revert r i. induction l as [|[x|] t IH]; cbn; intros r i H Hi; try discriminate; try lia.
  destruct (sequence t) eqn:E; [|discriminate]. inversion H; subst. destruct i; cbn; auto.
  apply IH; auto. lia.
Qed.
Lemma zip_nth {X Y} (l1 : list X) (l2 : list Y) i dx dy :
  i < length l1 -> i < length l2 -> nth i (zip l1 l2) (dx, dy) = (nth i l1 dx, nth i l2 dy).
Proof.
  revert l2 i; induction l1 as [|x t IH]; intros [|y u] i H1 H2; cbn in *; try lia.
  destruct i; auto. apply IH; lia.
Qed.

(* corrected solutions have exactly one coordinate per dimension ... *)
Theorem correct_solution_length t x r : valid_task t -> dimension t <= length x ->
  correct_solution t x = Some r -> length r = dimension t.
Proof.
  intros Hv Hx H. unfold correct_solution, map_opt in H. apply sequence_length in H.
  rewrite H, map_length, zip_length, flat_vars_length; auto. lia.
Qed.
(* ... and correction acts coordinate-wise with the owning variable's rule *)
Theorem correct_solution_pointwise t x r i dc dsv : valid_task t -> dimension t <= length x ->
  correct_solution t x = Some r -> i < dimension t ->
  correct1 (nth i (flat_vars t) dsv) (nth i x dc) = Some (nth i r dc).
Proof.
  intros Hv Hx H Hi. unfold correct_solution, map_opt in H.
  assert (Hl : length (flat_vars t) = dimension t) by (apply flat_vars_length; auto).
  assert (Hz : i < length (map (fun p => correct1 (snd p) (fst p)) (zip x (flat_vars t))))
    by (rewrite map_length, zip_length; lia).
  pose proof (sequence_nth _ r i dc H Hz) as E. rewrite <- E.
  rewrite (nth_map_lt (fun p => correct1 (snd p) (fst p)) _ i (dc, dsv) None)
    by (rewrite zip_length; lia).
  rewrite zip_nth by lia. reflexivity.
Qed.
(* a correctable candidate of the right shape lands inside the search space *)
Definition shape_ok_all (t : task) (x : list coord) : Prop :=
  length x = dimension t /\ Forall (fun p => shape_ok (snd p) (fst p)) (zip x (flat_vars t)).
Definition valid_flat (t : task) : Prop := Forall valid_svar (flat_vars t).

Lemma Forall2_len {X Y} (R : X -> Y -> Prop) l1 l2 : Forall2 R l1 l2 -> length l1 = length l2.
Proof. induction 1; cbn; auto. Qed.
Lemma map_opt_forall {X Y} (f : X -> option Y) (P : X -> Prop) (Q : X -> Y -> Prop) l :
  (forall x, P x -> exists y, f x = Some y /\ Q x y) -> Forall P l ->
  exists r, map_opt f l = Some r /\ Forall2 Q l r.
Proof.
  intros Hf. unfold map_opt. induction 1 as [|x l Hx Hl IH]; cbn.
  - exists []. split; auto.
  - destruct (Hf x Hx) as (y & Ey & Qy). destruct IH as (r & Er & Hr).
    rewrite Ey, Er. exists (y :: r). split; auto.
Qed.

Lemma zip_forall2_in (x r : list coord) (vs : list svar) :
  Forall2 (fun p c' => in_domb (snd p) c' = true) (zip x vs) r ->
  forall p, In p (zip r vs) -> in_domb (snd p) (fst p) = true.
Proof.
  revert x r. induction vs as [|v vs IH]; intros x r Hr p Hp.
  - destruct r; cbn in Hp; contradiction.
  - destruct r as [|c r]; [cbn in Hp; contradiction|]. destruct x as [|cx x]; cbn in Hr; [inversion Hr|].
    inversion Hr as [|? ? ? ? Hhd Htl]; subst. cbn in Hp. destruct Hp as [<-|Hp]; [exact Hhd|].
    eapply IH; eauto.
Qed.

Theorem correct_solution_in_space t x : valid_task t -> valid_flat t -> shape_ok_all t x ->
  exists r, correct_solution t x = Some r /\ in_spaceb t r = true.
Proof.
  intros Hv Hf [Hl Hs]. unfold correct_solution. unfold valid_flat in Hf.
  assert (Hfl : length (flat_vars t) = dimension t) by (apply flat_vars_length; auto).
  destruct (map_opt_forall (fun p => correct1 (snd p) (fst p))
              (fun p => valid_svar (snd p) /\ shape_ok (snd p) (fst p))
              (fun p c' => in_domb (snd p) c' = true) (zip x (flat_vars t))) as (r & Er & Hr).
  - intros p [H1 H2]. apply correct_in_dom; auto.
  - rewrite Forall_forall in *. intros p Hp. split; auto. apply Hf. apply (in_zip_l _ _ _ Hp).
  - exists r. split; auto. unfold in_spaceb.
    assert (Lr : length r = dimension t).
    { apply Forall2_len in Hr. rewrite zip_length in Hr. lia. }
    rewrite Lr, Nat.eqb_refl. cbn. apply forallb_forall. intros p Hp.
    eapply zip_forall2_in; eauto.
Qed.

(* ------------------------------------------------------------------ transform_solution *)
Lemma skipn_add {X} (a b : nat) (l : list X) : skipn b (skipn a l) = skipn (a + b) l.
Proof. revert l. induction a as [|a IH]; intros l; cbn; auto. destruct l; [destruct b; reflexivity|apply IH]. Qed.
Fixpoint offset (t : task) (k : nat) : nat :=
  match k, t with
  | S k', nv :: rest => size (snd nv) + offset rest k'
  | _, _ => 0
  end.

(* entry k is keyed by variable k's name and holds that variable's decoded slice of the position *)
Theorem transform_from_spec t : forall x r, transform_from t x = Some r ->
  length r = length t /\
  forall k nv, nth_error t k = Some nv ->
    exists d, nth_error r k = Some (fst nv, d) /\
      decode_var (snd nv) (firstn (size (snd nv)) (skipn (offset t k) x)) = Some d.
Proof.
  induction t as [|[name v] rest IH]; cbn [transform_from]; intros x r H.
  - inversion H; subst. split; auto. intros [|k] nv Hk; discriminate.
  - destruct (decode_var v (firstn (size v) x)) as [d|] eqn:Ed; [|discriminate].
    destruct (transform_from rest (skipn (size v) x)) as [r'|] eqn:Er; [|discriminate].
    inversion H; subst. destruct (IH _ _ Er) as [Hl Hk]. split; [cbn; lia|].
    intros [|k] nv Hn; cbn in Hn.
    + inversion Hn; subst. exists d. cbn. auto.
    + destruct (Hk k nv Hn) as (d' & E1 & E2). exists d'. split; auto.
      cbn [offset snd]. rewrite <- skipn_add. exact E2.
Qed.

Lemma dict_set_fresh {V} k (v : V) d : ~ In k (map fst d) -> dict_set k v d = d ++ [(k, v)].
Proof.
  induction d as [|[k' v'] r IH]; cbn; intros H; auto.
  destruct (Nat.eqb_spec k k'); [exfalso; apply H; auto|]. rewrite IH; auto.
Qed.
Lemma to_dict_nodup {V} (l : list (nat * V)) : NoDup (map fst l) -> to_dict l = l.
Proof.
  unfold to_dict. intros H.
  assert (G : forall acc, NoDup (map fst (acc ++ l)) ->
              fold_left (fun d kv => dict_set (fst kv) (snd kv) d) l acc = acc ++ l).
  { clear H. induction l as [|[k v] t IH]; intros acc Hn; cbn.
    - rewrite app_nil_r; auto.
    - rewrite dict_set_fresh.
      + rewrite IH.
        * rewrite <- app_assoc. reflexivity.
        * rewrite <- app_assoc. exact Hn.
      + rewrite map_app in Hn. cbn in Hn. apply NoDup_remove_2 in Hn.
        intros Hin. apply Hn. apply in_or_app; auto. }
  apply (G []). exact H.
Qed.
Lemma transform_from_names t : forall x r, transform_from t x = Some r -> map fst r = map fst t.
Proof.
  induction t as [|[name v] rest IH]; cbn [transform_from]; intros x r H.
  - inversion H; auto.
  - destruct (decode_var v _); [|discriminate]. destruct (transform_from rest _) eqn:E; [|discriminate].
    inversion H; subst. cbn. f_equal. eapply IH; eauto.
Qed.
(* exactly one entry per declared variable, keyed by its name (distinct names) *)
Theorem transform_keys t x r : NoDup (map fst t) -> transform_solution t x = Some r ->
  map fst r = map fst t /\ transform_from t x = Some r.
Proof.
  unfold transform_solution. intros Hn H. destruct (transform_from t x) as [r0|] eqn:E; [|discriminate].
  cbn in H. inversion H; subst. pose proof (transform_from_names _ _ _ E) as En.
  rewrite to_dict_nodup by (rewrite En; auto). auto.
Qed.

(* non-vacuity: a mixed task with a size-1 multi-variable and a binary variable *)
Example c14_example :
  let t := [(0, VContMulti [xint 0] [xint 1]); (1, VDiscMulti [3; 2]); (2, VBinary 2); (3, VCont (xint (-5)) (xint 5))]%nat in
  dimension t = 6 /\ length (bounds t) = 6 /\
  correct_solution t [CNum (xint 7); CNum (mk 5 (-1)); CNum (xint 9); CNum (mk 3 (-1)); CNum (xint (-4)); CNum XNInf]
    = Some [CNum (xint 1); CNum (xint 2); CNum (xint 1); CNum (xint 1); CNum (xint 0); CNum (xint (-5))] /\
  transform_solution t [CNum (xint 1); CNum (xint 2); CNum (xint 1); CNum (xint 1); CNum (xint 0); CNum (xint (-5))]
    = Some [(0, DList [DNum (xint 1)]); (1, DList [DChoice 2; DChoice 1]); (2, DList [DChoice 1; DChoice 0]); (3, DNum (xint (-5)))]%nat.
Proof. vm_compute. repeat split; reflexivity. Qed.
