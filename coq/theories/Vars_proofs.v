(* Vars_proofs.v — the domain laws of the variable types (C13). *)
From Coq Require Import List ZArith Bool Arith Lia Permutation Sorted.
From PV Require Import Xnum Select PyLib Argsort Vars.
Import ListNotations.

Definition valid_svar (sv : svar) : Prop :=
  match sv with
  | SCont lo hi => is_fin lo = true /\ is_fin hi = true /\ xltb lo hi = true
  | SDisc n => 1 <= n
  | SPerm _ => True
  end.

(* ------------------------------------------------------------------ integers on the carrier *)
Local Open Scope Z_scope.
Lemma xint_mod k : (k * SCALE) mod SCALE = 0.
Proof. apply Z.mod_mul. pose proof SCALE_pos; lia. Qed.
Lemma xint_div k : (k * SCALE) / SCALE = k.
Proof. apply Z.div_mul. pose proof SCALE_pos; lia. Qed.
Lemma is_int_in_xint n k : 0 <= k < Z.of_nat n -> is_int_in n (xint k) = true.
Proof.
  intros H. unfold is_int_in, xint. rewrite xint_mod, xint_div.
  rewrite Z.eqb_refl. cbn. apply andb_true_iff. split; [apply Z.leb_le|apply Z.ltb_lt]; lia.
Qed.
Lemma is_int_in_inv n x : is_int_in n x = true -> exists k, x = xint k /\ 0 <= k < Z.of_nat n.
Proof.
  destruct x as [| |z|]; cbn; try discriminate. intros H.
  apply andb_true_iff in H as [H H3]. apply andb_true_iff in H as [H1 H2].
  apply Z.eqb_eq in H1. apply Z.leb_le in H2. apply Z.ltb_lt in H3.
  exists (z / SCALE). split; [|lia]. unfold xint. f_equal.
  pose proof SCALE_pos. rewrite Z.mul_comm. apply Z.div_exact; lia.
Qed.
Local Close Scope Z_scope.

(* ------------------------------------------------------------------ continuous *)
Theorem cont_correct_in_dom lo hi x : valid_svar (SCont lo hi) -> non_nan x ->
  in_domb (SCont lo hi) (CNum (xclip x lo hi)) = true.
Proof.
  intros (Hl & Hh & Hlt) Hx. cbn.
  destruct (xclip_in_range x lo hi Hx (xltb_leb _ _ Hlt)) as [H1 H2].
  rewrite H1, H2, !andb_true_r.
  destruct lo, hi; cbn in Hl, Hh; try discriminate.
  destruct (xclip x (XFin z) (XFin z0)); cbn in *; auto; discriminate.
Qed.
Theorem cont_correct_fix lo hi x : in_domb (SCont lo hi) (CNum x) = true -> xclip x lo hi = x.
Proof.
  cbn. intros H. apply andb_true_iff in H as [H H2]. apply andb_true_iff in H as [_ H1].
  apply xclip_fix. split; auto.
Qed.

(* ------------------------------------------------------------------ discrete *)
Theorem disc_correct_in_dom n x : 1 <= n -> non_nan x ->
  exists k, correct_disc n x = Some (xint k) /\ (0 <= k < Z.of_nat n)%Z.
Proof.
  intros Hn Hx. unfold correct_disc, disc_hi.
  assert (Hle : xleb (xint 0) (xint (Z.of_nat n - 1)) = true).
  { unfold xint; cbn. apply Z.leb_le. pose proof SCALE_pos. nia. }
  destruct (xclip_in_range x _ _ Hx Hle) as [H1 H2].
  destruct (xclip x (xint 0) (xint (Z.of_nat n - 1))) as [| |z|] eqn:E; cbn in H1, H2; try discriminate.
  apply Z.leb_le in H1, H2. cbn [xtrunc].
  exists (Z.quot z SCALE). split; auto.
  pose proof (quot_scale_bounds z (Z.of_nat n - 1)). lia.
Qed.
Theorem disc_correct_fix n x : is_int_in n x = true -> correct_disc n x = Some x.
Proof.
  intros H. destruct (is_int_in_inv n x H) as (k & -> & Hk).
  unfold correct_disc, disc_hi. rewrite xclip_fix.
  - rewrite xtrunc_xint. reflexivity.
  - split; unfold xint; cbn; apply Z.leb_le; pose proof SCALE_pos; nia.
Qed.
Theorem disc_decode_declared n x : is_int_in n x = true ->
  exists k, decode1 (SDisc n) (CNum x) = Some (DChoice k) /\ x = xint k /\ (0 <= k < Z.of_nat n)%Z.
Proof.
  intros H. destruct (is_int_in_inv n x H) as (k & -> & Hk). exists k. cbn [decode1].
  rewrite xtrunc_xint.
  replace ((- Z.of_nat n <=? k)%Z && (k <? Z.of_nat n)%Z) with true
    by (symmetry; apply andb_true_iff; split; [apply Z.leb_le|apply Z.ltb_lt]; lia).
  replace (k <? 0)%Z with false by (symmetry; apply Z.ltb_ge; lia). auto.
Qed.

(* ------------------------------------------------------------------ permutations *)
Lemma is_permb_spec n l : is_permb n l = true <-> Permutation l (seq 0 n).
Proof.
  unfold is_permb. rewrite andb_true_iff, Nat.eqb_eq, forallb_forall. split.
  - intros [Hl Hall]. apply Permutation_sym. apply NoDup_Permutation_bis.
    + apply seq_NoDup.
    + rewrite seq_length. lia.
    + intros i Hi. specialize (Hall i Hi). apply existsb_exists in Hall as (j & Hj & E).
      apply Nat.eqb_eq in E. subst; auto.
  - intros P. split.
    + rewrite (Permutation_length P), seq_length. reflexivity.
    + intros i Hi. apply existsb_exists. exists i. split; [|apply Nat.eqb_refl].
      eapply Permutation_in; [apply Permutation_sym; exact P|exact Hi].
Qed.

Lemma x_to_nat_xint i : x_to_nat (xint (Z.of_nat i)) = Some i.
Proof.
  unfold x_to_nat, xint. rewrite xint_mod, xint_div. cbn.
  replace (0 <=? Z.of_nat i * SCALE)%Z with true
    by (symmetry; apply Z.leb_le; pose proof SCALE_pos; nia).
  rewrite Nat2Z.id. reflexivity.
Qed.
Lemma x_to_nat_inv x i : x_to_nat x = Some i -> x = xint (Z.of_nat i).
Proof.
  destruct x as [| |z|]; cbn; try discriminate.
  destruct ((z mod SCALE =? 0)%Z && (0 <=? z)%Z) eqn:E; [|discriminate].
  apply andb_true_iff in E as [E1 E2]. apply Z.eqb_eq in E1. apply Z.leb_le in E2.
  intros H. inversion H; subst. unfold xint. f_equal.
  pose proof SCALE_pos. rewrite Z2Nat.id by (apply Z.div_pos; lia).
  rewrite Z.mul_comm. apply Z.div_exact; lia.
Qed.
Lemma map_opt_nats_x l : map_opt x_to_nat (nats_x l) = Some l.
Proof.
  unfold map_opt, nats_x. induction l as [|i t IH]; cbn [map sequence]; auto.
  rewrite x_to_nat_xint. cbn [map sequence] in IH. rewrite IH. reflexivity.
Qed.
Lemma map_opt_inv v l : map_opt x_to_nat v = Some l -> v = nats_x l.
Proof.
  unfold map_opt, nats_x. revert l. induction v as [|x t IH]; cbn [map sequence]; intros l H.
  - inversion H; auto.
  - destruct (x_to_nat x) eqn:Ex; [|discriminate].
    destruct (sequence (map x_to_nat t)) eqn:Es; [|discriminate]. inversion H; subst.
    cbn [map]. rewrite (x_to_nat_inv _ _ Ex). f_equal. apply IH; auto.
Qed.

(* whatever valid inner argsort numpy returns, the corrected value is a permutation of the indexes *)
Theorem perm_correct_in_dom n pi : Permutation pi (seq 0 n) ->
  in_domb (SPerm n) (CVec (nats_x (correct_perm_of pi))) = true.
Proof.
  intros P. cbn. rewrite map_opt_nats_x. apply is_permb_spec.
  unfold correct_perm_of, argsort_nat.
  rewrite (argsort_perm nat Nat.ltb pi). rewrite (Permutation_length P), seq_length. reflexivity.
Qed.

(* xnum keys that are embedded naturals order like the naturals *)
Lemma xltb_nats a b : xltb (xint (Z.of_nat a)) (xint (Z.of_nat b)) = Nat.ltb a b.
Proof.
  unfold xint; cbn [xltb]. pose proof SCALE_pos.
  destruct (Nat.ltb_spec a b); [apply Z.ltb_lt|apply Z.ltb_ge]; nia.
Qed.
Lemma key_at_nats l i : i < length l -> key_at XNaN (nats_x l) i = xint (Z.of_nat (key_at 0 l i)).
Proof.
  intros Hi. unfold key_at, nats_x.
  rewrite (nth_map_lt (fun i => xint (Z.of_nat i)) l i 0%nat XNaN); auto.
Qed.
Lemma valid_argsort_transfer l pi :
  valid_argsort xltb XNaN (nats_x l) pi -> valid_argsort Nat.ltb 0 l pi.
Proof.
  unfold nats_x. intros [P S]. rewrite map_length in P. split; auto.
  assert (Hlt : forall i, In i pi -> i < length l).
  { intros i Hi. eapply Permutation_in in Hi; [|exact P]. apply in_seq in Hi. lia. }
  clear P. induction pi as [|i t IH]; cbn in *; [constructor|].
  inversion S as [|? ? St Hi]; subst. constructor.
  - apply IH; auto.
  - rewrite Forall_forall in *. intros k Hk. apply in_map_iff in Hk as (j & <- & Hj).
    specialize (Hi (key_at XNaN (map (fun i0 : nat => xint (Z.of_nat i0)) l) j)).
    unfold le in *. fold (nats_x l) in *.
    rewrite !key_at_nats in Hi by auto. rewrite xltb_nats in Hi. apply Hi.
    apply in_map_iff. exists j. split; auto. rewrite key_at_nats; auto.
Qed.

(* a member of the domain is left unchanged, whatever valid inner argsort numpy returns *)
Theorem perm_correct_fix n v pi : in_domb (SPerm n) (CVec v) = true ->
  valid_argsort xltb XNaN v pi -> nats_x (correct_perm_of pi) = v.
Proof.
  cbn. destruct (map_opt x_to_nat v) as [l|] eqn:E; [|discriminate]. intros Hp Hv.
  apply is_permb_spec in Hp. apply map_opt_inv in E. subst v.
  f_equal. unfold correct_perm_of.
  assert (Hl : is_perm l).
  { unfold is_perm. rewrite (Permutation_length Hp), seq_length. exact Hp. }
  apply (rank_fixes_perm l pi (argsort_nat pi) Hl).
  - apply valid_argsort_transfer; auto.
  - apply argsort_nat_valid.
Qed.

(* the executable reference argsort is a valid argsort of NaN-free keys *)
Lemma xnum_asym a b : xltb a b = true -> xltb b a = false.
Proof.
  destruct a as [| |x|], b as [| |y|]; cbn; intros H; try congruence; auto.
  apply Z.ltb_lt in H. apply Z.ltb_ge. lia.
Qed.
Lemma xnum_le_trans a b c : non_nan a -> non_nan b -> non_nan c ->
  le xnum xltb a b -> le xnum xltb b c -> le xnum xltb a c.
Proof.
  unfold le, non_nan. destruct a as [| |x|], b as [| |y|], c as [| |z|]; cbn; intros; try congruence; auto.
  apply Z.ltb_ge. apply Z.ltb_ge in H2, H3. lia.
Qed.
Theorem argsort_valid_xnum v : Forall non_nan v -> valid_argsort xltb XNaN v (argsort v).
Proof.
  intros H. apply (argsort_valid xnum xltb XNaN non_nan); auto.
  - apply xnum_asym.
  - apply xnum_le_trans.
Qed.
Lemma nats_x_non_nan l : Forall non_nan (nats_x l).
Proof. unfold nats_x. apply Forall_forall. intros x Hx. apply in_map_iff in Hx as (i & <- & _). unfold non_nan, xint. discriminate. Qed.

Theorem perm_decode_consistent n v : in_domb (SPerm n) (CVec v) = true ->
  exists l, decode1 (SPerm n) (CVec v) = Some (DItems l) /\ v = nats_x l /\ Permutation l (seq 0 n).
Proof.
  intros H. pose proof H as H'. cbn in H'.
  destruct (map_opt x_to_nat v) as [l|] eqn:E; [|discriminate].
  apply is_permb_spec in H'. pose proof (map_opt_inv _ _ E) as Ev.
  exists l. repeat split; auto. cbn [decode1]. do 2 f_equal.
  assert (Hv : valid_argsort xltb XNaN v (argsort v)).
  { apply argsort_valid_xnum. subst v. apply nats_x_non_nan. }
  assert (Hfix := perm_correct_fix n v (argsort v) H Hv).
  apply (f_equal (map_opt x_to_nat)) in Hfix.
  rewrite map_opt_nats_x, E in Hfix. inversion Hfix; auto.
Qed.

(* ------------------------------------------------------------------ the C13 laws, per scalar kind *)
Definition shape_ok (sv : svar) (c : coord) : Prop :=
  match sv, c with
  | SCont _ _, CNum x | SDisc _, CNum x => non_nan x
  | SPerm n, CVec v => length v = n /\ Forall non_nan v
  | _, _ => False
  end.

Theorem correct_in_dom sv c : valid_svar sv -> shape_ok sv c ->
  exists c', correct1 sv c = Some c' /\ in_domb sv c' = true.
Proof.
  destruct sv as [lo hi|n|n], c as [x|v]; cbn [shape_ok]; intros Hv Hs; try contradiction.
  - exists (CNum (xclip x lo hi)). split; auto. apply cont_correct_in_dom; auto.
  - destruct (disc_correct_in_dom n x Hv Hs) as (k & E & Hk).
    exists (CNum (xint k)). cbn [correct1]. rewrite E. split; auto. cbn. apply is_int_in_xint; auto.
  - destruct Hs as [Hl Hn]. eexists. split; [reflexivity|].
    apply perm_correct_in_dom. unfold argsort. rewrite <- Hl. apply argsort_perm.
Qed.
Theorem correct_fix sv c : in_domb sv c = true -> correct1 sv c = Some c.
Proof.
  destruct sv as [lo hi|n|n], c as [x|v]; intros H; try (cbn in H; discriminate).
  - cbn [correct1]. rewrite cont_correct_fix; auto.
  - cbn [correct1]. cbn in H. rewrite disc_correct_fix; auto.
  - cbn [correct1]. do 2 f_equal. apply (perm_correct_fix n); auto.
    apply argsort_valid_xnum. cbn in H. destruct (map_opt x_to_nat v) eqn:E; [|discriminate].
    apply map_opt_inv in E. subst. apply nats_x_non_nan.
Qed.
Theorem correct_idem sv c c' : valid_svar sv -> shape_ok sv c ->
  correct1 sv c = Some c' -> correct1 sv c' = Some c'.
Proof.
  intros Hv Hs E. destruct (correct_in_dom sv c Hv Hs) as (c'' & E' & Hd).
  rewrite E in E'. inversion E'; subst. apply correct_fix; auto.
Qed.
Theorem random_in_dom sv c : draw_ok sv c -> in_domb sv c = true.
Proof.
  destruct sv as [lo hi|n|n], c as [x|v]; cbn; try contradiction.
  - intros (H1 & H2 & H3). rewrite H1, H2, H3. reflexivity.
  - auto.
  - intros (l & -> & Hp). rewrite map_opt_nats_x. exact Hp.
Qed.
Theorem decode_declared sv c : in_domb sv c = true ->
  match sv with
  | SCont _ _ => exists x, c = CNum x /\ decode1 sv c = Some (DNum x)
  | SDisc n => exists x k, c = CNum x /\ decode1 sv c = Some (DChoice k) /\ x = xint k /\ (0 <= k < Z.of_nat n)%Z
  | SPerm n => exists v l, c = CVec v /\ decode1 sv c = Some (DItems l) /\ v = nats_x l /\ Permutation l (seq 0 n)
  end.
Proof.
  destruct sv as [lo hi|n|n], c as [x|v]; intros H; try (cbn in H; discriminate).
  - exists x; auto.
  - cbn in H. destruct (disc_decode_declared n x H) as (k & E & Hx & Hk). exists x, k; auto.
  - destruct (perm_decode_consistent n v H) as (l & E & Hv & Hp). exists v, l; auto.
Qed.

(* ------------------------------------------------------------------ validators *)
Theorem valid_varb_rejects :
  (forall lo hi, valid_varb (VCont lo hi) = false <-> xleb hi lo = true) /\
  (forall los his, valid_varb (VContMulti los his) = false <->
      length los <> length his \/ exists p, In p (zip los his) /\ xleb (snd p) (fst p) = true) /\
  (forall los his, valid_varb (VMultiObj los his) = false <->
      length los <> length his \/ exists p, In p (zip los his) /\ xleb (snd p) (fst p) = true) /\
  (forall k, valid_varb (VBinary k) = false <-> (k <= 0)%Z).
Proof.
  assert (B : forall los his, bounds_ok los his = false <->
      length los <> length his \/ exists p, In p (zip los his) /\ xleb (snd p) (fst p) = true).
  { intros los his. unfold bounds_ok. rewrite andb_false_iff, Nat.eqb_neq, negb_false_iff, existsb_exists. tauto. }
  repeat split; cbn; try apply B; try (apply (proj1 (B _ _))); try (apply (proj2 (B _ _))).
  - intros H. apply negb_false_iff in H; auto.
  - intros H. rewrite H; auto.
  - intros H. apply negb_false_iff, Z.leb_le in H. auto.
  - intros H. apply negb_false_iff, Z.leb_le. auto.
Qed.

Lemma in_zip_l {X Y} (l1 : list X) (l2 : list Y) p : In p (zip l1 l2) -> In (fst p) l1 /\ In (snd p) l2.
Proof.
  revert l2. induction l1 as [|x t IH]; intros [|y u]; cbn; try tauto.
  intros [<-|H]; cbn; auto. destruct (IH u H); auto.
Qed.
(* an accepted definition with finite bounds (and at least one choice) has only valid children *)
Theorem valid_children v : valid_varb v = true ->
  match v with
  | VCont lo hi => is_fin lo = true /\ is_fin hi = true
  | VContMulti los his | VMultiObj los his => Forall (fun x => is_fin x = true) (los ++ his)
  | VDisc n => 1 <= n
  | VDiscMulti ns => Forall (fun n => 1 <= n) ns
  | _ => True
  end -> Forall valid_svar (children v).
Proof.
  assert (F : forall lo hi, is_fin lo = true -> is_fin hi = true -> xleb hi lo = false -> xltb lo hi = true).
  { intros lo hi. destruct lo, hi; cbn; try discriminate. intros _ _ H. apply Z.leb_gt in H. apply Z.ltb_lt. lia. }
  assert (M : forall los his, bounds_ok los his = true -> Forall (fun x => is_fin x = true) (los ++ his) ->
            Forall valid_svar (map (fun p => SCont (fst p) (snd p)) (zip los his))).
  { intros los his Hb Hf. unfold bounds_ok in Hb. apply andb_true_iff in Hb as [_ Hb]. apply negb_true_iff in Hb.
    rewrite Forall_forall in *. intros sv Hsv. apply in_map_iff in Hsv as (p & <- & Hp).
    destruct (in_zip_l _ _ _ Hp) as [H1 H2]. cbn.
    assert (is_fin (fst p) = true) by (apply Hf, in_or_app; auto).
    assert (is_fin (snd p) = true) by (apply Hf, in_or_app; auto).
    repeat split; auto. apply F; auto.
    destruct (xleb (snd p) (fst p)) eqn:E; auto.
    assert (existsb (fun p => xleb (snd p) (fst p)) (zip los his) = true) by (apply existsb_exists; eauto). congruence. }
  destruct v; cbn [valid_varb children]; intros Hv Hf.
  - constructor; auto. cbn. destruct Hf. repeat split; auto. apply F; auto. apply negb_true_iff; auto.
  - apply M; auto.
  - apply M; auto.
  - constructor; auto.
  - rewrite Forall_forall in *. intros sv Hsv. apply in_map_iff in Hsv as (n & <- & Hn). cbn. auto.
  - apply Forall_forall. intros sv Hsv. apply repeat_spec in Hsv. subst. cbn. lia.
  - constructor; auto; try exact I.
Qed.

(* non-vacuity: mixed ties, boundary values, a genuine permutation *)
Example c13_example :
  correct1 (SPerm 4) (CVec [xint 7; xint 2; xint 7; mk 1 (-1)]) = Some (CVec (nats_x [2; 1; 3; 0]))
  /\ correct1 (SPerm 3) (CVec (nats_x [1; 2; 0])) = Some (CVec (nats_x [1; 2; 0]))
  /\ correct1 (SDisc 3) (CNum (mk 5 (-1))) = Some (CNum (xint 2))
  /\ correct1 (SDisc 3) (CNum XPInf) = Some (CNum (xint 2))
  /\ correct1 (SDisc 3) (CNum XNaN) = None
  /\ correct1 (SCont (xint 0) (xint 1)) (CNum XNInf) = Some (CNum (xint 0)).
Proof. vm_compute. repeat split; reflexivity. Qed.
