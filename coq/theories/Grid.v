(* Grid.v — model of hypertuner.ParameterGrid: iteration (sorted keys, itertools.product: last key
   fastest), len, and indexing (the reversed-key divmod loop); agreement theorems (C19, first half). *)
From Coq Require Import List Arith Lia.
Import ListNotations.

Section Grid.
Variable A : Type.            (* a parameter value *)
Variable d : A.

Fixpoint prod (vs : list (list A)) : list (list A) :=
  match vs with
  | [] => [[]]
  | v :: rest => flat_map (fun x => map (cons x) (prod rest)) v
  end.
Fixpoint size (vs : list (list A)) : nat := match vs with [] => 1 | v :: rest => length v * size rest end.

(* __getitem__ on one sub-grid: keys reversed; ind, offset = divmod(ind, n); out[key] = v[offset] *)
Fixpoint getitem_rev (rvs : list (list A)) (ind : nat) : list A :=
  match rvs with
  | [] => []
  | v :: rest => nth (ind mod length v) v d :: getitem_rev rest (ind / length v)
  end.
Definition getitem_sub (vs : list (list A)) (ind : nat) : list A := rev (getitem_rev (rev vs) ind).

(* a grid = a list of sub-grids, each given by its value lists in SORTED key order (an empty dict = [] = one empty point) *)
Definition iter (g : list (list (list A))) : list (list A) := flat_map prod g.
Definition len (g : list (list (list A))) : nat := list_sum (map size g).
Fixpoint getitem (g : list (list (list A))) (ind : nat) : option (list A) :=
  match g with
  | [] => None                                            (* IndexError *)
  | sg :: rest => if ind <? size sg then Some (getitem_sub sg ind) else getitem rest (ind - size sg)
  end.

Lemma flat_map_length_uniform {B C} (f : B -> list C) (l : list B) L :
  (forall b, In b l -> length (f b) = L) -> length (flat_map f l) = length l * L.
Proof.
  induction l as [|b t IH]; cbn; intros H; auto.
  rewrite app_length. rewrite IH by (intros; apply H; auto). rewrite H by auto. reflexivity.
Qed.
Lemma prod_length vs : length (prod vs) = size vs.
Proof.
  induction vs as [|v rest IH]; cbn; auto.
  rewrite (flat_map_length_uniform _ _ (size rest)); auto.
  intros; rewrite map_length; auto.
Qed.

Lemma nth_flat_map_uniform {B C} (f : B -> list C) (l : list B) L (db : B) (dc : C) i :
  0 < L -> (forall b, length (f b) = L) -> i < length l * L ->
  nth i (flat_map f l) dc = nth (i mod L) (f (nth (i / L) l db)) dc.
Proof.
  intros HL Hf. revert i. induction l as [|b t IH]; cbn; intros i Hi; [lia|].
  destruct (lt_dec i L) as [Hlt|Hge].
  - rewrite app_nth1 by (rewrite Hf; auto). rewrite Nat.div_small, Nat.mod_small by auto. reflexivity.
  - rewrite app_nth2 by (rewrite Hf; lia). rewrite Hf.
    assert (Hm : i mod L = (i - L) mod L).
    { replace i with ((i - L) + 1 * L) at 1 by lia. apply Nat.mod_add. lia. }
    assert (Hd : i / L = S ((i - L) / L)).
    { replace i with ((i - L) + 1 * L) at 1 by lia. rewrite Nat.div_add by lia. lia. }
    rewrite Hm, Hd. cbn [nth]. apply IH. lia.
Qed.

Lemma prod_snoc vs v : prod (vs ++ [v]) = flat_map (fun p => map (fun x => p ++ [x]) v) (prod vs).
Proof.
  induction vs as [|w rest IH]; cbn.
  - rewrite app_nil_r. induction v as [|x t IHt]; cbn; auto; try (f_equal; exact IHt).
  - rewrite IH. clear IH. induction w as [|x t IHt]; cbn; auto.
    rewrite flat_map_app. rewrite <- IHt. f_equal.
    generalize (prod rest). intros P. induction P as [|p P IHP]; cbn; auto.
    rewrite map_app, IHP. f_equal. rewrite map_map. reflexivity.
Qed.

Definition nonempty (vs : list (list A)) := Forall (fun v => 0 < length v) vs.

Lemma size_app vs ws : size (vs ++ ws) = size vs * size ws.
Proof. induction vs as [|v r IH]; cbn; [lia|]. rewrite IH. lia. Qed.
Lemma size_pos vs : nonempty vs -> 0 < size vs.
Proof. induction 1; cbn; [lia|]. nia. Qed.

(* one sub-grid: the ind-th element of the product order is what the divmod loop builds *)
Theorem getitem_sub_iter : forall vs, nonempty vs -> forall ind, ind < size vs ->
  nth ind (prod vs) [] = getitem_sub vs ind.
Proof.
  intros vs. induction vs as [|v vs IH] using rev_ind; intros Hne ind Hind.
  - cbn in *. destruct ind; [reflexivity|lia].
  - apply Forall_app in Hne as [Hvs Hv]. inversion Hv as [|? ? Hv0 _]; subst.
    rewrite size_app in Hind. cbn in Hind. rewrite Nat.mul_1_r in Hind.
    rewrite prod_snoc.
    rewrite (nth_flat_map_uniform _ _ (length v) [] []); auto.
    2:{ intros; rewrite map_length; auto. }
    2:{ rewrite prod_length. lia. }
    unfold getitem_sub. rewrite rev_app_distr. cbn.
    assert (Hq : ind / length v < size vs) by (apply Nat.div_lt_upper_bound; lia).
    rewrite IH by auto. unfold getitem_sub.
    set (p := rev (getitem_rev (rev vs) (ind / length v))).
    assert (Hm : ind mod length v < length v) by (apply Nat.mod_upper_bound; lia).
    rewrite (nth_indep _ [] (p ++ [d])) by (rewrite map_length; auto).
    change (p ++ [d]) with ((fun x => p ++ [x]) d). rewrite map_nth. reflexivity.
Qed.

(* ---- the whole grid *)
Theorem len_iter g : length (iter g) = len g.
Proof.
  unfold iter, len. induction g as [|sg rest IH]; cbn; auto. rewrite app_length, prod_length, IH. reflexivity.
Qed.

Theorem getitem_iter g : Forall nonempty g -> forall ind, ind < len g ->
  getitem g ind = Some (nth ind (iter g) []).
Proof.
  induction g as [|sg rest IH]; intros Hne ind Hind; [cbn in Hind; lia|].
  inversion Hne as [|? ? Hsg Hrest]; subst. change (len (sg :: rest)) with (size sg + len rest) in Hind. cbn [getitem iter flat_map].
  destruct (Nat.ltb_spec ind (size sg)).
  - rewrite app_nth1 by (rewrite prod_length; auto). rewrite getitem_sub_iter; auto.
  - rewrite app_nth2 by (rewrite prod_length; auto). rewrite prod_length. apply IH; auto. lia.
Qed.
Theorem getitem_out_of_range g ind : len g <= ind -> getitem g ind = None.
Proof.
  revert ind. induction g as [|sg rest IH]; intros ind H; [reflexivity|]. change (len (sg :: rest)) with (size sg + len rest) in H. cbn [getitem].
  destruct (Nat.ltb_spec ind (size sg)); [lia|]. apply IH. lia.
Qed.

(* every point of the product picks, for each key, one of that key's values - and every such choice occurs *)
Theorem prod_spec vs p : In p (prod vs) <-> Forall2 (fun x v => In x v) p vs.
Proof.
  revert p. induction vs as [|v rest IH]; intros p; cbn.
  - split; [intros [<-|[]]; constructor|intros H; inversion H; auto].
  - rewrite in_flat_map. split.
    + intros (x & Hx & Hp). apply in_map_iff in Hp as (q & <- & Hq). constructor; auto. apply IH; auto.
    + intros H. inversion H as [|x ? q ? Hx Hq]; subst. exists x. split; auto. apply in_map. apply IH; auto.
Qed.
End Grid.
