(* Vars.v — executable model of the seven variable types of models.py (C13) and of the task-level
   search-space description built from them (C14: TaskModel part at the end).
   Definitions only; proofs in Vars_proofs.v / Task_proofs.v. *)
From Coq Require Import List ZArith Bool Arith.
From PV Require Import Xnum Select PyLib Argsort.
Import ListNotations.

(* a coordinate of a position: a number, or (permutation variables) a whole vector *)
Inductive coord := CNum (x : xnum) | CVec (v : list xnum).

(* scalar variable kinds = what Task.get_variables() flattens to *)
Inductive svar :=
| SCont (lo hi : xnum)       (* ContinuousVariable *)
| SDisc (n : nat)            (* DiscreteVariable with n choices *)
| SPerm (n : nat).           (* PermutationVariable with n items *)

Inductive var :=
| VCont (lo hi : xnum)
| VContMulti (los his : list xnum)       (* ContinuousMultiVariable: the two bound lists as given *)
| VMultiObj (los his : list xnum)        (* MultiObjectiveVariable *)
| VDisc (n : nat)
| VDiscMulti (ns : list nat)
| VBinary (k : Z)                        (* n_vars as given (validator rejects k <= 0) *)
| VPerm (n : nat).

(* ---- construction-time validators (True = accepted) *)
Definition bounds_ok (los his : list xnum) : bool :=
  Nat.eqb (length los) (length his) && negb (existsb (fun p => xleb (snd p) (fst p)) (zip los his)).
Definition valid_varb (v : var) : bool :=
  match v with
  | VCont lo hi => negb (xleb hi lo)
  | VContMulti los his | VMultiObj los his => bounds_ok los his
  | VBinary k => negb (k <=? 0)%Z
  | VDisc _ | VDiscMulti _ | VPerm _ => true
  end.

(* ---- structure *)
Definition children (v : var) : list svar :=
  match v with
  | VCont lo hi => [SCont lo hi]
  | VContMulti los his | VMultiObj los his => map (fun p => SCont (fst p) (snd p)) (zip los his)
  | VDisc n => [SDisc n]
  | VDiscMulti ns => map SDisc ns
  | VBinary k => repeat (SDisc 2) (Z.to_nat k)
  | VPerm n => [SPerm n]
  end.
Definition has_children (v : var) : bool :=
  match v with VCont _ _ | VDisc _ | VPerm _ => false | _ => true end.
Definition size (v : var) : nat :=
  match v with
  | VCont _ _ | VDisc _ | VPerm _ => 1
  | VContMulti los _ | VMultiObj los _ => length los
  | VDiscMulti ns => length ns
  | VBinary k => Z.to_nat k
  end.

(* ---- numpy argsort (Argsort.v): stable insertion argsort as the executable reference; the theorems
   hold for every valid argsort (numpy's default sort is not stable) *)
Definition argsort (v : list xnum) : list nat := argsort_by xltb v.
Definition nats_x (l : list nat) : list xnum := map (fun i => xint (Z.of_nat i)) l.

(* ---- correct: None = the Python call raises *)
Definition disc_hi (n : nat) : xnum := xint (Z.of_nat n - 1).
Definition correct_disc (n : nat) (x : xnum) : option xnum :=
  match xtrunc (xclip x (xint 0) (disc_hi n)) with Some k => Some (xint k) | None => None end.
(* PermutationVariable.correct(value) = np.argsort(np.argsort(value)).tolist(): [pi] is numpy's
   result for the INNER argsort (any valid one); the outer one sorts distinct integers *)
Definition correct_perm_of (pi : list nat) : list nat := argsort_nat pi.
Definition correct1 (sv : svar) (c : coord) : option coord :=
  match sv, c with
  | SCont lo hi, CNum x => Some (CNum (xclip x lo hi))
  | SCont _ _, CVec _ => None                              (* float(array) raises TypeError *)
  | SDisc n, CNum x => option_map CNum (correct_disc n x)
  | SDisc _, CVec _ => None
  | SPerm _, CVec v => Some (CVec (nats_x (correct_perm_of (argsort v))))
  | SPerm _, CNum x => Some (CVec [xint 0])               (* np.argsort(scalar) = [0] *)
  end.
(* a whole variable applied to its slice of values: multi-variables map over their children
   (value[idx] raises IndexError when the value is shorter; extra entries are ignored) *)
Definition correct_var (v : var) (cs : list coord) : option (list coord) :=
  if has_children v then
    if length cs <? length (children v) then None
    else map_opt (fun p => correct1 (fst p) (snd p)) (zip (children v) cs)
  else match children v, cs with
       | [sv], [c] => option_map (fun x => [x]) (correct1 sv c)
       | _, _ => None
       end.
(* relational version: numpy may break ties of the inner argsort any way it likes *)
Definition is_argsortb (v : list xnum) (pi : list nat) : bool :=
  Nat.eqb (length pi) (length v)
  && forallb (fun i => existsb (Nat.eqb i) pi) (seq 0 (length v))
  && sorted_leb (map (nth_key v) pi).

(* ---- membership *)
Definition is_int_in (n : nat) (x : xnum) : bool :=
  match x with
  | XFin z => (z mod SCALE =? 0)%Z && (0 <=? z / SCALE)%Z && (z / SCALE <? Z.of_nat n)%Z
  | _ => false
  end.
Definition is_permb (n : nat) (l : list nat) : bool :=
  Nat.eqb (length l) n && forallb (fun i => existsb (Nat.eqb i) l) (seq 0 n).
Definition x_to_nat (x : xnum) : option nat :=
  match x with
  | XFin z => if ((z mod SCALE =? 0) && (0 <=? z))%Z then Some (Z.to_nat (z / SCALE)) else None
  | _ => None
  end.
Definition in_domb (sv : svar) (c : coord) : bool :=
  match sv, c with
  | SCont lo hi, CNum x => is_fin x && xleb lo x && xleb x hi
  | SDisc n, CNum x => is_int_in n x
  | SPerm n, CVec v => match map_opt x_to_nat v with Some l => is_permb n l | None => false end
  | _, _ => false
  end.

(* ---- decode: choices / items are referred to by their index in the declared list (choices) or in
   the label encoder's order (items) *)
Inductive dval := DNum (x : xnum) | DChoice (i : Z) | DItems (l : list nat) | DList (l : list dval).
Definition decode1 (sv : svar) (c : coord) : option dval :=
  match sv, c with
  | SCont _ _, CNum x => Some (DNum x)
  | SCont _ _, CVec v => Some (DList (map DNum v))          (* identity on whatever it is given *)
  | SDisc n, CNum x =>                                      (* self.choices[int(value)], Python indexing *)
      match xtrunc x with
      | Some k => if ((- Z.of_nat n <=? k) && (k <? Z.of_nat n))%Z
                  then Some (DChoice (if (k <? 0)%Z then k + Z.of_nat n else k)%Z) else None
      | None => None
      end
  | SDisc _, CVec _ => None
  | SPerm n, CVec v => Some (DItems (correct_perm_of (argsort v)))
  | SPerm n, CNum x => Some (DItems [0])
  end.

(* ---- random sampling: the draws are numpy's, constrained by its documented ranges *)
Definition draw_ok (sv : svar) (c : coord) : Prop :=
  match sv, c with
  | SCont lo hi, CNum x => is_fin x = true /\ xleb lo x = true /\ xleb x hi = true     (* uniform(lo, hi) *)
  | SDisc n, CNum x => is_int_in n x = true                                             (* choice(range(n)) *)
  | SPerm n, CVec v => exists l, v = nats_x l /\ is_permb n l = true                    (* permutation(range(n)) *)
  | _, _ => False
  end.

(* ============================================================ task level (C14) *)
Definition task := list (nat * var).        (* (name id, variable); names are compared by id *)

Definition dimension (t : task) : nat := list_sum (map (fun nv => size (snd nv)) t).
Definition flat_vars (t : task) : list svar := flat_map (fun nv => children (snd nv)) t.

(* one (lower, upper) entry per coordinate, as Task.get_bounds assembles them from the variables' own
   get_bounds(); a permutation coordinate has vector bounds (zeros, n - 1e-4), kept symbolic *)
Inductive bnd := BNum (lo hi : xnum) | BPerm (n : nat).
Definition BIN_HI : xnum := mk 9007199254740991 (-52).      (* 2 - eps: BinaryVariable's upper bound *)
Definition var_bounds (v : var) : list bnd :=
  match v with
  | VCont lo hi => [BNum lo hi]
  | VContMulti los his | VMultiObj los his => map (fun p => BNum (fst p) (snd p)) (zip los his)
  | VDisc n => [BNum (xint 0) (disc_hi n)]
  | VDiscMulti ns => map (fun n => BNum (xint 0) (disc_hi n)) ns
  | VBinary k => repeat (BNum (xint 0) BIN_HI) (Z.to_nat k)
  | VPerm n => [BPerm n]
  end.
Definition bounds (t : task) : list bnd := flat_map (fun nv => var_bounds (snd nv)) t.
(* the two sides of a variable's own bounds, each as a list (a scalar variable contributes one entry): what `v.get_bounds()` hands to Task.get_bounds after the
   `x if v.has_children() else [x]` normalisation *)
Inductive bside := BSNum (x : xnum) | BSPermLo (n : nat) | BSPermHi (n : nat).
Definition lower_of (b : bnd) : bside := match b with BNum lo _ => BSNum lo | BPerm n => BSPermLo n end.
Definition upper_of (b : bnd) : bside := match b with BNum _ hi => BSNum hi | BPerm n => BSPermHi n end.
(* a child's own get_bounds() *)
Definition sv_bounds (sv : svar) : bside * bside :=
  match sv with
  | SCont lo hi => (BSNum lo, BSNum hi)
  | SDisc n => (BSNum (xint 0), BSNum (disc_hi n))
  | SPerm n => (BSPermLo n, BSPermHi n)
  end.
Definition lowers (v : var) : list bside := map lower_of (var_bounds v).
Definition uppers (v : var) : list bside := map upper_of (var_bounds v).

(* correct_solution: zip(solution, variables) truncates to the shorter of the two *)
Definition correct_solution (t : task) (x : list coord) : option (list coord) :=
  map_opt (fun p => correct1 (snd p) (fst p)) (zip x (flat_vars t)).

Definition in_spaceb (t : task) (x : list coord) : bool :=
  Nat.eqb (length x) (dimension t) && forallb (fun p => in_domb (snd p) (fst p)) (zip x (flat_vars t)).

(* transform_solution: one entry per variable, keyed by its name, holding that variable's decoded
   slice.  Multi-variables decode their slice child by child (IndexError / None if it is short). *)
Definition decode_var (v : var) (slice : list coord) : option dval :=
  if has_children v then
    if length slice <? length (children v) then None
    else option_map DList (map_opt (fun p => decode1 (fst p) (snd p)) (zip (children v) slice))
  else match children v, slice with
       | [sv], c :: _ => decode1 sv c
       | _, _ => None                                       (* temp[0] on an empty slice: IndexError *)
       end.
Fixpoint transform_from (t : task) (x : list coord) : option (list (nat * dval)) :=
  match t with
  | [] => Some []
  | (name, v) :: rest =>
      match decode_var v (firstn (size v) x), transform_from rest (skipn (size v) x) with
      | Some d, Some r => Some ((name, d) :: r)
      | _, _ => None
      end
  end.
(* a dict keeps the LAST value stored under a key, at the position of the key's FIRST insertion *)
Fixpoint dict_set {V} (k : nat) (v : V) (d : list (nat * V)) : list (nat * V) :=
  match d with
  | [] => [(k, v)]
  | (k', v') :: r => if Nat.eqb k k' then (k, v) :: r else (k', v') :: dict_set k v r
  end.
Definition to_dict {V} (l : list (nat * V)) : list (nat * V) := fold_left (fun d kv => dict_set (fst kv) (snd kv) d) l [].
Definition transform_solution (t : task) (x : list coord) : option (list (nat * dval)) :=
  option_map to_dict (transform_from t x).
