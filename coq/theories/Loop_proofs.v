(* Loop_proofs.v — what a run of the optimize() schema computes (used by C03, C04, C08, C10, C17, C06). *)
From Coq Require Import List Arith Bool Lia Permutation Sorted.
From PV Require Import Xnum Select PyLib Select_proofs Loop.
Import ListNotations.

Section Proofs.
Variable A : Type.
Variable cost : A -> xnum.
Variable with_cost : A -> xnum -> A.
Variable F : Type.
Variables (fsub : F -> F -> F) (fabs : F -> F) (fltb fleb : F -> F -> bool) (fzero fone : F).
Variable avg : list A -> F.
Variable H : Type.
Variable before_init : H -> H.
Variable init_pop : H -> H * list A.
Variable after_init : H -> list A -> H * list A.
Variable step : H -> nat -> list A -> H * list A.

Notation cfg := (cfg F).
Notation inst := (inst A F H).
Notation frame := (frame A F H).
Notation exec1 := (exec1 A cost with_cost F fsub fabs fltb fleb fzero fone avg H before_init init_pop after_init step).
Notation exec_flat := (exec_flat A cost with_cost F fsub fabs fltb fleb fzero fone avg H before_init init_pop after_init step).
Notation exec_while := (exec_while A cost with_cost F fsub fabs fltb fleb fzero fone avg H before_init init_pop after_init step).
Notation exec := (exec A cost with_cost F fsub fabs fltb fleb fzero fone avg H before_init init_pop after_init step).
Notation run := (run A cost with_cost F fsub fabs fltb fleb fzero fone avg H before_init init_pop after_init step).
Notation report := (report A cost with_cost).
Notation should_stop := (should_stop F fabs fltb fleb fzero).
Notation small_decrease := (small_decrease F fabs fltb fzero).

(* ------------------------------------------------------------------ the trajectory of a run *)
(* state after cycle n (n = 0: after _init_population and after_initialization) *)
Fixpoint traj (h0 : H) (p0 : list A) (n : nat) : H * list A :=
  match n with
  | 0 => (h0, p0)
  | S m => let '(h, p) := traj h0 p0 m in step h (S m) p
  end.

Section Criterion.
Variable r : nat -> F.       (* r k = convergence rate of cycle k, k >= 1 *)
Definition prev_rate (j : nat) : F := match j with 0 | 1 => fzero | _ => r (j - 1) end.
Definition change (j : nat) : F := fsub (r j) (prev_rate j).
Definition rates_upto (k : nat) := map r (seq 1 k).
Definition changes_upto (k : nat) := map change (seq 1 k).
(* the declarative criterion, written from the property text: cycle k stops iff
   the budget is reached, or the last `patience` changes are all small decreases, or the rate is <= fitness_error *)
Definition crit (c : cfg) (k : nat) : bool :=
  (max_cycles c <=? k)
  || match early c with Some e => forallb (small_decrease (min_delta e)) (lastn (patience e) (changes_upto k)) | None => false end
  || match fitness_error c with Some fe => fleb (r k) fe | None => false end.

Lemma seq_snoc k : seq 1 (S k) = seq 1 k ++ [S k].
Proof. rewrite seq_S. reflexivity. Qed.
Lemma rates_snoc k : rates_upto (S k) = rates_upto k ++ [r (S k)].
Proof. unfold rates_upto. rewrite seq_snoc, map_app. reflexivity. Qed.
Lemma changes_snoc k : changes_upto (S k) = changes_upto k ++ [change (S k)].
Proof. unfold changes_upto. rewrite seq_snoc, map_app. reflexivity. Qed.
Lemma last_rates k : last (rates_upto k) fzero = prev_rate (S k).
Proof.
  destruct k as [|k]; [reflexivity|]. rewrite rates_snoc, last_last. unfold prev_rate.
  replace (S (S k) - 1) with (S k) by lia. reflexivity.
Qed.
Lemma rates_length k : length (rates_upto k) = k.
Proof. unfold rates_upto. rewrite map_length, seq_length. reflexivity. Qed.
End Criterion.

(* ------------------------------------------------------------------ special agents on a non-empty population *)
Lemma special_nonempty (p : list A) : p <> [] ->
  exists b w, special_agents cost (Some 1) (Some 1) MIN p = Some ([b], [w]) /\ best_agent cost MIN p = Some b.
Proof.
  intros Hne. unfold special_agents.
  assert (Hl : 1 <= length p) by (destruct p; [congruence|cbn; lia]).
  pose proof (best_length A cost 1 MIN p Hl) as Hb. pose proof (worst_length A cost 1 MIN p Hl) as Hw.
  unfold best_agent.
  destruct (best_agents cost 1 MIN p) as [|b [|? ?]]; cbn in Hb; try lia.
  destruct (worst_agents cost 1 MIN p) as [|w [|? ?]]; cbn in Hw; try lia.
  exists b, w. auto.
Qed.
Lemma special_empty : special_agents cost (Some 1) (Some 1) MIN ([] : list A) = Some ([], []).
Proof. reflexivity. Qed.

(* ------------------------------------------------------------------ one pass through the loop body *)
Definition body : list stmt := [ SStep; SSnapshot; SSpecial 1 1; SErrorCheck; SBreakIfStop; SIncCycle ].

Variable ar : args.
Variable c : cfg.

Lemma body_pass (fr : frame) h' p' b w :
  i_config _ _ _ (f_inst _ _ _ fr) = Some c ->
  step (i_hidden _ _ _ (f_inst _ _ _ fr)) (i_cycle _ _ _ (f_inst _ _ _ fr)) (i_pop _ _ _ (f_inst _ _ _ fr)) = (h', p') ->
  special_agents cost (Some 1) (Some 1) MIN p' = Some ([b], [w]) ->
  let i := f_inst _ _ _ fr in
  let cur := fabs (fsub fone (avg p')) in
  let e' := i_errors _ _ _ i ++ [cur] in
  let d' := i_diffs _ _ _ i ++ [fsub cur (last (i_errors _ _ _ i) fzero)] in
  let stop := should_stop c (i_cycle _ _ _ i) d' cur in
  exists fr', exec_flat ar body fr = (fr', if stop then Break else Normal) /\
    f_evolution _ _ _ fr' = f_evolution _ _ _ fr ++ [map (report (a_dir ar)) p'] /\
    f_steps _ _ _ fr' = S (f_steps _ _ _ fr) /\
    i_config _ _ _ (f_inst _ _ _ fr') = Some c /\
    i_cycle _ _ _ (f_inst _ _ _ fr') = (if stop then i_cycle _ _ _ i else S (i_cycle _ _ _ i)) /\
    i_errors _ _ _ (f_inst _ _ _ fr') = e' /\ i_diffs _ _ _ (f_inst _ _ _ fr') = d' /\
    i_pop _ _ _ (f_inst _ _ _ fr') = p' /\ i_hidden _ _ _ (f_inst _ _ _ fr') = h' /\
    i_best _ _ _ (f_inst _ _ _ fr') = Some b /\
    i_mode _ _ _ (f_inst _ _ _ fr') = i_mode _ _ _ i /\ i_workers _ _ _ (f_inst _ _ _ fr') = i_workers _ _ _ i.
Proof.
  intros Hc Hs Hsp. cbn zeta. destruct fr as [i evo st steps]. cbn [f_inst f_evolution f_steps f_stop] in *.
  unfold body, Loop.exec_flat. unfold Loop.exec1 at 1. cbn [f_inst]. rewrite Hs.
  unfold Loop.exec1 at 1. cbn [f_inst f_evolution f_stop f_steps i_pop].
  unfold Loop.exec1 at 1. cbn [f_inst i_pop]. rewrite Hsp. unfold upd_inst. cbn [f_inst f_evolution f_stop f_steps].
  unfold Loop.exec1 at 1. cbn [f_inst i_config]. rewrite Hc. unfold error_check. cbn [i_cycle i_errors i_diffs i_pop].
  unfold Loop.exec1 at 1. cbn [f_stop].
  destruct (should_stop c (i_cycle A F H i) _ _) eqn:Est.
  - eexists. split; [reflexivity|]. cbn. repeat split; reflexivity.
  - unfold Loop.exec1 at 1. unfold upd_inst. cbn [f_inst f_evolution f_stop f_steps].
    eexists. split; [reflexivity|]. cbn. repeat split; reflexivity.
Qed.

(* a failing pass: the new population is empty, the unpacking of special_agents raises *)
Lemma body_pass_empty (fr : frame) h' :
  step (i_hidden _ _ _ (f_inst _ _ _ fr)) (i_cycle _ _ _ (f_inst _ _ _ fr)) (i_pop _ _ _ (f_inst _ _ _ fr)) = (h', []) ->
  exists fr', exec_flat ar body fr = (fr', Raise) /\ f_steps _ _ _ fr' = S (f_steps _ _ _ fr).
Proof.
  intros Hs. destruct fr as [i evo st steps]. cbn [f_inst] in *.
  unfold body, Loop.exec_flat. unfold Loop.exec1 at 1. cbn [f_inst]. rewrite Hs.
  unfold Loop.exec1 at 1. cbn [f_inst f_evolution f_stop f_steps i_pop].
  unfold Loop.exec1 at 1. cbn [f_inst i_pop]. rewrite special_empty.
  eexists. split; [reflexivity|]. reflexivity.
Qed.

(* ------------------------------------------------------------------ the whole loop *)
Section Loop0.
Variables (h0 : H) (p0 : list A).      (* state when the loop is entered *)
Definition pop_at (n : nat) : list A := snd (traj h0 p0 n).
Definition rate (k : nat) : F := fabs (fsub fone (avg (pop_at k))).
Definition gens (d : dir) (k : nat) : list (list A) := map (fun j => map (report d) (pop_at j)) (seq 1 k).

Lemma gens_snoc d k : gens d (S k) = gens d k ++ [map (report d) (pop_at (S k))].
Proof. unfold gens. rewrite seq_snoc, map_app. reflexivity. Qed.

Definition Inv (evo0 : list (list A)) (k : nat) (fr : frame) : Prop :=
  let i := f_inst _ _ _ fr in
  1 <= k /\ i_config _ _ _ i = Some c /\ i_cycle _ _ _ i = k /\
  i_errors _ _ _ i = rates_upto rate (k - 1) /\ i_diffs _ _ _ i = changes_upto rate (k - 1) /\
  (i_hidden _ _ _ i, i_pop _ _ _ i) = traj h0 p0 (k - 1) /\
  f_evolution _ _ _ fr = evo0 ++ gens (a_dir ar) (k - 1) /\ f_steps _ _ _ fr = k - 1.

Theorem while_stops_at_first evo0 : 1 <= max_cycles c ->
  forall fuel k fr, Inv evo0 k fr -> k + fuel = S (max_cycles c) -> 1 <= fuel ->
    (forall j, 1 <= j < k -> crit rate c j = false) ->
    (forall j, 1 <= j <= max_cycles c -> (forall j', 1 <= j' < j -> crit rate c j' = false) -> pop_at j <> []) ->
  exists K fr', exec_while fuel ar body fr = Some (fr', Normal) /\
    k <= K <= max_cycles c /\ crit rate c K = true /\ (forall j, 1 <= j < K -> crit rate c j = false) /\
    f_evolution _ _ _ fr' = evo0 ++ gens (a_dir ar) K /\ f_steps _ _ _ fr' = K /\
    i_errors _ _ _ (f_inst _ _ _ fr') = rates_upto rate K /\
    i_cycle _ _ _ (f_inst _ _ _ fr') = K /\
    i_pop _ _ _ (f_inst _ _ _ fr') = pop_at K /\
    i_best _ _ _ (f_inst _ _ _ fr') = best_agent cost MIN (pop_at K) /\
    i_mode _ _ _ (f_inst _ _ _ fr') = i_mode _ _ _ (f_inst _ _ _ fr) /\
    i_workers _ _ _ (f_inst _ _ _ fr') = i_workers _ _ _ (f_inst _ _ _ fr).
Proof.
  intros Hm fuel. induction fuel as [|f IH]; intros k fr HI Hf H1 Hlt Hne; [lia|].
  destruct HI as (Hk & Hc & Hcy & He & Hd & Ht & Hev & Hst).
  cbn [Loop.exec_while].
  destruct (step (i_hidden _ _ _ (f_inst _ _ _ fr)) (i_cycle _ _ _ (f_inst _ _ _ fr)) (i_pop _ _ _ (f_inst _ _ _ fr))) as [h' p'] eqn:Es.
  assert (Hp' : traj h0 p0 k = (h', p')).
  { destruct k as [|k']; [lia|]. cbn [traj]. replace (S k' - 1) with k' in Ht by lia. rewrite <- Ht, <- Hcy. exact Es. }
  assert (Hpk : pop_at k = p') by (unfold pop_at; rewrite Hp'; reflexivity).
  assert (Hnek : p' <> []). { rewrite <- Hpk. apply Hne; [lia|]. intros j' Hj'. apply Hlt; lia. }
  destruct (special_nonempty p' Hnek) as (b & w & Hsp & Hb).
  destruct (body_pass fr h' p' b w Hc Es Hsp) as (fr1 & Ex & E1 & E2 & E3 & E4 & E5 & E6 & E7 & E8 & E9 & E10 & E11).
  rewrite Ex.
  (* the stop flag computed by the code is the declarative criterion at cycle k *)
  assert (Hcrit : should_stop c (i_cycle _ _ _ (f_inst _ _ _ fr))
            (i_diffs _ _ _ (f_inst _ _ _ fr) ++ [fsub (fabs (fsub fone (avg p'))) (last (i_errors _ _ _ (f_inst _ _ _ fr)) fzero)])
            (fabs (fsub fone (avg p'))) = crit rate c k).
  { destruct k as [|k']; [lia|]. replace (S k' - 1) with k' in * by lia.
    unfold Loop.should_stop, crit. rewrite Hcy, Hd, He, last_rates, changes_snoc.
    unfold change, rate. rewrite Hpk. reflexivity. }
  rewrite Hcrit in *.
  assert (Erates : i_errors _ _ _ (f_inst _ _ _ fr1) = rates_upto rate k).
  { rewrite E5, He. destruct k as [|k']; [lia|]. replace (S k' - 1) with k' by lia.
    rewrite rates_snoc. unfold rate. rewrite Hpk. reflexivity. }
  assert (Ediffs : i_diffs _ _ _ (f_inst _ _ _ fr1) = changes_upto rate k).
  { rewrite E6, Hd, He. destruct k as [|k']; [lia|]. replace (S k' - 1) with k' by lia.
    rewrite changes_snoc, last_rates. unfold change, rate. rewrite Hpk. reflexivity. }
  assert (Eevo : f_evolution _ _ _ fr1 = evo0 ++ gens (a_dir ar) k).
  { rewrite E1, Hev. destruct k as [|k']; [lia|]. replace (S k' - 1) with k' by lia.
    rewrite gens_snoc, Hpk, app_assoc. reflexivity. }
  destruct (crit rate c k) eqn:Ecr.
  - exists k, fr1. split; [reflexivity|].
    repeat split; auto; try lia; try (rewrite E2, Hst; lia); try (rewrite E4; exact Hcy);
      try (rewrite E7; auto); try (rewrite E9, Hpk; auto).
  - destruct f as [|f'].
    + exfalso. assert (Hk' : (max_cycles c <=? k) = true) by (apply Nat.leb_le; lia).
      unfold crit in Ecr. rewrite Hk' in Ecr. discriminate.
    + destruct (IH (S k) fr1) as (K & fr' & X1 & X2 & X3 & X4 & X5 & X6 & X7 & X8 & X9 & X10 & X11 & X12); try lia.
      * unfold Inv. cbn zeta. replace (S k - 1) with k by lia.
        repeat split; auto; try lia; try (rewrite E4, Hcy; reflexivity);
          try (rewrite E8, E7; symmetry; exact Hp'); try (rewrite E2, Hst; lia).
      * intros j Hj. destruct (Nat.eq_dec j k); [subst; auto|apply Hlt; lia].
      * exact Hne.
      * exists K, fr'. split; [exact X1|]. repeat split; auto; try lia; congruence.
Qed.

End Loop0.

Definition valid_args : Prop := a_mode ar <> Some None /\ a_workers ar <> Some None.

(* ---- invalid calls are rejected before any cycle runs *)
Theorem no_config_rejected fuel (i : inst) :
  i_config _ _ _ i = None -> run fuel optimize_schema ar i = ErrValue A F H 0.
Proof. intros Hc. unfold Loop.run, optimize_schema. cbn [Loop.exec]. unfold Loop.exec1 at 1. cbn [f_inst]. rewrite Hc. reflexivity. Qed.

Theorem bad_workers_rejected fuel (i : inst) :
  i_config _ _ _ i = Some c -> a_workers ar = Some None -> run fuel optimize_schema ar i = ErrValue A F H 0.
Proof.
  intros Hc Hw. unfold Loop.run, optimize_schema. cbn [Loop.exec].
  unfold Loop.exec1 at 1. cbn [f_inst]. rewrite Hc.
  cbn [Loop.exec1 f_inst f_evolution f_stop f_steps upd_inst]. rewrite Hw. reflexivity.
Qed.

Theorem bad_mode_rejected fuel (i : inst) :
  i_config _ _ _ i = Some c -> a_workers ar <> Some None -> a_mode ar = Some None ->
  run fuel optimize_schema ar i = ErrValue A F H 0.
Proof.
  intros Hc Hw Hm. unfold Loop.run, optimize_schema. cbn [Loop.exec].
  unfold Loop.exec1 at 1. cbn [f_inst]. rewrite Hc.
  cbn [Loop.exec1 f_inst f_evolution f_stop f_steps upd_inst].
  destruct (a_workers ar) as [[w|]|]; try congruence;
    cbn [Loop.exec1 f_inst f_evolution f_stop f_steps upd_inst]; rewrite Hm; reflexivity.
Qed.

(* ---- a valid call *)
Definition prologue : list stmt :=
  [ SCheckConfig; SSeed; SInitEvolution; SResetCycle; SResetErrors; SResetDiffs; SWorkers; SMode; SSetTask;
    SBeforeInit; SInitPop; SSnapshot; SSpecial 1 1; SAfterInit ].
Lemma schema_split : optimize_schema = prologue ++ [SWhile (body); SReturn].
Proof. reflexivity. Qed.

Definition no_while (s : stmt) : bool := match s with SWhile _ => false | _ => true end.
Lemma exec_prefix fuel l1 l2 fr : forallb no_while l1 = true ->
  exec fuel ar (l1 ++ l2) fr =
  match exec_flat ar l1 fr with (fr', Normal) => exec fuel ar l2 fr' | other => Some other end.
Proof.
  revert fr. induction l1 as [|s t IH]; intros fr Hn; [reflexivity|].
  cbn in Hn. apply andb_true_iff in Hn as [Hs Ht].
  cbn [app Loop.exec Loop.exec_flat]. destruct s; try discriminate;
  (destruct (exec1 _ _ fr) as [fr' [| | |]]; auto).
Qed.

Local Opaque special_agents.
Lemma prologue_spec (i : inst) :
  i_config _ _ _ i = Some c -> valid_args ->
  let hb := before_init (i_hidden _ _ _ i) in
  let h1 := fst (init_pop hb) in let pinit := snd (init_pop hb) in
  let h0 := fst (after_init h1 pinit) in let p0 := snd (after_init h1 pinit) in
  pinit <> [] ->
  exists fr', exec_flat ar prologue {| f_inst := i; f_evolution := []; f_stop := false; f_steps := 0 |} = (fr', Normal) /\
    Inv h0 p0 [map (report (a_dir ar)) pinit] 1 fr' /\
    i_mode _ _ _ (f_inst _ _ _ fr') = match a_mode ar with Some (Some m) => m | _ => i_mode _ _ _ i end /\
    i_workers _ _ _ (f_inst _ _ _ fr') = match a_workers ar with Some (Some w) => w | _ => i_workers _ _ _ i end.
Proof.
  intros Hc [Hm Hw]. cbn zeta. intros Hne.
  set (hb := before_init (i_hidden _ _ _ i)) in *.
  destruct (init_pop hb) as [h1 pinit] eqn:Ei. cbn [fst snd] in *.
  destruct (after_init h1 pinit) as [h0 p0] eqn:Ea. cbn [fst snd] in *.
  destruct (special_nonempty pinit Hne) as (b0 & w0 & Hsp0 & _).
  unfold prologue. destruct i as [cf cy er di po be wo mo wk hi]. cbn in Hc. subst cf. cbn in hb.
  destruct (a_workers ar) as [[w|]|] eqn:Ew; try congruence;
  destruct (a_mode ar) as [[m|]|] eqn:Em; try congruence;
  cbn; rewrite ?Ew, ?Em; cbn; fold hb; rewrite Ei; cbn; rewrite Hsp0; cbn; rewrite Ea; cbn;
  (eexists; split; [reflexivity|]); unfold Inv; cbn; repeat split; auto.
Qed.
Local Transparent special_agents.

Theorem optimize_spec (i : inst) :
  i_config _ _ _ i = Some c -> valid_args -> 1 <= max_cycles c ->
  let hb := before_init (i_hidden _ _ _ i) in
  let h1 := fst (init_pop hb) in let pinit := snd (init_pop hb) in
  let h0 := fst (after_init h1 pinit) in let p0 := snd (after_init h1 pinit) in
  pinit <> [] ->
  (forall j, 1 <= j <= max_cycles c -> (forall j', 1 <= j' < j -> crit (rate h0 p0) c j' = false) -> pop_at h0 p0 j <> []) ->
  exists K r i',
    run (max_cycles c) optimize_schema ar i = Done A F H r i' K /\
    1 <= K <= max_cycles c /\
    crit (rate h0 p0) c K = true /\ (forall j, 1 <= j < K -> crit (rate h0 p0) c j = false) /\
    r_evolution _ _ r = map (report (a_dir ar)) pinit :: gens h0 p0 (a_dir ar) K /\
    r_rates _ _ r = rates_upto (rate h0 p0) K /\
    r_best _ _ r = option_map (report (a_dir ar)) (best_agent cost MIN (pop_at h0 p0 K)) /\
    i_cycle _ _ _ i' = K /\ i_errors _ _ _ i' = rates_upto (rate h0 p0) K /\
    i_mode _ _ _ i' = match a_mode ar with Some (Some m) => m | _ => i_mode _ _ _ i end /\
    i_workers _ _ _ i' = match a_workers ar with Some (Some w) => w | _ => i_workers _ _ _ i end.
Proof.
  intros Hc Hv Hmax. cbn zeta. intros Hne Hpops.
  destruct (prologue_spec i Hc Hv Hne) as (fr1 & E1 & HI & Hmo & Hwo).
  unfold Loop.run. rewrite schema_split, exec_prefix by reflexivity. rewrite E1.
  cbn [Loop.exec].
  assert (Hf : 1 + max_cycles c = S (max_cycles c)) by lia.
  assert (Hlt : forall j, 1 <= j < 1 -> crit (rate (fst (after_init (fst (init_pop (before_init (i_hidden _ _ _ i)))) (snd (init_pop (before_init (i_hidden _ _ _ i))))))
                                              (snd (after_init (fst (init_pop (before_init (i_hidden _ _ _ i)))) (snd (init_pop (before_init (i_hidden _ _ _ i))))))) c j = false)
    by (intros; lia).
  destruct (while_stops_at_first _ _ _ Hmax (max_cycles c) 1 fr1 HI Hf Hmax Hlt Hpops) as
    (K & fr' & X1 & X2 & X3 & X4 & X5 & X6 & X7 & X8 & X9 & X10 & X11 & X12).
  rewrite X1. cbn [Loop.exec Loop.exec1]. rewrite X6.
  exists K. eexists. eexists. split; [reflexivity|].
  cbn [r_evolution r_rates r_best]. repeat split; auto; try lia; try congruence;
    try (rewrite X10; reflexivity).
Qed.


End Proofs.
