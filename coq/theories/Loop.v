(* Loop.v — executable model of OptimizationAbstract.optimize(): an interpreter for the statement
   schema that T-core extracts from the method's body (gen/GenSchema.v), the stop rule
   (__error_check__ / __should_stop__), and the explicit functional form [run_fun] that the
   interpreter is proved equal to on the expected schema (Loop_proofs.v).
   Generic in the agent type A, in the float carrier F of fitness / rates (instantiated with
   PrimFloat for the correspondence runs) and in the optimizer: hidden state H, init_pop, hooks, step. *)
From Coq Require Import List Arith Bool.
From PV Require Import Xnum Select PyLib.
Import ListNotations.

Inductive stmt :=
| SCheckConfig            (* if not self._config: raise ValueError *)
| SSeed                   (* np.random.seed(task.seed) *)
| SInitEvolution          (* evolution = [] *)
| SResetCycle | SResetErrors | SResetDiffs     (* the per-run bookkeeping *)
| SWorkers | SMode        (* argument validation *)
| SSetTask
| SBeforeInit | SInitPop | SAfterInit
| SSnapshot               (* evolution.append(Population(agents=self._population, task_type=...)) *)
| SSpecial (nb nw : nat)  (* (best,), (worst,) = special_agents(pop, n_best=nb, n_worst=nw) *)
| SWhile (body : list stmt)
| SStep | SErrorCheck | SBreakIfStop | SIncCycle
| SReturn
| SUnknown.               (* a statement the extractor gives no meaning to *)

Section Stop.
Variable F : Type.
Variables (fsub : F -> F -> F) (fabs : F -> F) (fltb fleb : F -> F -> bool) (fzero fone : F).

Record es := { patience : nat; min_delta : F }.
Record cfg := { population_size : nat; max_cycles : nat; fitness_error : option F; early : option es }.

Definition small_decrease (md d : F) : bool := fltb d fzero && fltb (fabs d) md.

(* what the code does (hand model; gen/GenStop.v is bridged to it) *)
Definition should_stop (c : cfg) (cycle : nat) (diffs : list F) (cur : F) : bool :=
  (max_cycles c <=? cycle)
  || match early c with Some e => forallb (small_decrease (min_delta e)) (lastn (patience e) diffs) | None => false end
  || match fitness_error c with Some fe => fleb cur fe | None => false end.

(* __error_check__: returns (current_error, stop?, errors', diffs') *)
Definition error_check (c : cfg) (cycle : nat) (errors diffs : list F) (avg_fit : F) : F * bool * list F * list F :=
  let cur := fabs (fsub fone avg_fit) in
  let prev := last errors fzero in
  let errors' := errors ++ [cur] in
  let diffs' := diffs ++ [fsub cur prev] in
  (cur, should_stop c cycle diffs' cur, errors', diffs').
End Stop.

Arguments patience {F}. Arguments min_delta {F}.
Arguments population_size {F}. Arguments max_cycles {F}. Arguments fitness_error {F}. Arguments early {F}.

Section Loop.
Variable A : Type.
Variable cost : A -> xnum.
Variable with_cost : A -> xnum -> A.          (* model_copy(update={"cost": c}) *)
Variable F : Type.
Variables (fsub : F -> F -> F) (fabs : F -> F) (fltb fleb : F -> F -> bool) (fzero fone : F).
Variable avg : list A -> F.                   (* np.average of the agents' fitness *)

(* the optimizer: hidden state (private fields, RNG), hooks and step *)
Variable H : Type.
Variable before_init : H -> H.
Variable init_pop : H -> H * list A.
Variable after_init : H -> list A -> H * list A.
Variable step : H -> nat -> list A -> H * list A.     (* the cycle number is visible to the step *)

Notation cfg := (cfg F).

(* Population(agents, task_type) / OptimizationResult: the sign of the cost is restored for MAX *)
Definition report (d : dir) (a : A) : A := match d with MIN => a | MAX => with_cost a (xneg (cost a)) end.

Record inst := {                      (* the optimizer instance's base-class fields *)
  i_config : option cfg;
  i_cycle : nat; i_errors : list F; i_diffs : list F;
  i_pop : list A; i_best : option A; i_worst : option A;
  i_mode : mode; i_workers : nat;
  i_hidden : H }.

Record args := { a_dir : dir; a_mode : option (option mode);     (* None: not given; Some None: unknown string *)
                 a_workers : option (option nat) }.              (* Some None: a non-positive number *)

Record result := { r_evolution : list (list A); r_rates : list F; r_best : option A }.

Inductive outcome := Done (r : result) (i : inst) (steps : nat)
                   | ErrValue (steps : nat)          (* ValueError raised (after `steps` optimization steps) *)
                   | OutOfFuel.

Record frame := { f_inst : inst; f_evolution : list (list A); f_stop : bool; f_steps : nat }.
Inductive flow := Normal | Break | Return | Raise.

Definition upd_inst (fr : frame) (i : inst) : frame :=
  {| f_inst := i; f_evolution := f_evolution fr; f_stop := f_stop fr; f_steps := f_steps fr |}.

Definition exec1 (ar : args) (s : stmt) (fr : frame) : frame * flow :=
  let i := f_inst fr in
  match s with
  | SCheckConfig => match i_config i with None => (fr, Raise) | Some _ => (fr, Normal) end
  | SSeed => (fr, Normal)                       (* seeds the numpy stream: part of the hidden state's environment *)
  | SInitEvolution =>
      ({| f_inst := i; f_evolution := []; f_stop := f_stop fr; f_steps := f_steps fr |}, Normal)
  | SResetCycle => (upd_inst fr {| i_config := i_config i; i_cycle := 1; i_errors := i_errors i; i_diffs := i_diffs i;
        i_pop := i_pop i; i_best := i_best i; i_worst := i_worst i; i_mode := i_mode i; i_workers := i_workers i; i_hidden := i_hidden i |}, Normal)
  | SResetErrors => (upd_inst fr {| i_config := i_config i; i_cycle := i_cycle i; i_errors := []; i_diffs := i_diffs i;
        i_pop := i_pop i; i_best := i_best i; i_worst := i_worst i; i_mode := i_mode i; i_workers := i_workers i; i_hidden := i_hidden i |}, Normal)
  | SResetDiffs => (upd_inst fr {| i_config := i_config i; i_cycle := i_cycle i; i_errors := i_errors i; i_diffs := [];
        i_pop := i_pop i; i_best := i_best i; i_worst := i_worst i; i_mode := i_mode i; i_workers := i_workers i; i_hidden := i_hidden i |}, Normal)
  | SWorkers => match a_workers ar with
      | None => (fr, Normal)
      | Some None => (fr, Raise)
      | Some (Some w) => (upd_inst fr {| i_config := i_config i; i_cycle := i_cycle i; i_errors := i_errors i; i_diffs := i_diffs i;
          i_pop := i_pop i; i_best := i_best i; i_worst := i_worst i; i_mode := i_mode i; i_workers := w; i_hidden := i_hidden i |}, Normal)
      end
  | SMode => match a_mode ar with
      | None => (fr, Normal)
      | Some None => (fr, Raise)
      | Some (Some m) => (upd_inst fr {| i_config := i_config i; i_cycle := i_cycle i; i_errors := i_errors i; i_diffs := i_diffs i;
          i_pop := i_pop i; i_best := i_best i; i_worst := i_worst i; i_mode := m; i_workers := i_workers i; i_hidden := i_hidden i |}, Normal)
      end
  | SSetTask => (fr, Normal)
  | SBeforeInit => (upd_inst fr {| i_config := i_config i; i_cycle := i_cycle i; i_errors := i_errors i; i_diffs := i_diffs i;
        i_pop := i_pop i; i_best := i_best i; i_worst := i_worst i; i_mode := i_mode i; i_workers := i_workers i;
        i_hidden := before_init (i_hidden i) |}, Normal)
  | SInitPop => let '(h, p) := init_pop (i_hidden i) in
      (upd_inst fr {| i_config := i_config i; i_cycle := i_cycle i; i_errors := i_errors i; i_diffs := i_diffs i;
        i_pop := p; i_best := i_best i; i_worst := i_worst i; i_mode := i_mode i; i_workers := i_workers i; i_hidden := h |}, Normal)
  | SAfterInit => let '(h, p) := after_init (i_hidden i) (i_pop i) in
      (upd_inst fr {| i_config := i_config i; i_cycle := i_cycle i; i_errors := i_errors i; i_diffs := i_diffs i;
        i_pop := p; i_best := i_best i; i_worst := i_worst i; i_mode := i_mode i; i_workers := i_workers i; i_hidden := h |}, Normal)
  | SSnapshot =>
      ({| f_inst := i; f_evolution := f_evolution fr ++ [map (report (a_dir ar)) (i_pop i)];
          f_stop := f_stop fr; f_steps := f_steps fr |}, Normal)
  | SSpecial nb nw =>
      (* (best,), (worst,) = ...: ValueError unless each side has exactly one element *)
      match special_agents cost (Some nb) (Some nw) MIN (i_pop i) with
      | Some ([b], [w]) => (upd_inst fr {| i_config := i_config i; i_cycle := i_cycle i; i_errors := i_errors i; i_diffs := i_diffs i;
          i_pop := i_pop i; i_best := Some b; i_worst := Some w; i_mode := i_mode i; i_workers := i_workers i; i_hidden := i_hidden i |}, Normal)
      | _ => (fr, Raise)
      end
  | SStep => let '(h, p) := step (i_hidden i) (i_cycle i) (i_pop i) in
      ({| f_inst := {| i_config := i_config i; i_cycle := i_cycle i; i_errors := i_errors i; i_diffs := i_diffs i;
            i_pop := p; i_best := i_best i; i_worst := i_worst i; i_mode := i_mode i; i_workers := i_workers i; i_hidden := h |};
          f_evolution := f_evolution fr; f_stop := f_stop fr; f_steps := S (f_steps fr) |}, Normal)
  | SErrorCheck =>
      match i_config i with
      | None => (fr, Raise)
      | Some c =>
        let '(_, stop, e', d') := error_check F fsub fabs fltb fleb fzero fone c (i_cycle i) (i_errors i) (i_diffs i) (avg (i_pop i)) in
        ({| f_inst := {| i_config := i_config i; i_cycle := i_cycle i; i_errors := e'; i_diffs := d';
              i_pop := i_pop i; i_best := i_best i; i_worst := i_worst i; i_mode := i_mode i; i_workers := i_workers i; i_hidden := i_hidden i |};
            f_evolution := f_evolution fr; f_stop := stop; f_steps := f_steps fr |}, Normal)
      end
  | SBreakIfStop => (fr, if f_stop fr then Break else Normal)
  | SIncCycle => (upd_inst fr {| i_config := i_config i; i_cycle := S (i_cycle i); i_errors := i_errors i; i_diffs := i_diffs i;
        i_pop := i_pop i; i_best := i_best i; i_worst := i_worst i; i_mode := i_mode i; i_workers := i_workers i; i_hidden := i_hidden i |}, Normal)
  | SReturn => (fr, Return)
  | SUnknown => (fr, Raise)
  | SWhile _ => (fr, Normal)        (* handled by exec *)
  end.

(* straight-line execution of a loop body (no nested loops in the schema) *)
Fixpoint exec_flat (ar : args) (l : list stmt) (fr : frame) : frame * flow :=
  match l with
  | [] => (fr, Normal)
  | s :: t => match exec1 ar s fr with
              | (fr', Normal) => exec_flat ar t fr'
              | other => other
              end
  end.
(* while True: body — None = out of fuel *)
Fixpoint exec_while (fuel : nat) (ar : args) (body : list stmt) (fr : frame) : option (frame * flow) :=
  match fuel with
  | 0 => None
  | S f => match exec_flat ar body fr with
           | (fr', Normal) => exec_while f ar body fr'
           | (fr', Break) => Some (fr', Normal)
           | other => Some other
           end
  end.
Fixpoint exec (fuel : nat) (ar : args) (l : list stmt) (fr : frame) : option (frame * flow) :=
  match l with
  | [] => Some (fr, Normal)
  | SWhile body :: t =>
      match exec_while fuel ar body fr with
      | None => None
      | Some (fr', Normal) => exec fuel ar t fr'
      | Some other => Some other
      end
  | s :: t => match exec1 ar s fr with
              | (fr', Normal) => exec fuel ar t fr'
              | other => Some other
              end
  end.

Definition run (fuel : nat) (schema : list stmt) (ar : args) (i : inst) : outcome :=
  match exec fuel ar schema {| f_inst := i; f_evolution := []; f_stop := false; f_steps := 0 |} with
  | None => OutOfFuel
  | Some (fr, Return) =>
      Done {| r_evolution := f_evolution fr; r_rates := i_errors (f_inst fr);
              r_best := option_map (report (a_dir ar)) (i_best (f_inst fr)) |} (f_inst fr) (f_steps fr)
  | Some (fr, _) => ErrValue (f_steps fr)
  end.

End Loop.

(* the schema the theorems are about; gen/GenSchema.v (regenerated from abstract.py) is bridged to it *)
Definition optimize_schema : list stmt :=
  [ SCheckConfig; SSeed; SInitEvolution; SResetCycle; SResetErrors; SResetDiffs; SWorkers; SMode; SSetTask;
    SBeforeInit; SInitPop; SSnapshot; SSpecial 1 1; SAfterInit;
    SWhile [ SStep; SSnapshot; SSpecial 1 1; SErrorCheck; SBreakIfStop; SIncCycle ];
    SReturn ].
