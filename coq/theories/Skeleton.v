(* Skeleton.v — the structural skeleton T-algo extracts from each optimizer (gen/Algos.v) and the
   abstract machines that give its facts a meaning:
     * provenance machine  — where agent objects come from, whether core fields can be written
                             and whether the objective can be called directly        (C01, C02, C05, C15)
     * population machine  — what each population-write statement may do to the population (C10, C17)
   The numeric kernel of an optimizer is the oracle that picks the operations / candidates; every
   theorem (Skeleton_proofs.v) quantifies over all oracles. *)
From Coq Require Import String List ZArith Bool Arith.
Open Scope list_scope.
From PV Require Import Xnum Select PyLib Argsort Vars Init.
Import ListNotations.

Inductive greedy_kind := GMin | GGuarded | GOther.

Inductive popwrite :=
| WMap (elit : bool)        (* self._population = [f(a) for a in (enumerate)(self._population)]; elit: every f(a) is not worse than a *)
| WZipMap                   (* self._population and a partner list rebuilt together, pairwise, by one zip-comprehension *)
| WExtendTrim | WGreedyPop | WReplaceTrim
| WSortSelf
| WSetItem (elit : bool)    (* self._population[i] = x; elit: x = greedy(self._population[i], ..) *)
| WOther.                   (* anything else that edits the population *)

Record skeleton := {
  sk_name : string;
  sk_step : list popwrite; sk_after_init : list popwrite; sk_before_init : list popwrite;
  sk_init_pop_overridden : bool;
  sk_raw_sites : nat;            (* agent construction sites that are not `Cls( **x.model_dump(), non-core extras)` *)
  sk_core_writes : nat;          (* stores to .position/.cost/.fitness, in-place edits of a position list, model_copy(update=core) *)
  sk_objective_calls : nat;      (* direct calls of objective_function / solve / _fcn *)
  sk_reflection : nat;           (* setattr, __dict__, model_construct ... *)
  sk_init_agent_ok : bool;       (* _init_agent is the base one or a wrap of super()._init_agent(position) *)
  sk_greedy : greedy_kind;
  sk_config_writes : list string; sk_task_writes : list string;
  sk_stale : list string;        (* instance fields read before they are assigned in the same run *)
  sk_entropy : list string;      (* sources of randomness other than the seeded numpy stream *)
  sk_reads_fitness : bool; sk_reads_direction : bool;
  sk_ctor_deref : list string; sk_set_config_canonical : bool;
  sk_fingerprint : string }.

(* ------------------------------------------------------------------ conformance predicates *)
Definition conforms_prov (sk : skeleton) : bool :=
  Nat.eqb (sk_raw_sites sk) 0 && Nat.eqb (sk_core_writes sk) 0 && Nat.eqb (sk_objective_calls sk) 0
  && Nat.eqb (sk_reflection sk) 0 && sk_init_agent_ok sk.

(* the objective is reached only through _init_agent *)
Definition conforms_calls (sk : skeleton) : bool :=
  Nat.eqb (sk_objective_calls sk) 0 && Nat.eqb (sk_reflection sk) 0 && sk_init_agent_ok sk.

Definition elit_write (w : popwrite) : bool :=
  match w with WMap true | WExtendTrim | WGreedyPop | WSortSelf | WSetItem true => true | _ => false end.
Definition greedy_ok (g : greedy_kind) : bool := match g with GOther => false | _ => true end.
Definition elitist (sk : skeleton) : bool :=
  negb (match sk_step sk with [] => true | _ => false end) && forallb elit_write (sk_step sk) && greedy_ok (sk_greedy sk).

Definition size_known (w : popwrite) : bool :=
  match w with WMap _ | WZipMap | WExtendTrim | WGreedyPop | WSortSelf | WSetItem _ => true | WReplaceTrim | WOther => false end.
Definition size_regular (sk : skeleton) : bool :=
  negb (sk_init_pop_overridden sk) && forallb size_known (sk_step sk) && forallb size_known (sk_after_init sk)
  && forallb size_known (sk_before_init sk).

(* ------------------------------------------------------------------ provenance machine *)
Section Prov.
Variable W : Type.
Variable dot : list xnum -> list W -> xnum.
Variable FT : Type.
Variable fitness_of : xnum -> dir -> FT.
Variable obj : list coord -> objv.
Variables (t : task) (d : dir) (w : option (list W)).

Notation agent := (agent FT).

Inductive op :=
| OInit (raw : option (list coord)) (draw : list coord)      (* self._init_agent(raw): always available *)
| OCopy (i : nat)                                             (* model_copy() / Cls( **obj_i.model_dump(), extras): core fields unchanged *)
| ORaw (a : agent)                                            (* an agent built from explicit core fields: any agent at all *)
| OCoreWrite (i : nat) (a : agent)                            (* a store into the core fields of object i *)
| OEval (x : list coord).                                     (* a direct call of the objective *)

Definition licensed (sk : skeleton) (o : op) : bool :=
  match o with
  | OInit _ _ | OCopy _ => true
  | ORaw _ => negb (Nat.eqb (sk_raw_sites sk) 0) || negb (Nat.eqb (sk_reflection sk) 0) || negb (sk_init_agent_ok sk)
  | OCoreWrite _ _ => negb (Nat.eqb (sk_core_writes sk) 0) || negb (Nat.eqb (sk_reflection sk) 0)
  | OEval _ => negb (Nat.eqb (sk_objective_calls sk) 0)
  end.

Record pstate := { heap : list agent; calls : list (list coord) }.   (* every agent object ever built; every objective argument *)

Fixpoint set_nth {X} (i : nat) (x : X) (l : list X) : list X :=
  match l, i with
  | [], _ => []
  | _ :: r, 0 => x :: r
  | y :: r, S j => y :: set_nth j x r
  end.

Definition exec_op (s : pstate) (o : op) : pstate :=
  match o with
  | OInit raw draw =>
      match init_agent W dot FT fitness_of obj t d w raw draw with
      | Some (a, arg) => {| heap := heap s ++ [a]; calls := calls s ++ [arg] |}
      | None => s                                                         (* the call raised *)
      end
  | OCopy i => match nth_error (heap s) i with Some a => {| heap := heap s ++ [a]; calls := calls s |} | None => s end
  | ORaw a => {| heap := heap s ++ [a]; calls := calls s |}
  | OCoreWrite i a => {| heap := set_nth i a (heap s); calls := calls s |}
  | OEval x => {| heap := heap s; calls := calls s ++ [x] |}
  end.
Definition exec_ops (ops : list op) : pstate := fold_left exec_op ops {| heap := []; calls := [] |}.

(* the hypothesis left to the numeric kernels: every candidate handed to _init_agent has the right length and no NaN *)
Definition raw_ok (o : op) : Prop :=
  match o with
  | OInit raw draw => length (match raw with Some r => r | None => draw end) = dimension t /\
                      Forall (fun p => match snd p, fst p with
                                       | SCont _ _, CNum x | SDisc _, CNum x => non_nan x
                                       | SPerm n, CVec v => length v = n /\ Forall non_nan v
                                       | _, _ => False end)
                             (zip (match raw with Some r => r | None => draw end) (flat_vars t))
  | _ => True
  end.

(* what the properties say of one reported agent *)
Definition wf_agent (a : agent) : Prop :=
  in_spaceb t (a_pos a) = true /\
  Some (reported_cost FT d a) = user_cost W dot obj w (a_pos a) /\
  a_fit a = fitness_of (a_cost a) d.
End Prov.

(* ------------------------------------------------------------------ population machine *)
Section Pop.
Variable A : Type.
Variable cost : A -> xnum.
Variable copy : A -> A.
Variable P : nat.                                   (* config.population_size *)

Definition not_worse (o n : A) : Prop := xltb (cost o) (cost n) = false.      (* n is not worse than o *)

Fixpoint set_at (i : nat) (x : A) (l : list A) : list A :=
  match l, i with
  | [], _ => []
  | _ :: r, 0 => x :: r
  | y :: r, S j => y :: set_at j x r
  end.

(* what one population-write statement may do (the oracle chooses the new agents) *)
Definition pw_step (w : popwrite) (pop pop' : list A) : Prop :=
  match w with
  | WMap true => Forall2 not_worse pop pop'
  | WMap false | WZipMap => length pop' = length pop
  | WExtendTrim => exists new, pop' = extend_and_trim cost P pop new
  | WGreedyPop => exists new, greedy_population cost copy pop new = Some pop'
  | WReplaceTrim => exists new, pop' = replace_and_trim cost P new
  | WSortSelf => pop' = sort_by_cost cost MIN pop
  | WSetItem true => exists i a, i < length pop /\ (forall dflt, not_worse (nth i pop dflt) a) /\ pop' = set_at i a pop
  | WSetItem false => exists i a, pop' = set_at i a pop
  | WOther => True
  end.

(* a phase = its writes in some order, possibly repeated (loops) : any finite sequence over the listed writes *)
Inductive steps_rel (ws : list popwrite) : list A -> list A -> Prop :=
| steps_nil pop : steps_rel ws pop pop
| steps_cons w pop mid pop' : In w ws -> pw_step w pop mid -> steps_rel ws mid pop' -> steps_rel ws pop pop'.

Definition keeps_best (old new : list A) : Prop :=
  forall o, In o old -> exists n, In n new /\ not_worse o n.
End Pop.
