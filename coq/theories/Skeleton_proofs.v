(* Skeleton_proofs.v — soundness of the conformance predicates of Skeleton.v: what every run of the
   abstract machines satisfies when the skeleton conforms, for every oracle (numeric kernel). *)
From Coq Require Import String List ZArith Bool Arith Lia Permutation Sorted.
Open Scope list_scope.
From PV Require Import Xnum Select PyLib Select_proofs Argsort Vars Vars_proofs Task_proofs Init Init_proofs Skeleton.
Import ListNotations.

(* ================================================================== provenance (C01, C02, C05, C15) *)
Section ProvProofs.
Variable W : Type.
Variable dot : list xnum -> list W -> xnum.
Hypothesis dot_neg : forall l w, dot (map xneg l) w = xneg (dot l w).
Variable FT : Type.
Variable fitness_of : xnum -> dir -> FT.
Variable obj : list coord -> objv.
Variables (t : task) (d : dir) (w : option (list W)).
Hypothesis Hvt : valid_task t.
Hypothesis Hvf : valid_flat t.

Notation op := (op FT).
Notation exec_op := (exec_op W dot FT fitness_of obj t d w).
Notation exec_ops := (exec_ops W dot FT fitness_of obj t d w).
Notation wf_agent := (wf_agent W dot FT fitness_of obj t d w).
Notation raw_ok := (raw_ok FT t).

Lemma raw_ok_shape raw draw : raw_ok (OInit FT raw draw) -> shape_ok_all t (candidate raw draw).
Proof.
  intros [Hl Hf]. split; [exact Hl|]. unfold candidate.
  eapply Forall_impl; [|exact Hf]. intros [c sv]; cbn. destruct sv, c; auto.
Qed.

Definition Inv (s : pstate FT) : Prop :=
  Forall wf_agent (heap FT s) /\ Forall (fun x => in_spaceb t x = true) (calls FT s).

Lemma conforming_only_init_copy sk o : conforms_prov sk = true -> licensed FT sk o = true ->
  (exists raw draw, o = OInit FT raw draw) \/ (exists i, o = OCopy FT i).
Proof.
  unfold conforms_prov. intros H L.
  apply andb_true_iff in H as [H Hi]. apply andb_true_iff in H as [H Hr]. apply andb_true_iff in H as [H Ho].
  apply andb_true_iff in H as [Hs Hc].
  destruct o; cbn in L; eauto; rewrite ?Hs, ?Hc, ?Ho, ?Hr, ?Hi in L; cbn in L; discriminate.
Qed.

Lemma step_inv sk s o : conforms_prov sk = true -> licensed FT sk o = true -> raw_ok o -> Inv s -> Inv (exec_op s o).
Proof.
  intros Hc Hl Hr [Hh Hcl]. destruct (conforming_only_init_copy sk o Hc Hl) as [(raw & draw & ->)|(i & ->)]; cbn.
  - destruct (init_agent W dot FT fitness_of obj t d w raw draw) as [[a arg]|] eqn:E; [|split; auto].
    destruct (init_agent_sound W dot dot_neg FT fitness_of obj t d w raw draw a arg Hvt Hvf (raw_ok_shape raw draw Hr) E)
      as (H1 & H2 & H3 & H4 & H5).
    split; cbn; apply Forall_app; split; auto; constructor; auto. split; auto.
  - destruct (nth_error (heap FT s) i) as [a|] eqn:E; [|split; auto].
    split; cbn; auto. apply Forall_app; split; auto. constructor; auto.
    rewrite Forall_forall in Hh. apply Hh. eapply nth_error_In; eauto.
Qed.

(* every agent object ever built by a conforming optimizer is well formed, and the objective is only ever
   evaluated inside the search space — for every sequence of operations the oracle may choose *)
Theorem provenance_invariant sk ops : conforms_prov sk = true ->
  Forall (fun o => licensed FT sk o = true) ops -> Forall raw_ok ops -> Inv (exec_ops ops).
Proof.
  intros Hc. unfold Skeleton.exec_ops.
  assert (G : forall s, Inv s -> Forall (fun o => licensed FT sk o = true) ops -> Forall raw_ok ops ->
              Inv (fold_left exec_op ops s)).
  { induction ops as [|o r IH]; cbn; intros s Hs Hl Hr; auto.
    inversion Hl; inversion Hr; subst. apply IH; auto. eapply step_inv; eauto. }
  apply G. split; constructor.
Qed.

(* the objective's arguments: only _init_agent reaches it, whatever else the optimizer does to its agents *)
Theorem calls_invariant sk ops : conforms_calls sk = true ->
  Forall (fun o => licensed FT sk o = true) ops -> Forall raw_ok ops ->
  Forall (fun x => in_spaceb t x = true) (calls FT (exec_ops ops)).
Proof.
  intros Hc. unfold conforms_calls in Hc. apply andb_true_iff in Hc as [Hc Hi]. apply andb_true_iff in Hc as [Ho Hr].
  unfold Skeleton.exec_ops.
  assert (G : forall s, Forall (fun x => in_spaceb t x = true) (calls FT s) ->
              Forall (fun o => licensed FT sk o = true) ops -> Forall raw_ok ops ->
              Forall (fun x => in_spaceb t x = true) (calls FT (fold_left exec_op ops s))).
  { induction ops as [|o r IH]; cbn; intros s Hs Hl Hk; auto.
    inversion Hl as [|? ? Hlo Hlr]; inversion Hk as [|? ? Hko Hkr]; subst. apply IH; auto.
    destruct o as [raw draw|i|a|i a|x]; cbn.
    - destruct (init_agent W dot FT fitness_of obj t d w raw draw) as [[a arg]|] eqn:E; auto.
      destruct (init_agent_sound W dot dot_neg FT fitness_of obj t d w raw draw a arg Hvt Hvf (raw_ok_shape raw draw Hko) E)
        as (H1 & H2 & H3 & _).
      cbn. apply Forall_app; split; auto.
    - destruct (nth_error (heap FT s) i); auto.
    - auto.
    - auto.
    - cbn in Hlo. rewrite Ho in Hlo. discriminate. }
  apply G; auto. constructor.
Qed.

(* objects are never altered after construction: the heap only grows (history fidelity, C15) *)
Lemma step_appends sk s o : conforms_prov sk = true -> licensed FT sk o = true ->
  exists extra, heap FT (exec_op s o) = heap FT s ++ extra.
Proof.
  intros Hc Hl. destruct (conforming_only_init_copy sk o Hc Hl) as [(raw & draw & ->)|(i & ->)]; cbn.
  - destruct (init_agent W dot FT fitness_of obj t d w raw draw) as [[a arg]|]; cbn; eauto. exists []. rewrite app_nil_r; auto.
  - destruct (nth_error (heap FT s) i); cbn; eauto. exists []. rewrite app_nil_r; auto.
Qed.
Theorem heap_append_only sk ops1 ops2 : conforms_prov sk = true ->
  Forall (fun o => licensed FT sk o = true) ops2 ->
  exists extra, heap FT (exec_ops (ops1 ++ ops2)) = heap FT (exec_ops ops1) ++ extra.
Proof.
  intros Hc Hl. unfold Skeleton.exec_ops. rewrite fold_left_app.
  generalize (fold_left exec_op ops1 {| heap := []; calls := [] |}) as s.
  induction ops2 as [|o r IH]; cbn; intros s.
  - exists []. rewrite app_nil_r; auto.
  - inversion Hl; subst. destruct (step_appends sk s o Hc H1) as (e1 & E1).
    destruct (IH H2 (exec_op s o)) as (e2 & E2). exists (e1 ++ e2). rewrite E2, E1, app_assoc. reflexivity.
Qed.
Corollary recorded_agent_never_changes sk ops1 ops2 i a : conforms_prov sk = true ->
  Forall (fun o => licensed FT sk o = true) ops2 ->
  nth_error (heap FT (exec_ops ops1)) i = Some a -> nth_error (heap FT (exec_ops (ops1 ++ ops2))) i = Some a.
Proof.
  intros Hc Hl Hn. destruct (heap_append_only sk ops1 ops2 Hc Hl) as (e & E). rewrite E.
  rewrite nth_error_app1; auto. apply nth_error_Some. congruence.
Qed.

(* tightness: a raw construction site really does let a malformed agent through *)
Theorem raw_site_allows_violation sk a : sk_raw_sites sk <> 0 -> ~ wf_agent a ->
  exists ops, Forall (fun o => licensed FT sk o = true) ops /\ Forall raw_ok ops /\ ~ Forall wf_agent (heap FT (exec_ops ops)).
Proof.
  intros Hn Ha. exists [ORaw FT a]. repeat split.
  - constructor; auto. cbn. destruct (Nat.eqb_spec (sk_raw_sites sk) 0); [contradiction|reflexivity].
  - constructor; cbn; auto.
  - cbn. intros H. inversion H; subst. contradiction.
Qed.
End ProvProofs.

(* ================================================================== population machine (C17, C10) *)
Section PopProofs.
Variable A : Type.
Variable cost : A -> xnum.
Variable copy : A -> A.
Hypothesis copy_cost : forall a, cost (copy a) = cost a.
Variable P : nat.
Hypothesis HP : 1 <= P.

Notation not_worse := (not_worse A cost).
Notation keeps_best := (keeps_best A cost).
Notation pw_step := (pw_step A cost copy P).
Notation steps_rel := (steps_rel A cost copy P).
Notation costs_ok := (costs_ok A cost).

Lemma not_worse_refl a : not_worse a a.
Proof. apply xltb_irrefl. Qed.
Lemma not_worse_trans a b c : non_nan (cost a) -> non_nan (cost b) -> non_nan (cost c) ->
  not_worse a b -> not_worse b c -> not_worse a c.
Proof.
  unfold Skeleton.not_worse. intros Ha Hb Hc. rewrite !xltb_not_leb by auto. rewrite !negb_false_iff.
  intros H1 H2. eapply xleb_trans; eauto.
Qed.
Lemma keeps_best_refl l : keeps_best l l.
Proof. intros o Ho. exists o. split; auto. apply not_worse_refl. Qed.
Lemma keeps_best_trans l1 l2 l3 : costs_ok l1 -> costs_ok l2 -> costs_ok l3 ->
  keeps_best l1 l2 -> keeps_best l2 l3 -> keeps_best l1 l3.
Proof.
  unfold Select_proofs.costs_ok. rewrite !Forall_forall. intros C1 C2 C3 H1 H2 o Ho.
  destruct (H1 o Ho) as (m & Hm & Hom). destruct (H2 m Hm) as (n & Hn & Hmn).
  exists n. split; auto. apply (not_worse_trans o m n); auto.
Qed.
Lemma keeps_best_perm l l' : Permutation l l' -> keeps_best l l'.
Proof. intros Pm o Ho. exists o. split; [eapply Permutation_in; eauto|apply not_worse_refl]. Qed.

Lemma pointwise_keeps_best l l' : Forall2 not_worse l l' -> keeps_best l l'.
Proof.
  induction 1 as [|o n l l' Hon _ IH]; intros x Hx; [contradiction|].
  destruct Hx as [<-|Hx]; [exists n; split; [left|]; auto|].
  destruct (IH x Hx) as (m & Hm & Hc). exists m; split; [right|]; auto.
Qed.

(* the head of the sorted list is not worse than anybody *)
Lemma sorted_head_best l h tl : costs_ok l -> sort_by_cost cost MIN l = h :: tl -> forall o, In o l -> not_worse o h.
Proof.
  intros Hc Es o Ho.
  assert (Hb : best_agent cost MIN l = Some h) by (rewrite best_agent_spec, Es; reflexivity).
  destruct (best_agent_optimal A cost MIN l h Hc Hb) as [_ Hopt].
  specialize (Hopt o Ho). cbn in Hopt.
  (* better MIN o h = false means not (cost o < cost h); we need not (cost o < cost h) as not_worse o h *)
  exact Hopt.
Qed.

Lemma trim_keeps_best l : costs_ok l -> keeps_best l (firstn P (sort_by_cost cost MIN l)).
Proof.
  intros Hc o Ho. destruct (sort_by_cost cost MIN l) as [|h tl] eqn:Es.
  - exfalso. assert (Permutation l []) by (rewrite <- Es; apply sort_perm). apply Permutation_sym, Permutation_nil in H. subst; contradiction.
  - exists h. split.
    + destruct P as [|p]; [lia|]. cbn. auto.
    + eapply sorted_head_best; eauto.
Qed.

Lemma set_at_length i x (l : list A) : length (set_at A i x l) = length l.
Proof. revert i; induction l as [|y r IH]; intros [|j]; cbn; auto. Qed.
Lemma set_at_keeps i a (l : list A) : i < length l -> (forall dflt, not_worse (nth i l dflt) a) -> keeps_best l (set_at A i a l).
Proof.
  revert i. induction l as [|y r IH]; intros [|j] Hi Hn x Hx; cbn in *; try lia.
  - destruct Hx as [Hx|Hx].
    + subst x. exists a. split; auto.
    + exists x. split; auto; apply not_worse_refl.
  - destruct Hx as [Hx|Hx].
    + subst x. exists y. split; auto; apply not_worse_refl.
    + assert (Hj : j < length r) by lia.
      destruct (IH j Hj Hn x Hx) as (n & Hin & Hc). exists n; auto.
Qed.

Lemma map2_greedy_keeps (l1 l2 : list A) : length l1 <= length l2 -> keeps_best l1 (map2 (greedy cost copy) l1 l2).
Proof.
  revert l2. induction l1 as [|a t IH]; intros [|b u] Hl x Hx; cbn in *; try contradiction; try lia.
  destruct Hx as [Hx|Hx].
  - subst x. exists (greedy cost copy a b). split; auto. apply (greedy_not_worse A cost copy copy_cost).
  - assert (Hl' : length t <= length u) by lia.
    destruct (IH u Hl' x Hx) as (n & Hn & Hc). exists n; auto.
Qed.

(* every elitist population write keeps somebody at least as good as each previous member *)
Theorem elit_write_keeps_best wr pop pop' : elit_write wr = true -> costs_ok pop ->
  (forall new, costs_ok new) ->               (* all agents around have a comparable (non-NaN) cost *)
  pw_step wr pop pop' -> keeps_best pop pop'.
Proof.
  intros He Hc Hall Hs. destruct wr as [[|]| | | | | |[|]|]; cbn in He; try discriminate; cbn in Hs.
  - apply pointwise_keeps_best; auto.
  - destruct Hs as (new & ->). unfold extend_and_trim, sort_and_trim. destruct new as [|n0 nr]; [apply keeps_best_refl|].
    intros o Ho. destruct (trim_keeps_best (pop ++ n0 :: nr) (Hall _) o) as (n & Hn & Hcn); [apply in_or_app; auto|]. eauto.
  - destruct Hs as (new & Hg). unfold greedy_population in Hg.
    destruct (Nat.ltb_spec (length new) (length pop)); [discriminate|]. inversion Hg; subst.
    eapply keeps_best_trans; [exact Hc|apply Hall|apply Hall|apply keeps_best_perm, sort_perm|].
    apply map2_greedy_keeps. rewrite !sort_length. auto.
  - subst. apply keeps_best_perm, sort_perm.
  - destruct Hs as (i & a & Hi & Hn & ->). apply set_at_keeps; auto.
Qed.

Theorem elitist_steps_keep_best ws pop pop' : forallb elit_write ws = true -> (forall l, costs_ok l) ->
  steps_rel ws pop pop' -> keeps_best pop pop'.
Proof.
  intros He Hall Hs. induction Hs as [pop|wr pop mid pop' Hin Hw Hr IH]; [apply keeps_best_refl|].
  rewrite forallb_forall in He.
  eapply keeps_best_trans; [apply Hall|apply Hall|apply Hall| |exact IH].
  eapply elit_write_keeps_best; eauto.
Qed.

(* ---- size *)
Lemma firstn_length_min {X} n (l : list X) : length (firstn n l) = Nat.min n (length l).
Proof. apply firstn_length. Qed.

Theorem size_known_preserves wr pop pop' : size_known wr = true -> length pop = P -> pw_step wr pop pop' -> length pop' = P.
Proof.
  intros Hk Hl Hs. destruct wr as [[|]| | | | | |[|]|]; cbn in Hk; try discriminate; cbn in Hs.
  - clear Hk. revert Hl. generalize P. induction Hs; cbn; intros p Hp; auto. destruct p; [discriminate|]. f_equal. apply IHHs. lia.
  - lia.
  - lia.
  - destruct Hs as (new & ->). rewrite extend_and_trim_length. destruct new; auto. cbn [length]. lia.
  - destruct Hs as (new & Hg). pose proof (greedy_population_spec A cost copy pop new) as S. rewrite Hg in S. lia.
  - subst. rewrite sort_length. auto.
  - destruct Hs as (i & a & _ & _ & ->). rewrite set_at_length; auto.
  - destruct Hs as (i & a & ->). rewrite set_at_length; auto.
Qed.
Theorem size_regular_steps ws pop pop' : forallb size_known ws = true -> length pop = P ->
  steps_rel ws pop pop' -> length pop' = P.
Proof.
  intros Hk Hl Hs. induction Hs as [pop|wr pop mid pop' Hin Hw Hr IH]; auto.
  rewrite forallb_forall in Hk. apply IH. eapply size_known_preserves; eauto.
Qed.
End PopProofs.
