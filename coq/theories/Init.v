(* Init.v — model of how an agent comes into being: Task.initial_solution / Task.solve /
   OptimizationAbstract._fcn / _init_agent (C01, C02, C05), and of helpers.calculate_fitness.
   The user's objective [obj], numpy's dot [dot] and the float arithmetic of the fitness are
   parameters: the theorems hold for every objective and every weight vector. *)
From Coq Require Import List ZArith Bool Arith.
From PV Require Import Xnum Select PyLib Argsort Vars.
Import ListNotations.

(* what an objective function returns: a number, or a list of numbers (multi-objective) *)
Inductive objv := OScalar (x : xnum) | OVec (l : list xnum).
Definition objv_neg (o : objv) : objv :=
  match o with OScalar x => OScalar (xneg x) | OVec l => OVec (map xneg l) end.
Definition objv_count (o : objv) : nat := match o with OScalar _ => 1 | OVec l => length l end.

Section Init.
Variable W : Type.                                   (* an objective weight *)
Variable dot : list xnum -> list W -> xnum.          (* np.dot(costs, weights) *)
Variable FT : Type.                                  (* carrier of the fitness value *)
Variable fitness_of : xnum -> dir -> FT.             (* calculate_fitness(cost, minmax) on the same double *)
Variable obj : list coord -> objv.                   (* Task.objective_function: a function of its argument *)

Record agent := { a_pos : list coord; a_cost : xnum; a_fit : FT }.

Definition n_weights (w : option (list W)) : nat := match w with Some l => length l | None => 1 end.
(* np.dot(cost, weights) if weights is not None else cost; a list cost without weights cannot be an Agent's cost *)
Definition mix (o : objv) (w : option (list W)) : option xnum :=
  match w, o with
  | None, OScalar x => Some x
  | None, OVec _ => None
  | Some ws, OVec l => Some (dot l ws)
  | Some ws, OScalar x => Some (dot [x] ws)
  end.

(* Task.solve: the objective sees the CORRECTED argument *)
Definition solve (t : task) (x : list coord) : option (list coord * objv) :=
  match correct_solution t x with Some s => Some (s, obj s) | None => None end.
(* _fcn: internal costs are minimised; a maximisation negates every objective *)
Definition fcn (t : task) (d : dir) (x : list coord) : option (list coord * objv) :=
  match solve t x with
  | Some (s, c) => Some (s, match d with MIN => c | MAX => objv_neg c end)
  | None => None
  end.
(* Task.initial_solution(position): correct the candidate, or a fresh random draw *)
Definition initial_solution (t : task) (raw : option (list coord)) (draw : list coord) : option (list coord) :=
  correct_solution t (match raw with Some r => r | None => draw end).

(* _init_agent: returns the agent and the argument the objective was evaluated at *)
Definition init_agent (t : task) (d : dir) (w : option (list W)) (raw : option (list coord)) (draw : list coord)
  : option (agent * list coord) :=
  match initial_solution t raw draw with
  | None => None
  | Some pos =>
    match fcn t d pos with
    | None => None
    | Some (arg, c) =>
      if negb (Nat.eqb (n_weights w) (objv_count c)) then None
      else match mix c w with
           | Some cost => Some ({| a_pos := pos; a_cost := cost; a_fit := fitness_of cost d |}, arg)
           | None => None
           end
    end
  end.

(* what the result reports for an agent: Population / OptimizationResult restore the sign *)
Definition reported_cost (d : dir) (a : agent) : xnum := match d with MIN => a_cost a | MAX => xneg (a_cost a) end.
(* the user's aggregated objective at a position *)
Definition user_cost (w : option (list W)) (x : list coord) : option xnum := mix (obj x) w.
End Init.

Arguments a_pos {FT}. Arguments a_cost {FT}. Arguments a_fit {FT}.

(* helpers.calculate_fitness on a float carrier *)
Section Fitness.
Variable F : Type.
Variables (fadd fdiv : F -> F -> F) (fabs fopp : F -> F) (fleb : F -> F -> bool) (fzero fone : F).
(* the documented formula of a (user-sign) cost c: 1/(1+c) for c >= 0, 1+|c| for c < 0 *)
Definition phi (c : F) : F := if fleb fzero c then fdiv fone (fadd c fone) else fadd fone (fabs c).
Definition fitness (value : F) (d : dir) : F := phi (match d with MIN => value | MAX => fopp value end).
End Fitness.
