(* Select_proofs.v — theorems about Select.v (C16 and the order facts used by C03, C10, C17). *)
From Coq Require Import List ZArith Bool Arith Lia Permutation Sorted.
From PV Require Import Xnum Select.
Import ListNotations.

Section Proofs.
Variable A : Type.
Variable cost : A -> xnum.
Variable copy : A -> A.
Hypothesis copy_cost : forall a, cost (copy a) = cost a.

Notation before := (before cost).
Notation better := (better cost).
Notation insert := (insert cost).
Notation sort_by_cost := (sort_by_cost cost).
Notation best_agents := (best_agents cost).
Notation worst_agents := (worst_agents cost).

Definition costs_ok (l : list A) : Prop := Forall (fun a => non_nan (cost a)) l.

(* ------------------------------------------------------------------ permutation *)
Lemma insert_perm d a l : Permutation (a :: l) (insert d a l).
Proof.
  induction l as [|b t IH]; cbn; auto. destruct (before d a b); auto.
  rewrite perm_swap. constructor. exact IH.
Qed.
Theorem sort_perm d l : Permutation l (sort_by_cost d l).
Proof. induction l as [|a t IH]; cbn; auto. rewrite <- insert_perm. constructor; exact IH. Qed.
Lemma sort_length d l : length (sort_by_cost d l) = length l.
Proof. symmetry. apply Permutation_length, sort_perm. Qed.
Lemma sort_in d l x : In x (sort_by_cost d l) <-> In x l.
Proof.
  split; intros H.
  - eapply Permutation_in; [apply Permutation_sym, sort_perm|exact H].
  - eapply Permutation_in; [apply sort_perm|exact H].
Qed.

Lemma costs_ok_perm l l' : Permutation l l' -> costs_ok l -> costs_ok l'.
Proof.
  intros P H. unfold costs_ok in *. rewrite Forall_forall in *. intros x Hx. apply H.
  eapply Permutation_in; [apply Permutation_sym|]; eauto.
Qed.

(* ------------------------------------------------------------------ sortedness *)
Lemma before_total d a b :
  non_nan (cost a) -> non_nan (cost b) -> before d a b = true \/ before d b a = true.
Proof.
  intros Ha Hb. destruct d; cbn; rewrite !xltb_not_leb, !negb_involutive by auto.
  - apply xleb_total; auto.
  - destruct (xleb_total (cost a) (cost b) Ha Hb); auto.
Qed.
Lemma before_trans d a b c :
  non_nan (cost a) -> non_nan (cost b) -> non_nan (cost c) ->
  before d a b = true -> before d b c = true -> before d a c = true.
Proof.
  intros Ha Hb Hc. destruct d; cbn; rewrite !xltb_not_leb, !negb_involutive by auto;
    intros; eapply xleb_trans; eauto.
Qed.
Lemma before_not_better d a b : before d a b = negb (better d b a).
Proof. destruct d; reflexivity. Qed.

Definition Before d (x y : A) : Prop := before d x y = true.

Lemma insert_sorted d a l : non_nan (cost a) -> costs_ok l ->
  StronglySorted (Before d) l -> StronglySorted (Before d) (insert d a l).
Proof.
  intros Ha Hl Hs. induction l as [|b t IH]; cbn.
  - repeat constructor.
  - inversion Hl as [|? ? Hb Ht]; subst. inversion Hs as [|? ? Hst Hbt]; subst.
    destruct (before d a b) eqn:E.
    + constructor; auto. constructor; auto.
      rewrite Forall_forall in *. intros x Hx. eapply before_trans; eauto.
      apply Hbt; auto.
    + constructor; auto.
      assert (Hba : before d b a = true) by (destruct (before_total d a b Ha Hb); congruence).
      rewrite Forall_forall. intros x Hx.
      apply (Permutation_in _ (Permutation_sym (insert_perm d a t))) in Hx.
      destruct Hx as [<-|Hx]; auto. rewrite Forall_forall in Hbt; apply Hbt; auto.
Qed.
Theorem sort_sorted d l : costs_ok l -> StronglySorted (Before d) (sort_by_cost d l).
Proof.
  induction l as [|a t IH]; cbn; intros H; [constructor|]. inversion H; subst.
  apply insert_sorted; auto. eapply costs_ok_perm; [apply sort_perm|]; auto.
Qed.

(* ------------------------------------------------------------------ stability *)
Definition same_cost (c : xnum) (a : A) : bool := xeqb (cost a) c.

Lemma insert_filter d c a l :
  filter (same_cost c) (insert d a l) =
  if same_cost c a then a :: filter (same_cost c) l else filter (same_cost c) l.
Proof.
  induction l as [|b t IH]; cbn.
  - destruct (same_cost c a); reflexivity.
  - destruct (before d a b) eqn:E; cbn.
    + destruct (same_cost c a); reflexivity.
    + rewrite IH. destruct (same_cost c b) eqn:Eb, (same_cost c a) eqn:Ea; try reflexivity.
      exfalso. unfold same_cost in *. apply xeqb_eq in Ea as [Ea _], Eb as [Eb _].
      destruct d; cbn in E; rewrite Ea, Eb, xltb_irrefl in E; discriminate.
Qed.
(* agents with equal cost keep the order they had in the input, in both directions *)
Theorem sort_stable d c l :
  filter (same_cost c) (sort_by_cost d l) = filter (same_cost c) l.
Proof.
  induction l as [|a t IH]; cbn [Select.sort_by_cost fold_right]; auto.
  fold (sort_by_cost d t). rewrite insert_filter, IH. reflexivity.
Qed.

(* ------------------------------------------------------------------ best / worst *)
Lemma sorted_split {X} (R : X -> X -> Prop) n l : StronglySorted R l ->
  forall x y, In x (firstn n l) -> In y (skipn n l) -> R x y.
Proof.
  revert l. induction n as [|n IH]; intros l Hs x y Hx Hy; cbn in *; [contradiction|].
  destruct l as [|a t]; cbn in *; [contradiction|]. inversion Hs as [|? ? Hst Hat]; subst.
  destruct Hx as [<-|Hx].
  - rewrite Forall_forall in Hat. apply Hat. rewrite <- (firstn_skipn n t).
    apply in_or_app. right. exact Hy.
  - eapply IH; eauto.
Qed.
Lemma sorted_firstn {X} (R : X -> X -> Prop) n l : StronglySorted R l -> StronglySorted R (firstn n l).
Proof.
  revert l; induction n as [|n IH]; intros l Hs; cbn; [constructor|].
  destruct l as [|a t]; [constructor|]. inversion Hs as [|? ? Hst Hat]; subst.
  constructor; auto. rewrite Forall_forall in *. intros x Hx. apply Hat.
  rewrite <- (firstn_skipn n t). apply in_or_app; auto.
Qed.
Lemma sorted_skipn {X} (R : X -> X -> Prop) n l : StronglySorted R l -> StronglySorted R (skipn n l).
Proof.
  revert l; induction n as [|n IH]; intros l Hs; cbn; auto.
  destruct l as [|a t]; [constructor|]. inversion Hs; subst. auto.
Qed.

Theorem best_length n d l : n <= length l -> length (best_agents n d l) = n.
Proof. intros H. unfold Select.best_agents. rewrite firstn_length, sort_length. lia. Qed.
Theorem worst_length n d l : n <= length l -> length (worst_agents n d l) = n.
Proof. intros H. unfold Select.worst_agents. rewrite skipn_length, sort_length. lia. Qed.

Lemma in_firstn {X} n (l : list X) x : In x (firstn n l) -> In x l.
Proof. intros H. rewrite <- (firstn_skipn n l). apply in_or_app; auto. Qed.
Lemma in_skipn {X} n (l : list X) x : In x (skipn n l) -> In x l.
Proof. intros H. rewrite <- (firstn_skipn n l). apply in_or_app; auto. Qed.

Theorem best_incl n d l x : In x (best_agents n d l) -> In x l.
Proof. intros H. apply (sort_in d). eapply in_firstn; eauto. Qed.
Theorem worst_incl n d l x : In x (worst_agents n d l) -> In x l.
Proof. intros H. apply (sort_in d). eapply in_skipn; eauto. Qed.

(* the returned agents are distinct positions of the input: best ++ omitted is a permutation *)
Theorem best_partition n d l :
  Permutation l (best_agents n d l ++ skipn n (sort_by_cost d l)).
Proof. unfold Select.best_agents. rewrite firstn_skipn. apply sort_perm. Qed.
Theorem worst_partition n d l :
  Permutation l (firstn (length l - n) (sort_by_cost d l) ++ worst_agents n d l).
Proof. unfold Select.worst_agents. rewrite firstn_skipn. apply sort_perm. Qed.

Theorem best_first_sorted n d l : costs_ok l -> StronglySorted (Before d) (best_agents n d l).
Proof. intros H. apply sorted_firstn, sort_sorted, H. Qed.
Theorem worst_last_sorted n d l : costs_ok l -> StronglySorted (Before d) (worst_agents n d l).
Proof. intros H. apply sorted_skipn, sort_sorted, H. Qed.

(* nobody left out of best_agents is strictly better than somebody kept *)
Theorem best_optimal n d l : costs_ok l ->
  forall r o, In r (best_agents n d l) -> In o (skipn n (sort_by_cost d l)) -> better d o r = false.
Proof.
  intros Hc r o Hr Ho.
  pose proof (sorted_split _ n _ (sort_sorted d l Hc) r o Hr Ho) as H.
  unfold Before in H. rewrite before_not_better in H. apply negb_true_iff in H. exact H.
Qed.
(* nobody left out of worst_agents is strictly worse than somebody kept *)
Theorem worst_optimal n d l : costs_ok l ->
  forall r o, In r (worst_agents n d l) -> In o (firstn (length l - n) (sort_by_cost d l)) ->
  better d r o = false.
Proof.
  intros Hc r o Hr Ho.
  pose proof (sorted_split _ (length l - n) _ (sort_sorted d l Hc) o r Ho Hr) as H.
  unfold Before in H. rewrite before_not_better in H. apply negb_true_iff in H. exact H.
Qed.

(* best_agent / worst_agent: head and last of the sorted list; fail exactly on the empty population *)
Theorem best_agent_spec d l :
  best_agent cost d l = hd_error (sort_by_cost d l).
Proof.
  unfold best_agent, Select.best_agents. destruct (sort_by_cost d l) as [|b t]; reflexivity.
Qed.
Lemma skipn_pred_last {X} (l : list X) x : l <> [] -> skipn (length l - 1) l = [last l x].
Proof.
  induction l as [|a t IH]; [congruence|]. intros _. destruct t as [|b u].
  - reflexivity.
  - cbn [length]. replace (S (S (length u)) - 1) with (S (length (b :: u) - 1)) by (cbn; lia).
    cbn [skipn]. rewrite IH by congruence. reflexivity.
Qed.
Theorem worst_agent_spec d l x : l <> [] ->
  worst_agent cost d l = Some (last (sort_by_cost d l) x).
Proof.
  intros Hne. unfold worst_agent, Select.worst_agents. rewrite <- (sort_length d l).
  rewrite (skipn_pred_last _ x); auto.
  intros E. apply Hne. apply Permutation_nil. rewrite <- E. apply Permutation_sym, sort_perm.
Qed.
Theorem best_agent_none d l : best_agent cost d l = None <-> l = [].
Proof.
  rewrite best_agent_spec. split.
  - intros H. destruct (sort_by_cost d l) eqn:E; [|discriminate].
    apply Permutation_nil. rewrite <- E. apply Permutation_sym, sort_perm.
  - intros ->. reflexivity.
Qed.
Theorem best_agent_optimal d l b : costs_ok l -> best_agent cost d l = Some b ->
  In b l /\ forall o, In o l -> better d o b = false.
Proof.
  intros Hc Hb. rewrite best_agent_spec in Hb.
  destruct (sort_by_cost d l) as [|b' t] eqn:Es; [discriminate|]. inversion Hb; subst b'.
  assert (Hin : In b l) by (apply (sort_in d); rewrite Es; left; auto).
  split; auto. intros o Ho. apply (sort_in d) in Ho. rewrite Es in Ho. destruct Ho as [<-|Ho].
  - destruct d; cbn; apply xltb_irrefl.
  - apply (best_optimal 1 d l Hc b o); unfold Select.best_agents; rewrite Es; cbn; auto.
Qed.

Theorem special_agents_spec nb nw d l :
  special_agents cost nb nw d l =
  match nb, nw with
  | None, None => None
  | _, _ => Some (match nb with Some n => best_agents n d l | None => [] end,
                  match nw with Some n => worst_agents n d l | None => [] end)
  end.
Proof. reflexivity. Qed.

(* sort-and-trim keeps the p cheapest in ascending order *)
Theorem sort_and_trim_spec l p : costs_ok l ->
  let r := sort_and_trim cost l p in
  length r = Nat.min p (length l) /\ StronglySorted (Before MIN) r /\
  (forall x, In x r -> In x l) /\
  (forall x o, In x r -> In o (skipn p (sort_by_cost MIN l)) -> xltb (cost o) (cost x) = false).
Proof.
  intros Hc. cbn zeta. unfold sort_and_trim. repeat split.
  - rewrite firstn_length, sort_length. reflexivity.
  - apply (best_first_sorted p MIN l Hc).
  - intros x. apply (best_incl p MIN l).
  - intros x o Hx Ho. apply (best_optimal p MIN l Hc x o Hx Ho).
Qed.

(* ------------------------------------------------------------------ greedy *)
Theorem greedy_keeps_incumbent a b :
  xltb (cost b) (cost a) = false -> greedy cost copy a b = copy a.
Proof. unfold greedy. intros ->. reflexivity. Qed.
Theorem greedy_takes_cheaper a b :
  xltb (cost b) (cost a) = true -> greedy cost copy a b = b.
Proof. unfold greedy. intros ->. reflexivity. Qed.
Theorem greedy_not_worse a b : xltb (cost a) (cost (greedy cost copy a b)) = false.
Proof.
  unfold greedy. destruct (xltb (cost b) (cost a)) eqn:E.
  - destruct (cost a) as [| |x|], (cost b) as [| |y|]; cbn in *; try congruence; auto.
    apply Z.ltb_lt in E. apply Z.ltb_ge. lia.
  - rewrite copy_cost. apply xltb_irrefl.
Qed.

Lemma map2_length {X Y Z} (f : X -> Y -> Z) l1 l2 :
  length (map2 f l1 l2) = Nat.min (length l1) (length l2).
Proof. revert l2; induction l1 as [|x t IH]; intros [|y u]; cbn; auto. Qed.
Lemma map2_nth {X Y Z} (f : X -> Y -> Z) l1 l2 i dx dy dz :
  i < length l1 -> i < length l2 -> nth i (map2 f l1 l2) dz = f (nth i l1 dx) (nth i l2 dy).
Proof.
  revert l2 i; induction l1 as [|x t IH]; intros [|y u] i H1 H2; cbn in *; try lia.
  destruct i; auto. apply IH; lia.
Qed.

(* greedy replacement acts element-wise on the two cost-sorted populations; it fails exactly when
   the challenger population is shorter *)
Theorem greedy_population_spec pop new :
  match greedy_population cost copy pop new with
  | None => length new < length pop
  | Some r => length pop <= length new /\ length r = length pop /\
      forall i d, i < length pop ->
        nth i r d = greedy cost copy (nth i (sort_by_cost MIN pop) d) (nth i (sort_by_cost MIN new) d)
  end.
Proof.
  unfold greedy_population. destruct (Nat.ltb_spec (length new) (length pop)); auto.
  split; auto. split.
  - rewrite map2_length, !sort_length. lia.
  - intros i d Hi. apply map2_nth; rewrite sort_length; lia.
Qed.

Theorem extend_and_trim_spec p pop new :
  extend_and_trim cost p pop new =
  match new with [] => pop | _ => firstn p (sort_by_cost MIN (pop ++ new)) end.
Proof. reflexivity. Qed.
Theorem extend_and_trim_length p pop new :
  length (extend_and_trim cost p pop new) =
  match new with [] => length pop | _ => Nat.min p (length pop + length new) end.
Proof.
  unfold extend_and_trim, sort_and_trim. destruct new; auto.
  rewrite firstn_length, sort_length, app_length. reflexivity.
Qed.
Theorem replace_and_trim_length p new :
  length (replace_and_trim cost p new) = Nat.min p (length new).
Proof. unfold replace_and_trim, sort_and_trim. rewrite firstn_length, sort_length. reflexivity. Qed.

End Proofs.

(* ------------------------------------------------------------------ index variants *)
(* two cost lists sorted the same way that are permutations of each other are equal *)
Definition Rle (d : dir) (x y : xnum) : Prop :=
  match d with MIN => xleb x y = true | MAX => xleb y x = true end.

Lemma sorted_perm_eq d (l1 l2 : list xnum) :
  StronglySorted (Rle d) l1 -> StronglySorted (Rle d) l2 -> Permutation l1 l2 -> l1 = l2.
Proof.
  revert l2. induction l1 as [|a t IH]; intros l2 H1 H2 P.
  - apply Permutation_nil in P. auto.
  - destruct l2 as [|b u]; [apply Permutation_sym, Permutation_nil in P; discriminate|].
    inversion H1 as [|? ? Ht Ha]; inversion H2 as [|? ? Hu Hb]; subst.
    assert (a = b).
    { assert (Hi1 : In a (b :: u)) by (eapply Permutation_in; [exact P|left; auto]).
      assert (Hi2 : In b (a :: t))
        by (eapply Permutation_in; [apply Permutation_sym; exact P|left; auto]).
      rewrite Forall_forall in Ha, Hb. destruct Hi1 as [->|Hin]; auto. destruct Hi2 as [->|Hin']; auto.
      specialize (Ha b Hin'). specialize (Hb a Hin).
      destruct d; cbn in *; apply xleb_antisym; auto. }
    subst b. f_equal. apply IH; auto. eapply Permutation_cons_inv; eauto.
Qed.

Definition is_argsort (cs : list xnum) (pi : list nat) : Prop :=
  Permutation pi (seq 0 (length cs)) /\ StronglySorted (Rle MIN) (map (nth_key cs) pi).

Lemma map_nth_seq (cs : list xnum) : map (nth_key cs) (seq 0 (length cs)) = cs.
Proof.
  unfold nth_key.
  assert (E : forall s (q : list xnum), map (fun i => nth (i - s) q XNaN) (seq s (length q)) = q).
  { intros s q. revert s. induction q as [|x t IH]; cbn; intros s; auto. rewrite Nat.sub_diag. f_equal.
    rewrite <- (IH (S s)) at 2. apply map_ext_in. intros i Hi. apply in_seq in Hi.
    replace (i - s) with (S (i - S s)) by lia. reflexivity. }
  specialize (E 0 cs). etransitivity; [|exact E]. apply map_ext. intros; rewrite Nat.sub_0_r; reflexivity.
Qed.

Lemma sorted_rev_flip (l : list xnum) :
  StronglySorted (Rle MIN) l -> StronglySorted (Rle MAX) (rev l).
Proof.
  induction 1 as [|a l Hs IH Ha]; cbn; [constructor|].
  (* rev l ++ [a]: every element of rev l is >= a *)
  assert (G : forall (m : list xnum), StronglySorted (Rle MAX) m ->
            Forall (fun x => Rle MAX x a) m -> StronglySorted (Rle MAX) (m ++ [a])).
  { induction m as [|x m IHm]; cbn; intros Hm Hf; [repeat constructor|].
    inversion Hm; inversion Hf; subst. constructor; auto.
    rewrite Forall_forall in *. intros y Hy. apply in_app_or in Hy as [Hy|[<-|[]]]; auto. }
  apply G; auto. rewrite Forall_forall in *. intros x Hx. apply in_rev in Hx. cbn. apply Ha; auto.
Qed.

Section Indexes.
Variable A : Type.
Variable cost : A -> xnum.

Lemma before_Rle d (l : list A) : costs_ok A cost l ->
  StronglySorted (Before A cost d) l -> StronglySorted (Rle d) (map cost l).
Proof.
  intros Hc Hs. induction Hs as [|a l Hs IH Ha]; cbn; [constructor|].
  inversion Hc; subst. constructor; auto.
  rewrite Forall_forall in *. intros c Hcin. apply in_map_iff in Hcin as (b & <- & Hb).
  specialize (Ha b Hb). unfold Before, before in Ha.
  assert (Hnb : non_nan (cost b)) by (unfold costs_ok in *; rewrite Forall_forall in *; auto).
  destruct d; cbn in *; rewrite xltb_not_leb, negb_involutive in Ha; auto.
Qed.

(* the agents designated by the index variants have the same costs, in the same order, as the
   agents returned by the list variants — for ANY valid argsort result (ties broken any way) *)
Theorem sorted_indexes_same_costs d (l : list A) pi : costs_ok A cost l ->
  is_argsort (map cost l) pi ->
  map (nth_key (map cost l)) (sort_by_cost_indexes d pi) = map cost (sort_by_cost cost d l).
Proof.
  intros Hc [Hp Hs]. apply (sorted_perm_eq d).
  - destruct d; cbn; auto. rewrite map_rev. apply sorted_rev_flip; auto.
  - apply before_Rle; [|apply sort_sorted; auto].
    eapply costs_ok_perm; [apply sort_perm|]; auto.
  - transitivity (map cost l).
    + rewrite <- (map_nth_seq (map cost l)) at 2. apply Permutation_map.
      destruct d; cbn; [exact Hp|]. rewrite <- Hp. apply Permutation_sym, Permutation_rev.
    + apply Permutation_map, sort_perm.
Qed.
Theorem best_indexes_same_costs n d (l : list A) pi : costs_ok A cost l ->
  is_argsort (map cost l) pi ->
  map (nth_key (map cost l)) (best_agents_indexes n d pi) = map cost (best_agents cost n d l).
Proof.
  intros Hc Hp. unfold best_agents_indexes, best_agents.
  rewrite <- !firstn_map. f_equal. apply sorted_indexes_same_costs; auto.
Qed.
Lemma skipn_map {X Y} (f : X -> Y) n l : skipn n (map f l) = map f (skipn n l).
Proof. revert l; induction n; intros [|a t]; cbn; auto. Qed.
Theorem worst_indexes_same_costs n d (l : list A) pi : costs_ok A cost l ->
  is_argsort (map cost l) pi ->
  map (nth_key (map cost l)) (worst_agents_indexes n d pi) = map cost (worst_agents cost n d l).
Proof.
  intros Hc Hp. unfold worst_agents_indexes, worst_agents.
  assert (Hl : length pi = length l).
  { destruct Hp as [Hp _]. rewrite (Permutation_length Hp), seq_length, map_length. reflexivity. }
  rewrite Hl, <- !skipn_map. f_equal. apply sorted_indexes_same_costs; auto.
Qed.
End Indexes.
