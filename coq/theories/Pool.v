(* Pool.v — thread / process pools as scheduling nondeterminism (C11): get_pool_results returns the results of
   the submitted evaluations in SOME completion order (any permutation); random positions of a pooled initial
   population are drawn by the submitting (parent) process, one draw per evaluation. *)
From Coq Require Import List Arith Bool Lia Permutation.
Import ListNotations.

Section Pool.
Variable X : Type.
Variable pool_perm : list X -> list X.
Hypothesis pool_is_perm : forall l, Permutation l (pool_perm l).      (* every completion order is some permutation *)

(* no evaluation is lost, none is duplicated *)
Theorem pool_no_loss_no_dup (results : list X) : Permutation results (pool_perm results) /\ length (pool_perm results) = length results.
Proof. split; [apply pool_is_perm|symmetry; apply Permutation_length, pool_is_perm]. Qed.
Theorem pool_nodup (results : list X) : NoDup results -> NoDup (pool_perm results).
Proof. intros H. eapply Permutation_NoDup; [apply pool_is_perm|exact H]. Qed.
Theorem pool_forall (P : X -> Prop) (results : list X) : Forall P results -> Forall P (pool_perm results).
Proof. intros H. rewrite Forall_forall in *. intros x Hx. apply H. eapply Permutation_in; [apply Permutation_sym, pool_is_perm|exact Hx]. Qed.
End Pool.

(* where the random draw happens *)
Section Draws.
Variable Pos : Type.
Variable stream : nat -> Pos.        (* k-th draw from ONE random stream *)
(* parent draws: evaluation k receives the k-th draw of the parent's stream *)
Definition parent_draws (n : nat) : list Pos := map stream (seq 0 n).
(* worker draws (the pinned tree before the fix): forked workers each start from a COPY of the parent's stream; evaluation k
   is the (rank k)-th evaluation run by its worker and therefore receives draw number (rank k) *)
Definition worker_draws (rank : nat -> nat) (n : nat) : list Pos := map (fun k => stream (rank k)) (seq 0 n).

Theorem parent_draws_distinct n : NoDup (map stream (seq 0 n)) -> NoDup (parent_draws n).
Proof. auto. Qed.
(* two evaluations that are each the first one of their worker replay the same draw *)
Theorem worker_draws_duplicate rank n i j : i < j < n -> rank i = rank j -> ~ NoDup (worker_draws rank n).
Proof.
  intros [Hij Hj] Hr Hnd. unfold worker_draws in Hnd.
  assert (Hi : i < n) by lia.
  assert (E : nth i (map (fun k => stream (rank k)) (seq 0 n)) (stream 0) = nth j (map (fun k => stream (rank k)) (seq 0 n)) (stream 0)).
  { rewrite !(nth_indep _ (stream 0) ((fun k => stream (rank k)) 0)) by (rewrite map_length, seq_length; lia).
    rewrite !(map_nth (fun k => stream (rank k))). rewrite !seq_nth by lia. cbn. rewrite Hr. reflexivity. }
  rewrite NoDup_nth in Hnd. specialize (Hnd i j). rewrite map_length, seq_length in Hnd. specialize (Hnd Hi Hj E). lia.
Qed.
End Draws.
