(* Argsort.v — numpy argsort: a stable executable reference and the laws that hold for EVERY valid
   argsort (numpy's default sort is not stable), generic in the key type. *)
From Coq Require Import List Arith Bool Lia Permutation Sorted.
Import ListNotations.

Section Argsort.
Variable K : Type.
Variable ltb : K -> K -> bool.
Variable dflt : K.

Fixpoint ins_key (a : K * nat) (l : list (K * nat)) : list (K * nat) :=
  match l with
  | [] => [a]
  | b :: t => if ltb (fst b) (fst a) then b :: ins_key a t else a :: l
  end.
Definition sort_keys (l : list (K * nat)) := fold_right ins_key [] l.
Definition argsort_by (v : list K) : list nat := map snd (sort_keys (combine v (seq 0 (length v)))).

Definition le (a b : K) : Prop := ltb b a = false.
Definition key_at (v : list K) (i : nat) : K := nth i v dflt.
(* pi is a valid argsort of v *)
Definition valid_argsort (v : list K) (pi : list nat) : Prop :=
  Permutation pi (seq 0 (length v)) /\ StronglySorted le (map (key_at v) pi).

Lemma ins_perm a l : Permutation (a :: l) (ins_key a l).
Proof.
  induction l as [|b t IH]; cbn; auto. destruct (ltb (fst b) (fst a)); auto.
  rewrite perm_swap. constructor; auto.
Qed.
Lemma sort_keys_perm l : Permutation l (sort_keys l).
Proof. induction l as [|a t IH]; cbn; auto. rewrite <- ins_perm. constructor; auto. Qed.

Lemma snd_combine_seq (v : list K) s : map snd (combine v (seq s (length v))) = seq s (length v).
Proof. revert s. induction v as [|x t IH]; cbn; intros s; auto. f_equal. apply IH. Qed.

Theorem argsort_perm v : Permutation (argsort_by v) (seq 0 (length v)).
Proof.
  unfold argsort_by. rewrite <- (snd_combine_seq v 0) at 2. apply Permutation_map.
  apply Permutation_sym, sort_keys_perm.
Qed.
Lemma argsort_length v : length (argsort_by v) = length v.
Proof. rewrite (Permutation_length (argsort_perm v)), seq_length. reflexivity. Qed.

(* ---- sortedness needs an order on the keys that occur *)
Variable ok : K -> Prop.
Hypothesis asym : forall a b, ltb a b = true -> ltb b a = false.
Hypothesis le_trans : forall a b c, ok a -> ok b -> ok c -> le a b -> le b c -> le a c.

Lemma ins_sorted a l : ok (fst a) -> Forall (fun p => ok (fst p)) l ->
  StronglySorted (fun x y => le (fst x) (fst y)) l ->
  StronglySorted (fun x y => le (fst x) (fst y)) (ins_key a l).
Proof.
  intros Ha Hl Hs. induction l as [|b t IH]; cbn; [repeat constructor|].
  inversion Hl as [|? ? Hb Ht]; subst. inversion Hs as [|? ? Hst Hbt]; subst.
  destruct (ltb (fst b) (fst a)) eqn:E.
  - constructor; auto. rewrite Forall_forall in *. intros x Hx.
    apply (Permutation_in _ (Permutation_sym (ins_perm a t))) in Hx. destruct Hx as [<-|Hx]; auto.
    unfold le. apply asym; auto.
  - constructor; auto. constructor; [exact E|]. rewrite Forall_forall in *. intros x Hx.
    eapply le_trans with (b := fst b); auto; try exact E.
Qed.
Lemma sort_keys_sorted l : Forall (fun p => ok (fst p)) l ->
  StronglySorted (fun x y => le (fst x) (fst y)) (sort_keys l).
Proof.
  induction l as [|a t IH]; cbn; intros H; [constructor|]. inversion H; subst.
  apply ins_sorted; auto. rewrite Forall_forall in *. intros x Hx.
  apply (Permutation_in _ (Permutation_sym (sort_keys_perm t))) in Hx. auto.
Qed.

Lemma combine_nth_pair (v : list K) p : In p (combine v (seq 0 (length v))) -> fst p = key_at v (snd p).
Proof.
  intros Hp. unfold key_at.
  assert (H : forall s, In p (combine v (seq s (length v))) -> s <= snd p /\ fst p = nth (snd p - s) v dflt).
  { clear Hp. induction v as [|x t IH]; cbn; intros s Hin; [contradiction|]. destruct Hin as [<-|Hin]; cbn.
    - rewrite Nat.sub_diag. auto.
    - destruct (IH (S s) Hin) as [Hle Heq]. split; [lia|]. rewrite Heq.
      replace (snd p - s) with (S (snd p - S s)) by lia. reflexivity. }
  destruct (H 0 Hp) as [_ E]. rewrite Nat.sub_0_r in E. exact E.
Qed.

Theorem argsort_sorted v : Forall ok v -> StronglySorted le (map (key_at v) (argsort_by v)).
Proof.
  intros Hok. unfold argsort_by. rewrite map_map.
  set (c := combine v (seq 0 (length v))).
  assert (Hin : forall p, In p (sort_keys c) -> fst p = key_at v (snd p)).
  { intros p Hp. apply combine_nth_pair. eapply Permutation_in; [apply Permutation_sym, sort_keys_perm|exact Hp]. }
  assert (Hc : Forall (fun p => ok (fst p)) c).
  { rewrite Forall_forall in *. intros [k i] Hp. apply Hok. unfold c in Hp. apply in_combine_l in Hp. auto. }
  pose proof (sort_keys_sorted c Hc) as Hs. clear Hc.
  induction Hs as [|a l Hl IH Ha]; cbn; [constructor|].
  constructor.
  - apply IH. intros p Hp. apply Hin. right; auto.
  - rewrite Forall_forall in *. intros x Hx. apply in_map_iff in Hx as (p & <- & Hp).
    rewrite <- (Hin a) by (left; auto). rewrite <- (Hin p) by (right; auto). apply Ha; auto.
Qed.
Theorem argsort_valid v : Forall ok v -> valid_argsort v (argsort_by v).
Proof. intros H. split; [apply argsort_perm|apply argsort_sorted; auto]. Qed.

(* ---- uniqueness of the sorted key sequence *)
Hypothesis le_antisym : forall a b, ok a -> ok b -> le a b -> le b a -> a = b.

Lemma sorted_perm_eq (l1 l2 : list K) : Forall ok l1 ->
  StronglySorted le l1 -> StronglySorted le l2 -> Permutation l1 l2 -> l1 = l2.
Proof.
  revert l2. induction l1 as [|a t IH]; intros l2 Hok H1 H2 P.
  - apply Permutation_nil in P. auto.
  - destruct l2 as [|b u]; [apply Permutation_sym, Permutation_nil in P; discriminate|].
    inversion H1 as [|? ? Ht Ha]; inversion H2 as [|? ? Hu Hb]; subst. inversion Hok as [|? ? Hoa Hot]; subst.
    assert (Hob : ok b).
    { assert (In b (a :: t)) by (eapply Permutation_in; [apply Permutation_sym; exact P|left; auto]).
      rewrite Forall_forall in Hok. auto. }
    assert (a = b).
    { assert (Hi1 : In a (b :: u)) by (eapply Permutation_in; [exact P|left; auto]).
      assert (Hi2 : In b (a :: t)) by (eapply Permutation_in; [apply Permutation_sym; exact P|left; auto]).
      rewrite Forall_forall in Ha, Hb. destruct Hi1 as [->|Hin]; auto. destruct Hi2 as [->|Hin']; auto. }
    subst b. f_equal. apply IH; auto. eapply Permutation_cons_inv; eauto.
Qed.

Lemma map_key_seq (v : list K) : map (key_at v) (seq 0 (length v)) = v.
Proof.
  unfold key_at.
  assert (E : forall s (q : list K), map (fun i => nth (i - s) q dflt) (seq s (length q)) = q).
  { intros s q. revert s. induction q as [|x t IH]; cbn; intros s; auto. rewrite Nat.sub_diag. f_equal.
    rewrite <- (IH (S s)) at 2. apply map_ext_in. intros i Hi. apply in_seq in Hi.
    replace (i - s) with (S (i - S s)) by lia. reflexivity. }
  specialize (E 0 v). etransitivity; [|exact E]. apply map_ext. intros; rewrite Nat.sub_0_r; reflexivity.
Qed.

(* the keys read through any two valid argsorts coincide *)
Theorem valid_argsort_keys v p1 p2 : Forall ok v -> valid_argsort v p1 -> valid_argsort v p2 ->
  map (key_at v) p1 = map (key_at v) p2.
Proof.
  intros Hok [P1 S1] [P2 S2]. apply sorted_perm_eq; auto.
  - rewrite Forall_forall in *. intros k Hk. apply in_map_iff in Hk as (i & <- & Hi).
    apply Hok. unfold key_at. apply nth_In. eapply Permutation_in in Hi; [|exact P1]. apply in_seq in Hi. lia.
  - apply Permutation_map. rewrite P1. apply Permutation_sym. exact P2.
Qed.
End Argsort.

Arguments argsort_by {K} ltb v.
Arguments valid_argsort {K} ltb dflt v pi.
Arguments key_at {K} dflt v i.

(* ================= nat keys: permutations of 0..n-1 ================= *)
Definition argsort_nat (v : list nat) : list nat := argsort_by Nat.ltb v.
Definition is_perm (p : list nat) : Prop := Permutation p (seq 0 (length p)).

Lemma nat_asym a b : Nat.ltb a b = true -> Nat.ltb b a = false.
Proof. intros H. apply Nat.ltb_lt in H. apply Nat.ltb_ge. lia. Qed.
Lemma nat_le_iff a b : le nat Nat.ltb a b <-> a <= b.
Proof. unfold le. rewrite Nat.ltb_ge. tauto. Qed.
Lemma nat_sorted_iff l : StronglySorted (le nat Nat.ltb) l <-> StronglySorted Peano.le l.
Proof.
  split; induction 1 as [|a l Hs IH Ha]; constructor; auto;
  rewrite Forall_forall in *; intros x Hx; apply nat_le_iff; auto.
Qed.
Lemma seq_sorted s n : StronglySorted Peano.le (seq s n).
Proof.
  revert s. induction n as [|n IH]; cbn; intros s; constructor; auto.
  rewrite Forall_forall. intros x Hx. apply in_seq in Hx. lia.
Qed.

(* on a permutation p, reading p through ANY valid argsort gives the identity sequence *)
Theorem valid_argsort_inverse p pi : is_perm p -> valid_argsort Nat.ltb 0 p pi ->
  map (key_at 0 p) pi = seq 0 (length p).
Proof.
  intros Hp [P S].
  apply (sorted_perm_eq nat Nat.ltb (fun _ => True)).
  - intros a b _ _ H1 H2. apply nat_le_iff in H1, H2. lia.
  - apply Forall_forall; auto.
  - exact S.
  - apply nat_sorted_iff, seq_sorted.
  - transitivity (map (key_at 0 p) (seq 0 (length p))).
    + apply Permutation_map; auto.
    + rewrite map_key_seq. exact Hp.
Qed.

Lemma nth_map_lt {X Y} (f : X -> Y) l i da db : i < length l -> nth i (map f l) db = f (nth i l da).
Proof. revert i. induction l; cbn; intros i Hi; [lia|]. destruct i; auto. apply IHl. lia. Qed.

(* the rank transform fixes every permutation, whatever valid argsorts are used *)
Theorem rank_fixes_perm p q r : is_perm p ->
  valid_argsort Nat.ltb 0 p q -> valid_argsort Nat.ltb 0 q r -> r = p.
Proof.
  intros Hp Hq Hr.
  assert (Lq : length q = length p) by (destruct Hq as [P _]; rewrite (Permutation_length P), seq_length; auto).
  assert (Lr : length r = length p) by (destruct Hr as [P _]; rewrite (Permutation_length P), seq_length; auto).
  assert (Hqp : is_perm q) by (unfold is_perm; rewrite Lq; apply Hq).
  pose proof (valid_argsort_inverse p q Hp Hq) as H1.
  pose proof (valid_argsort_inverse q r Hqp Hr) as H2.
  apply nth_ext with (d := 0) (d' := 0); [lia|]. intros k Hk. rewrite Lr in Hk.
  assert (A1 : forall j, j < length p -> nth (nth j q 0) p 0 = j).
  { intros j Hj. change (nth (nth j q 0) p 0) with (key_at 0 p (nth j q 0)).
    rewrite <- (nth_map_lt (key_at 0 p) q j 0 0) by lia. rewrite H1. rewrite seq_nth; auto. }
  assert (A2 : nth (nth k r 0) q 0 = k).
  { change (nth (nth k r 0) q 0) with (key_at 0 q (nth k r 0)).
    rewrite <- (nth_map_lt (key_at 0 q) r k 0 0) by lia. rewrite H2, Lq. rewrite seq_nth; auto. }
  assert (Hrk : nth k r 0 < length p).
  { assert (Hin : In (nth k r 0) r) by (apply nth_In; lia).
    destruct Hr as [Pr _]. eapply Permutation_in in Hin; [|exact Pr]. apply in_seq in Hin. lia. }
  specialize (A1 (nth k r 0) Hrk). rewrite A2 in A1. symmetry. exact A1.
Qed.

Lemma argsort_nat_valid v : valid_argsort Nat.ltb 0 v (argsort_nat v).
Proof.
  apply (argsort_valid nat Nat.ltb 0 (fun _ => True)).
  - apply nat_asym.
  - intros a b c _ _ _ H1 H2. apply nat_le_iff in H1, H2. apply nat_le_iff. lia.
  - apply Forall_forall; auto.
Qed.

(* a valid argsort of pairwise distinct nat keys is unique *)
Theorem valid_argsort_unique_perm q r1 r2 : is_perm q ->
  valid_argsort Nat.ltb 0 q r1 -> valid_argsort Nat.ltb 0 q r2 -> r1 = r2.
Proof.
  intros Hq H1 H2.
  (* both are the inverse permutation: use rank_fixes_perm through the inverse *)
  assert (L1 : length r1 = length q) by (destruct H1 as [P _]; rewrite (Permutation_length P), seq_length; auto).
  assert (L2 : length r2 = length q) by (destruct H2 as [P _]; rewrite (Permutation_length P), seq_length; auto).
  pose proof (valid_argsort_inverse q r1 Hq H1) as E1.
  pose proof (valid_argsort_inverse q r2 Hq H2) as E2.
  (* q is injective on indexes < n *)
  assert (Inj : forall i j, i < length q -> j < length q -> nth i q 0 = nth j q 0 -> i = j).
  { assert (ND : NoDup q) by (eapply Permutation_NoDup; [apply Permutation_sym; exact Hq|apply seq_NoDup]).
    intros i j Hi Hj E. eapply NoDup_nth; eauto. }
  apply nth_ext with (d := 0) (d' := 0); [lia|]. intros k Hk. rewrite L1 in Hk.
  assert (B : forall r, length r = length q -> Permutation r (seq 0 (length q)) -> nth k r 0 < length q).
  { intros r Lr Pr. assert (Hin : In (nth k r 0) r) by (apply nth_In; lia).
    eapply Permutation_in in Hin; [|exact Pr]. apply in_seq in Hin. lia. }
  apply Inj; [apply B; auto; apply H1|apply B; auto; apply H2|].
  change (key_at 0 q (nth k r1 0) = key_at 0 q (nth k r2 0)).
  rewrite <- (nth_map_lt (key_at 0 q) r1 k 0 0) by lia.
  rewrite <- (nth_map_lt (key_at 0 q) r2 k 0 0) by lia. rewrite E1, E2. reflexivity.
Qed.

(* the pinned tree's `correct = argsort` was not idempotent (the finding behind the fix) *)
Example argsort_not_idempotent : exists v, argsort_nat (argsort_nat v) <> argsort_nat v.
Proof. exists [1; 2; 0]. vm_compute. discriminate. Qed.
