(* Select.v — executable model of helpers.py's sorting / selection helpers and of the greedy /
   trim helpers of abstract.py (C16; used by C03, C10, C17).  Definitions only; the proofs are in
   Select_proofs.v so that the model still evaluates when a proof breaks. *)
From Coq Require Import List ZArith Bool Arith.
From PV Require Import Xnum.
Import ListNotations.

Inductive dir := MIN | MAX.
Definition dir_eqb (a b : dir) : bool :=
  match a, b with MIN, MIN | MAX, MAX => true | _, _ => false end.

Section Select.
Variable A : Type.
Variable cost : A -> xnum.
Variable copy : A -> A.                 (* agent.model_copy(): a fresh object with the same fields *)

(* Python's list.sort(key=cost, reverse=(tt == MAX)) is a stable sort that compares keys with `<`
   (reverse=True preserves the original order of equal keys as well).  [before d a b]: an element a
   being inserted from the left stops in front of b. *)
Definition before (d : dir) (a b : A) : bool :=
  match d with MIN => negb (xltb (cost b) (cost a)) | MAX => negb (xltb (cost a) (cost b)) end.
(* a strictly better than b in direction d *)
Definition better (d : dir) (a b : A) : bool :=
  match d with MIN => xltb (cost a) (cost b) | MAX => xltb (cost b) (cost a) end.

Fixpoint insert (d : dir) (a : A) (l : list A) : list A :=
  match l with [] => [a] | b :: t => if before d a b then a :: l else b :: insert d a t end.
Definition sort_by_cost (d : dir) (l : list A) : list A := fold_right (insert d) [] l.

Definition best_agents (n : nat) (d : dir) (l : list A) : list A := firstn n (sort_by_cost d l).
Definition worst_agents (n : nat) (d : dir) (l : list A) : list A :=
  skipn (length l - n) (sort_by_cost d l).
(* `b, = best_agents(pop, 1, tt)` raises ValueError unless exactly one element comes back *)
Definition best_agent (d : dir) (l : list A) : option A :=
  match best_agents 1 d l with [b] => Some b | _ => None end.
Definition worst_agent (d : dir) (l : list A) : option A :=
  match worst_agents 1 d l with [w] => Some w | _ => None end.
(* special_agents(pop, n_best, n_worst, tt): None = the ValueError of the (None, None) call *)
Definition special_agents (nb nw : option nat) (d : dir) (l : list A) : option (list A * list A) :=
  match nb, nw with
  | None, None => None
  | _, _ => Some (match nb with Some n => best_agents n d l | None => [] end,
                  match nw with Some n => worst_agents n d l | None => [] end)
  end.

Definition sort_and_trim (l : list A) (p : nat) : list A := firstn p (sort_by_cost MIN l).

(* index variants: numpy's argsort result pi is an input (numpy's default sort is not stable, so the
   model does not fix the tie-breaking); MAX reverses it as the code does *)
Definition sort_by_cost_indexes (d : dir) (pi : list nat) : list nat :=
  match d with MIN => pi | MAX => rev pi end.
Definition best_agents_indexes (n : nat) (d : dir) (pi : list nat) : list nat :=
  firstn n (sort_by_cost_indexes d pi).
Definition worst_agents_indexes (n : nat) (d : dir) (pi : list nat) : list nat :=
  skipn (length pi - n) (sort_by_cost_indexes d pi).

(* abstract.py *)
Definition greedy (a b : A) : A := if xltb (cost b) (cost a) then b else copy a.
Fixpoint map2 {X Y Z} (f : X -> Y -> Z) (l1 : list X) (l2 : list Y) : list Z :=
  match l1, l2 with x :: t1, y :: t2 => f x y :: map2 f t1 t2 | _, _ => [] end.
(* _greedy_select_population: new_population[idx] raises IndexError (None) when new is shorter *)
Definition greedy_population (pop new : list A) : option (list A) :=
  if length new <? length pop then None
  else Some (map2 greedy (sort_by_cost MIN pop) (sort_by_cost MIN new)).
Definition extend_and_trim (p : nat) (pop new : list A) : list A :=
  match new with [] => pop | _ => sort_and_trim (pop ++ new) p end.
Definition replace_and_trim (p : nat) (new : list A) : list A := sort_and_trim new p.

End Select.

Arguments before {A} cost d a b.
Arguments better {A} cost d a b.
Arguments insert {A} cost d a l.
Arguments sort_by_cost {A} cost d l.
Arguments best_agents {A} cost n d l.
Arguments worst_agents {A} cost n d l.
Arguments best_agent {A} cost d l.
Arguments worst_agent {A} cost d l.
Arguments special_agents {A} cost nb nw d l.
Arguments sort_and_trim {A} cost l p.
Arguments greedy {A} cost copy a b.
Arguments greedy_population {A} cost copy pop new.
Arguments extend_and_trim {A} cost p pop new.
Arguments replace_and_trim {A} cost p new.

(* numpy argsort specification: any permutation of the indices that reads the keys in ascending order *)
Definition nth_key (cs : list xnum) (i : nat) : xnum := nth i cs XNaN.
Fixpoint sorted_leb (l : list xnum) : bool :=
  match l with
  | a :: ((b :: _) as t) => xleb a b && sorted_leb t
  | _ => true
  end.
