(* Multi.v — model of multitask.Multitask: broadcasting of `modes` to an (algorithm x task) table in the
   code's branch order, validation, the execution plan and the export paths (C20). *)
From Coq Require Import String List Arith Bool Lia.
Import ListNotations.
Open Scope list_scope.

Section Multi.
Variable V : Type.                     (* a mode value as given by the caller *)
Variable valid : V -> bool.            (* `mode in ModeSolver` *)
Variable serial : V.

Inductive modes_arg := MNone | MNotTuple | MTuple (vs : list V).

(* __check_input__: None = ValueError; Some None = no table (modes=None) *)
Definition check_input (n m : nat) (a : modes_arg) : option (option (list (list V))) :=
  match a with
  | MNone => Some None
  | MNotTuple => None
  | MTuple vs =>
      if length vs =? 1 then Some (Some (repeat (repeat (hd serial vs) m) n))
      else if length vs =? n then Some (Some (map (fun v => repeat v m) vs))
      else if length vs =? m then Some (Some (repeat vs n))
      else if length vs =? n * m then Some (Some (map (fun i => firstn m (skipn (i * m) vs)) (seq 0 n)))
      else None
  end.
(* __check_modes__ *)
Definition check_modes (t : option (list (list V))) : bool :=
  match t with None => true | Some rows => forallb valid (concat rows) end.
(* the constructor: None = ValueError *)
Definition construct (n m : nat) (a : modes_arg) : option (option (list (list V))) :=
  match check_input n m a with
  | None => None
  | Some t => if check_modes t then Some t else None
  end.
(* __get_mode__ *)
Definition get_mode (t : option (list (list V))) (i j : nat) : V :=
  match t with None => serial | Some rows => nth j (nth i rows []) serial end.

(* execute: for every algorithm, for every task: n_trials trials with the designated mode *)
Definition plan (t : option (list (list V))) (n m n_trials : nat) : list (nat * nat * nat * V) :=
  flat_map (fun i => flat_map (fun j => map (fun k => (i, j, k, get_mode t i j)) (seq 1 n_trials)) (seq 0 m)) (seq 0 n).

(* export_results: directory of algorithm i *)
Definition export_dir (save_path : string) (names : list string) (i : nat) : string :=
  (save_path ++ "/" ++ nth i names "")%string.
End Multi.

(* ------------------------------------------------------------------ theorems *)
Section MultiProofs.
Variable V : Type.
Variable valid : V -> bool.
Variable serial : V.
Notation check_input := (check_input V serial).
Notation get_mode := (get_mode V serial).

Lemma nth_repeat {X} (x d : X) n i : i < n -> nth i (repeat x n) d = x.
Proof. revert i. induction n as [|n IH]; intros [|i] H; cbn; auto; try lia. apply IH. lia. Qed.

(* one value: every pair gets it *)
Theorem broadcast_one n m v i j : i < n -> j < m -> forall t, check_input n m (MTuple V [v]) = Some t -> get_mode t i j = v.
Proof. intros Hi Hj t H. cbn in H. inversion H; subst. cbn. rewrite (nth_repeat _ [] n i Hi). apply nth_repeat; auto. Qed.

(* one per algorithm (n values, n <> 1): pair (i, j) gets the i-th *)
Theorem broadcast_per_algorithm n m vs i j : length vs = n -> n <> 1 -> i < n -> j < m ->
  forall t, check_input n m (MTuple V vs) = Some t -> get_mode t i j = nth i vs serial.
Proof.
  intros Hl Hn Hi Hj t H. cbn in H. rewrite Hl in H.
  destruct (Nat.eqb_spec n 1); [contradiction|]. rewrite Nat.eqb_refl in H. inversion H; subst. cbn.
  rewrite (nth_indep _ [] (repeat serial m)) by (rewrite map_length; lia).
  rewrite (map_nth (fun v => repeat v m)). apply nth_repeat; auto.
Qed.

(* one per task (m values, m <> 1, m <> n): pair (i, j) gets the j-th *)
Theorem broadcast_per_task n m vs i j : length vs = m -> m <> 1 -> m <> n -> i < n -> j < m ->
  forall t, check_input n m (MTuple V vs) = Some t -> get_mode t i j = nth j vs serial.
Proof.
  intros Hl H1 Hn Hi Hj t H. cbn in H. rewrite Hl in H.
  destruct (Nat.eqb_spec m 1); [contradiction|]. destruct (Nat.eqb_spec m n); [contradiction|].
  rewrite Nat.eqb_refl in H. inversion H; subst. cbn. rewrite (nth_repeat _ [] n i Hi). reflexivity.
Qed.

(* one per pair (n*m values, n*m not in {1, n, m}): pair (i, j) gets entry i*m + j *)
Theorem broadcast_per_pair n m vs i j : length vs = n * m -> n * m <> 1 -> n * m <> n -> n * m <> m -> i < n -> j < m ->
  forall t, check_input n m (MTuple V vs) = Some t -> get_mode t i j = nth (i * m + j) vs serial.
Proof.
  intros Hl H1 Hn Hm Hi Hj t H. cbn in H. rewrite Hl in H.
  destruct (Nat.eqb_spec (n * m) 1); [contradiction|]. destruct (Nat.eqb_spec (n * m) n); [contradiction|].
  destruct (Nat.eqb_spec (n * m) m); [contradiction|]. rewrite Nat.eqb_refl in H. inversion H; subst. cbn.
  rewrite (nth_indep _ [] ((fun i => firstn m (skipn (i * m) vs)) 0)) by (rewrite map_length, seq_length; lia).
  rewrite (map_nth (fun i => firstn m (skipn (i * m) vs))). rewrite seq_nth by lia. cbn [Nat.add].
  assert (G : forall (l : list V) a b, b < m -> nth b (firstn m (skipn a l)) serial = nth (a + b) l serial).
  { intros l a. revert l. induction a as [|a IH]; intros l b Hb; cbn [skipn Nat.add].
    - revert b Hb. generalize m. induction l as [|x t IHl]; intros mm b Hb; [destruct mm, b; reflexivity|].
      destruct mm; [lia|]. destruct b; cbn; auto. apply IHl. lia.
    - destruct l; [rewrite firstn_nil; destruct b; reflexivity|]. cbn. apply IH; auto. }
  apply G; auto.
Qed.
(* modes=None: everything runs in serial mode *)
Theorem broadcast_none n m i j : forall t, check_input n m (MNone V) = Some t -> get_mode t i j = serial.
Proof. intros t H. inversion H. reflexivity. Qed.
(* any other length, and a non-tuple, are rejected *)
Theorem bad_shape_rejected n m vs : length vs <> 1 -> length vs <> n -> length vs <> m -> length vs <> n * m ->
  check_input n m (MTuple V vs) = None.
Proof.
  intros A B C D. cbn. destruct (Nat.eqb_spec (length vs) 1); [contradiction|]. destruct (Nat.eqb_spec (length vs) n); [contradiction|].
  destruct (Nat.eqb_spec (length vs) m); [contradiction|]. destruct (Nat.eqb_spec (length vs) (n * m)); [contradiction|]. reflexivity.
Qed.

(* an unknown mode anywhere in the table is rejected at construction *)
Theorem unknown_mode_rejected n m a t : check_input n m a = Some (Some t) -> existsb (fun v => negb (valid v)) (concat t) = true ->
  construct V valid serial n m a = None.
Proof.
  intros H Hex. unfold construct. rewrite H. cbn.
  destruct (forallb valid (concat t)) eqn:E; auto. rewrite forallb_forall in E. apply existsb_exists in Hex as (v & Hv & Hn).
  rewrite (E v Hv) in Hn. discriminate.
Qed.

(* the plan: every (algorithm, task, trial) exactly once, with the designated mode *)
Theorem plan_complete t n m k i j tr v : In (i, j, tr, v) (plan V serial t n m k) <-> i < n /\ j < m /\ 1 <= tr <= k /\ v = get_mode t i j.
Proof.
  unfold plan. rewrite in_flat_map. split.
  - intros (i' & Hi & H). rewrite in_flat_map in H. destruct H as (j' & Hj & H). apply in_map_iff in H as (k' & E & Hk).
    inversion E; subst. apply in_seq in Hi, Hj, Hk. repeat split; lia.
  - intros (Hi & Hj & Hk & ->). exists i. split; [apply in_seq; lia|]. rewrite in_flat_map. exists j. split; [apply in_seq; lia|].
    apply in_map_iff. exists tr. split; auto. apply in_seq. lia.
Qed.
Theorem plan_length t n m k : length (plan V serial t n m k) = n * m * k.
Proof.
  unfold plan.
  assert (A : forall (l : list nat), length (flat_map (fun j => map (fun kk => (0, j, kk, serial)) (seq 1 k)) l) = length l * k).
  { induction l; cbn; auto. rewrite app_length, map_length, seq_length. lia. }
  assert (B : forall i (l : list nat), length (flat_map (fun j => map (fun kk => (i, j, kk, get_mode t i j)) (seq 1 k)) l) = length l * k).
  { intros i. induction l; cbn; auto. rewrite app_length, map_length, seq_length. lia. }
  assert (C : forall (l : list nat), length (flat_map (fun i => flat_map (fun j => map (fun kk => (i, j, kk, get_mode t i j)) (seq 1 k)) (seq 0 m)) l) = length l * (m * k)).
  { induction l; cbn; auto. rewrite app_length, B, seq_length. lia. }
  rewrite C, seq_length. lia.
Qed.
End MultiProofs.
