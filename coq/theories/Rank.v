(* Rank.v — model of the selection step of HyperTuner.execute (C19, second half):
     rank_mean = trial_mean.rank(ascending = (task is min))            (method "average")
     rank_std  = trial_std.rank(ascending = (task is min))
     rank_mean_std = (rank_mean, rank_std) tuples, dense rank, ascending
     best row = first row whose rank_mean_std is minimal
   and the evaluation plan (every grid point x every trial). *)
From Coq Require Import List ZArith Bool Arith Lia.
From PV Require Import Xnum Select.
Import ListNotations.

Section Rank.
(* pandas average rank, doubled to stay in nat: 2 * #strictly-before + #equal + 1; NaN gets no rank *)
Definition before_d (d : dir) (a b : xnum) : bool := match d with MIN => xltb a b | MAX => xltb b a end.
Definition rank2 (d : dir) (col : list xnum) (x : xnum) : option nat :=
  if is_nan x then None
  else Some (2 * length (filter (fun y => before_d d y x) col) + length (filter (fun y => xeqb y x) col) + 1).

(* Python's tuple `<` on (rank_mean, rank_std): a missing rank (NaN) compares false with everything *)
Definition olt (a b : option nat) : bool := match a, b with Some x, Some y => x <? y | _, _ => false end.
Definition oeq (a b : option nat) : bool := match a, b with Some x, Some y => x =? y | _, _ => false end.
Definition tlt (a b : option nat * option nat) : bool :=
  olt (fst a) (fst b) || (oeq (fst a) (fst b) && olt (snd a) (snd b)).

Definition keys (d : dir) (rows : list (xnum * xnum)) : list (option nat * option nat) :=
  map (fun r => (rank2 d (map fst rows) (fst r), rank2 d (map snd rows) (snd r))) rows.

(* the first row no other row is ranked strictly before *)
Fixpoint first_minimal (ks : list (option nat * option nat)) (all : list (option nat * option nat)) (i : nat) : option nat :=
  match ks with
  | [] => None
  | k :: t => if forallb (fun k' => negb (tlt k' k)) all then Some i else first_minimal t all (S i)
  end.
Definition select (d : dir) (rows : list (xnum * xnum)) : option nat :=
  let ks := keys d rows in first_minimal ks ks 0.

(* the evaluation plan: every grid point, every trial *)
Definition plan {P} (points : list P) (n_trials : nat) : list (P * nat) :=
  flat_map (fun p => map (fun t => (p, t)) (seq 0 n_trials)) points.
End Rank.

(* ------------------------------------------------------------------ theorems *)
Lemma first_minimal_spec ks all i0 i : first_minimal ks all i0 = Some i ->
  exists k, nth_error ks (i - i0) = Some k /\ i0 <= i /\ forallb (fun k' => negb (tlt k' k)) all = true.
Proof.
  revert i0. induction ks as [|k t IH]; cbn; intros i0 H; [discriminate|].
  destruct (forallb (fun k' => negb (tlt k' k)) all) eqn:E.
  - inversion H; subst. exists k. rewrite Nat.sub_diag. auto.
  - destruct (IH (S i0) H) as (k' & Hn & Hle & Hm). exists k'. split; [|split; auto; lia].
    replace (i - i0) with (S (i - S i0)) by lia. exact Hn.
Qed.

Lemma filter_length_le {X} (f g : X -> bool) l : (forall x, f x = true -> g x = true) -> length (filter f l) <= length (filter g l).
Proof.
  intros H. induction l as [|a t IH]; cbn; auto. destruct (f a) eqn:E.
  - rewrite (H a E). cbn. lia.
  - destruct (g a); cbn; lia.
Qed.

Lemma before_d_trans d a b c : before_d d a b = true -> before_d d b c = true -> before_d d a c = true.
Proof. destruct d; cbn; intros; eapply xltb_trans; eauto. Qed.
Lemma before_eq_l d a b c : xeqb a b = true -> before_d d b c = true -> before_d d a c = true.
Proof. intros E. apply xeqb_eq in E as [-> _]. auto. Qed.

Lemma before_or_equal_count d col a b : before_d d a b = true ->
  length (filter (fun y => before_d d y a) col) + length (filter (fun y => xeqb y a) col) <= length (filter (fun y => before_d d y b) col).
Proof.
  intros Hab. induction col as [|y t IH]; cbn; auto.
  destruct (before_d d y a) eqn:E1, (xeqb y a) eqn:E2, (before_d d y b) eqn:E3; cbn; try lia; exfalso;
    try (rewrite (before_d_trans d y a b E1 Hab) in E3; discriminate);
    try (rewrite (before_eq_l d y a b E2 Hab) in E3; discriminate);
    try (apply xeqb_eq in E2 as [E2 _]; subst y; destruct d; cbn in E1; rewrite xltb_irrefl in E1; discriminate).
Qed.
Lemma equal_count_pos col a : In a col -> non_nan a -> 1 <= length (filter (fun y => xeqb y a) col).
Proof.
  intros Hin Ha. induction col as [|y t IH]; [contradiction|]. cbn. destruct Hin as [->|Hin].
  - replace (xeqb a a) with true by (symmetry; apply xeqb_eq; auto). cbn. lia.
  - destruct (xeqb y a); cbn; [lia|auto].
Qed.

(* a strictly better mean has a strictly smaller rank *)
Lemma better_mean_smaller_rank d col a b : In a col -> non_nan a -> non_nan b -> before_d d a b = true ->
  exists ra rb, rank2 d col a = Some ra /\ rank2 d col b = Some rb /\ ra < rb.
Proof.
  intros Hin Ha Hb Hab. unfold rank2.
  replace (is_nan a) with false by (destruct a; cbn; auto; congruence).
  replace (is_nan b) with false by (destruct b; cbn; auto; congruence).
  eexists. eexists. split; [reflexivity|]. split; [reflexivity|].
  pose proof (before_or_equal_count d col a b Hab). pose proof (equal_count_pos col a Hin Ha). lia.
Qed.

(* the selected row has an optimal mean in the task's direction: no row has a strictly better mean *)
Theorem selected_is_optimal d rows i : Forall (fun r => non_nan (fst r)) rows ->
  select d rows = Some i ->
  exists r, nth_error rows i = Some r /\ forall o, In o rows -> before_d d (fst o) (fst r) = false.
Proof.
  intros Hnn Hs. unfold select in Hs. destruct (first_minimal_spec _ _ _ _ Hs) as (k & Hk & _ & Hmin).
  rewrite Nat.sub_0_r in Hk. unfold keys in Hk. rewrite nth_error_map in Hk.
  destruct (nth_error rows i) as [r|] eqn:Er; [|discriminate]. cbn in Hk. inversion Hk; subst k. clear Hk.
  exists r. split; auto. intros o Ho.
  destruct (before_d d (fst o) (fst r)) eqn:Eb; auto. exfalso.
  rewrite Forall_forall in Hnn.
  assert (I1 : In (fst o) (map fst rows)) by (apply in_map; auto).
  assert (I2 : non_nan (fst o)) by (apply Hnn; auto).
  assert (I3 : non_nan (fst r)) by (apply Hnn; eapply nth_error_In; eauto).
  destruct (better_mean_smaller_rank d (map fst rows) (fst o) (fst r) I1 I2 I3 Eb) as (ra & rb & E1 & E2 & Hlt).
  rewrite forallb_forall in Hmin.
  specialize (Hmin (rank2 d (map fst rows) (fst o), rank2 d (map snd rows) (snd o))).
  assert (Hin : In (rank2 d (map fst rows) (fst o), rank2 d (map snd rows) (snd o)) (keys d rows)).
  { unfold keys. apply in_map_iff. exists o. auto. }
  specialize (Hmin Hin). unfold tlt in Hmin. cbn [fst snd] in Hmin. rewrite E1, E2 in Hmin. unfold olt at 1 in Hmin.
  apply Nat.ltb_lt in Hlt. rewrite Hlt in Hmin. discriminate.
Qed.

(* every (grid point, trial) pair is evaluated, each exactly as many times as the point occurs in the grid *)
Theorem plan_complete {P} (points : list P) n p t : In (p, t) (plan points n) <-> In p points /\ t < n.
Proof.
  unfold plan. rewrite in_flat_map. split.
  - intros (q & Hq & Hin). apply in_map_iff in Hin as (t' & E & Ht). inversion E; subst. apply in_seq in Ht. split; auto; lia.
  - intros [Hp Ht]. exists p. split; auto. apply in_map. apply in_seq. lia.
Qed.
Theorem plan_length {P} (points : list P) n : length (plan points n) = length points * n.
Proof.
  unfold plan. induction points as [|p r IH]; cbn; auto. rewrite app_length, map_length, seq_length, IH. reflexivity.
Qed.

Example select_example :
  select MIN [(xint 3, xint 1); (xint 1, xint 5); (xint 1, xint 2); (xint 2, XNaN)] = Some 2 /\
  select MAX [(xint 3, XNaN); (xint 1, XNaN); (xint 3, XNaN)] = Some 0.
Proof. vm_compute. split; reflexivity. Qed.
