(* PyLib.v — the library table of the T-core translator: the Gallina meaning given to the Python /
   numpy operations it maps (DESIGN.md §5.1).  Each entry is differentially validated by the
   correspondence runs; the table itself is part of the trusted base. *)
From Coq Require Import List ZArith Bool Arith.
From PV Require Import Xnum Select.
Import ListNotations.

Inductive mode := SERIAL | THREAD | PROCESS.
Definition mode_eqb (a b : mode) : bool :=
  match a, b with SERIAL, SERIAL | THREAD, THREAD | PROCESS, PROCESS => true | _, _ => false end.

Definition is_some {X} (o : option X) : bool := match o with Some _ => true | None => false end.
Definition opt_list {X} (o : option (list X)) : list X := match o with Some l => l | None => nil end.
Definition lastn {X} (n : nat) (l : list X) : list X := skipn (length l - n) l.     (* l[-n:], 1 <= n *)
Definition last_opt {X} (l : list X) : option X :=
  match rev l with x :: _ => Some x | [] => None end.                               (* l[-1] *)

(* list.sort(key=cost, reverse=r): stable, compares keys with < *)
Definition py_sort {A} (cost : A -> xnum) (reverse : bool) (l : list A) : list A :=
  sort_by_cost cost (if reverse then MAX else MIN) l.

(* [E(a, M[idx]) for idx, a in enumerate(L)]: the first missing M[idx] raises IndexError *)
Definition py_enum_zip {X Y Z} (f : X -> Y -> Z) (L : list X) (M : list Y) : option (list Z) :=
  if length M <? length L then None else Some (map2 f L M).

(* `x, = l` : ValueError unless exactly one element *)
Definition single {X} (l : list X) : option X := match l with [x] => Some x | _ => None end.

Definition obind {X Y} (o : option X) (f : X -> option Y) : option Y :=
  match o with Some x => f x | None => None end.

Fixpoint sequence {X} (l : list (option X)) : option (list X) :=
  match l with
  | [] => Some []
  | None :: _ => None
  | Some x :: t => match sequence t with Some r => Some (x :: r) | None => None end
  end.
Definition map_opt {X Y} (f : X -> option Y) (l : list X) : option (list Y) := sequence (map f l).

Fixpoint zip {X Y} (l1 : list X) (l2 : list Y) : list (X * Y) :=
  match l1, l2 with x :: t1, y :: t2 => (x, y) :: zip t1 t2 | _, _ => [] end.

(* l[k] with Python's negative indexes; None = IndexError *)
Definition py_getitem {X} (l : list X) (k : Z) : option X :=
  let n := Z.of_nat (length l) in
  if ((k <? - n) || (n <=? k))%Z then None
  else nth_error l (Z.to_nat (if (k <? 0)%Z then k + n else k)%Z).
