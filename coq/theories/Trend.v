(* Trend.v — model of utils.py (agent_trend / agent_position / best_agent_trend / best_agent_position)
   and the theorems of C15's second half. *)
From Coq Require Import List ZArith Bool Arith Lia Permutation Sorted.
From PV Require Import Xnum Select PyLib Select_proofs.
Import ListNotations.

Section Trend.
Variable A : Type.
Variable cost : A -> xnum.
Variable V : Type.
Variable sel : A -> V.              (* .cost or .position *)

(* sort_by_cost(result.evolution[i].agents, result.task_type)[idx].<field>; None = IndexError *)
Definition trend_cell (evo : list (list A)) (d : dir) (i idx : nat) : option V :=
  match nth_error evo i with
  | None => None
  | Some pop => option_map sel (nth_error (sort_by_cost cost d pop) idx)
  end.
Definition agent_trend (evo : list (list A)) (d : dir) (idx : nat) (iters : option (list nat)) : option (list V) :=
  map_opt (fun i => trend_cell evo d i idx) (match iters with Some l => l | None => seq 0 (length evo) end).
Definition best_agent_trend evo d iters := agent_trend evo d 0 iters.
End Trend.

Section TrendProofs.
Variable A : Type.
Variable cost : A -> xnum.

Lemma map_opt_Forall2 {X Y} (f : X -> option Y) l r : map_opt f l = Some r -> Forall2 (fun x y => f x = Some y) l r.
Proof.
  unfold map_opt. revert r. induction l as [|a t IH]; cbn; intros r H.
  - inversion H. constructor.
  - destruct (f a) eqn:E; [|discriminate]. destruct (sequence (map f t)) eqn:Es; [|discriminate].
    inversion H; subst. constructor; auto.
Qed.

Lemma Forall2_imp {X Y} (P Q : X -> Y -> Prop) l r : (forall x y, P x y -> Q x y) -> Forall2 P l r -> Forall2 Q l r.
Proof. intros H. induction 1; constructor; auto. Qed.

(* each entry is the field of the idx-th agent of that generation's population sorted in the task's direction *)
Theorem agent_trend_spec V (sel : A -> V) evo d idx iters r :
  agent_trend A cost V sel evo d idx iters = Some r ->
  Forall2 (fun i v => exists pop a, nth_error evo i = Some pop /\ nth_error (sort_by_cost cost d pop) idx = Some a /\ v = sel a)
          (match iters with Some l => l | None => seq 0 (length evo) end) r.
Proof.
  intros H. apply map_opt_Forall2 in H. eapply Forall2_imp; [|exact H].
  intros i v Hc. unfold trend_cell in Hc. destruct (nth_error evo i) as [pop|]; [|discriminate].
  destruct (nth_error (sort_by_cost cost d pop) idx) as [a|] eqn:E; [|discriminate]. inversion Hc. eauto.
Qed.

(* ... and that agent is the idx-th best: nobody before it in the order is worse, nobody after it better *)
Theorem ranked_agent_is_idx_th_best d pop idx a : costs_ok A cost pop ->
  nth_error (sort_by_cost cost d pop) idx = Some a ->
  In a pop /\
  (forall j b, j < idx -> nth_error (sort_by_cost cost d pop) j = Some b -> better cost d a b = false) /\
  (forall j b, idx < j -> nth_error (sort_by_cost cost d pop) j = Some b -> better cost d b a = false).
Proof.
  intros Hc Hn. pose proof (sort_sorted A cost d pop Hc) as S.
  split; [apply (sort_in A cost d), nth_error_In with idx; auto|].
  assert (G : forall l, StronglySorted (Before A cost d) l -> forall i j x y, i < j -> nth_error l i = Some x -> nth_error l j = Some y ->
              better cost d y x = false).
  { induction 1 as [|h t Ht IH Hh]; intros i j x y Hij Hi Hj; [destruct i; discriminate|].
    destruct i as [|i]; destruct j as [|j]; try lia; cbn [nth_error] in Hi, Hj.
    - inversion Hi; subst. rewrite Forall_forall in Hh. specialize (Hh y (nth_error_In _ _ Hj)).
      unfold Before in Hh. rewrite before_not_better in Hh. apply negb_true_iff in Hh. exact Hh.
    - apply (IH i j x y); auto. lia. }
  split; intros j b Hj Hb; eapply G; eauto.
Qed.

(* two agents that are both optimal have the same cost *)
Lemma optimal_same_cost d (a b : A) : non_nan (cost a) -> non_nan (cost b) ->
  better cost d a b = false -> better cost d b a = false -> cost a = cost b.
Proof.
  intros Ha Hb H1 H2. destruct d; cbn in *; rewrite xltb_not_leb in H1, H2 by auto;
    apply negb_false_iff in H1, H2; apply xleb_antisym; auto.
Qed.

(* the last entry of best_agent_trend is the cost of any optimal member of the last generation (e.g. best_solution, C03) *)
Theorem best_trend_last_is_best evo d r last_pop b : costs_ok A cost last_pop ->
  best_agent_trend A cost xnum cost evo d None = Some r -> evo <> [] -> last evo [] = last_pop ->
  In b last_pop -> (forall o, In o last_pop -> better cost d o b = false) ->
  last r XNaN = cost b.
Proof.
  intros Hc H Hne Hl Hb Hopt. unfold best_agent_trend in H. apply agent_trend_spec in H.
  destruct (exists_last Hne) as (e0 & lp & Ee). rewrite Ee in *. rewrite last_last in Hl. subst lp.
  rewrite app_length, seq_app in H. cbn in H.
  apply Forall2_app_inv_l in H as (r1 & r2 & H1 & H2 & ->).
  inversion H2 as [|i v l1 l2 Hiv Hrest]; subst. inversion Hrest; subst.
  rewrite last_last. destruct Hiv as (pop & a & En & Ea & ->).
  rewrite ?Nat.add_0_r, ?Nat.add_0_l in En. rewrite nth_error_app2, Nat.sub_diag in En by lia. cbn in En. inversion En; subst pop.
  destruct (ranked_agent_is_idx_th_best d last_pop 0 a Hc Ea) as (Hin & _ & Hafter).
  assert (Ha : forall o, In o last_pop -> better cost d o a = false).
  { intros o Ho. apply (sort_in A cost d) in Ho. apply In_nth_error in Ho as (j & Hj). destruct j as [|j].
    - assert (Some o = Some a) by (rewrite <- Hj, <- Ea; reflexivity). inversion H; subst. destruct d; cbn; apply xltb_irrefl.
    - apply (Hafter (S j) o); auto. apply Nat.lt_0_succ. }
  unfold costs_ok in Hc. rewrite Forall_forall in Hc.
  apply (optimal_same_cost d); auto.
Qed.
End TrendProofs.
