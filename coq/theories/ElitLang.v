(* ElitLang.v — the judgement "this population write keeps every slot at least as good as it was" RE-DERIVED INSIDE COQ.

   T-algo (Python) extracts, for every `self._population = [f(.., a) for .., a in ..self._population]` write, the element function as a small program
   over agents-as-costs: names, `_greedy_select_agent`, `model_copy`, conditional expressions, `best_agent([..])`, inlined local functions / own methods
   (blocks with returns), assignments, `if` (with the test `x.cost < y.cost` kept, every other test opaque), loops, and OPAQUE for everything else
   (`_init_agent(..)`, numpy, ...).  Its own flow analysis decides whether the result can be worse than the slot's incumbent.  Here the same question is
   decided by [agood] / [aexec], and [agood_sound] proves the decision right against a nondeterministic semantics in which every opaque value, opaque
   test and loop count is arbitrary: whatever the numeric kernel does, a program the analysis accepts returns an agent whose (internal) cost is <= the
   incumbent's.  What remains trusted of T-algo for this fact is the EXTRACTION (syntax to syntax), no longer the judgement. *)
From Coq Require Import List ZArith Bool Arith Lia.
Import ListNotations.
Open Scope Z_scope.

Inductive exp :=
| EName (x : nat)
| EGreedy (a b : exp)          (* self._greedy_select_agent(a, b): b if b.cost < a.cost else a *)
| ECopy (a : exp)              (* a.model_copy() / a.copy(): same cost *)
| EIfExp (a b : exp)           (* a if <opaque> else b *)
| EBestOf (l : list exp)       (* best_agent([..]) : a cheapest member *)
| EBlock (body : list stmt)    (* an inlined local function / own method: the value it returns *)
| EOpaque                      (* anything else: an arbitrary agent *)
with stmt :=
| SAssign (x : nat) (e : exp)
| SKill (xs : list nat)        (* names rebound by something the extraction gives no meaning to *)
| SIf (c : option (bool * nat * nat)) (s1 s2 : list stmt)   (* Some (strict, x, y): the test is x.cost < y.cost (strict) or x.cost <= y.cost *)
| SLoop (body : list stmt)     (* for / while: any number of iterations *)
| SReturn (e : exp).

Definition env := nat -> Z.
Definition upd (r : env) (x : nat) (v : Z) : env := fun y => if Nat.eqb y x then v else r y.
Inductive outcome := ORet (v : Z) | OCont (r : env).

Definition cond_true (r : env) (c : option (bool * nat * nat)) (b : bool) : Prop :=
  match c with
  | None => True
  | Some (true, x, y) => (r x <? r y) = b
  | Some (false, x, y) => (r x <=? r y) = b
  end.

Inductive eval : env -> exp -> Z -> Prop :=
| ev_name r x : eval r (EName x) (r x)
| ev_greedy r a b va vb : eval r a va -> eval r b vb -> eval r (EGreedy a b) (if vb <? va then vb else va)
| ev_copy r a v : eval r a v -> eval r (ECopy a) v
| ev_if_l r a b v : eval r a v -> eval r (EIfExp a b) v
| ev_if_r r a b v : eval r b v -> eval r (EIfExp a b) v
| ev_best r l vs v : evals r l vs -> In v vs -> (forall v', In v' vs -> v <= v') -> eval r (EBestOf l) v
| ev_block r body v : exec r body (ORet v) -> eval r (EBlock body) v
| ev_opaque r v : eval r EOpaque v
with evals : env -> list exp -> list Z -> Prop :=
| evs_nil r : evals r [] []
| evs_cons r e v l vs : eval r e v -> evals r l vs -> evals r (e :: l) (v :: vs)
with exec : env -> list stmt -> outcome -> Prop :=
| ex_nil r : exec r [] (OCont r)
| ex_assign r x e v rest o : eval r e v -> exec (upd r x v) rest o -> exec r (SAssign x e :: rest) o
| ex_kill r xs r' rest o : (forall y, ~ In y xs -> r' y = r y) -> exec r' rest o -> exec r (SKill xs :: rest) o
| ex_if_ret r c s1 s2 rest b v : cond_true r c b -> exec r (if b then s1 else s2) (ORet v) -> exec r (SIf c s1 s2 :: rest) (ORet v)
| ex_if_cont r c s1 s2 rest b r' o : cond_true r c b -> exec r (if b then s1 else s2) (OCont r') -> exec r' rest o -> exec r (SIf c s1 s2 :: rest) o
| ex_loop_done r body rest o : exec r rest o -> exec r (SLoop body :: rest) o
| ex_loop_ret r body rest v : exec r body (ORet v) -> exec r (SLoop body :: rest) (ORet v)
| ex_loop_iter r body rest r' o : exec r body (OCont r') -> exec r' (SLoop body :: rest) o -> exec r (SLoop body :: rest) o
| ex_return r e v rest : eval r e v -> exec r (SReturn e :: rest) (ORet v).

(* ---- the analysis *)
Definition memb (x : nat) (G : list nat) : bool := existsb (Nat.eqb x) G.
Definition inter (A B : list nat) : list nat := filter (fun x => memb x B) A.
Definition minus (A B : list nat) : list nat := filter (fun x => negb (memb x B)) A.

(* names a statement list may rebind (blocks inside expressions have their own, alpha-renamed, names and their effects are not observed outside) *)
Fixpoint assigned1 (s : stmt) : list nat :=
  match s with
  | SAssign x _ => [x]
  | SKill xs => xs
  | SIf _ s1 s2 => (fix go (l : list stmt) := match l with [] => [] | h :: t => assigned1 h ++ go t end) s1
                   ++ (fix go (l : list stmt) := match l with [] => [] | h :: t => assigned1 h ++ go t end) s2
  | SLoop b => (fix go (l : list stmt) := match l with [] => [] | h :: t => assigned1 h ++ go t end) b
  | SReturn _ => []
  end.
Fixpoint assigned (ss : list stmt) : list nat := match ss with [] => [] | h :: t => assigned1 h ++ assigned t end.

(* aexec G ss = (F, ok): ok = every `return` reachable in ss returns a good value; F = Some names good at fall-through, None = ss cannot fall through *)
Fixpoint agood (fuel : nat) (G : list nat) (e : exp) {struct fuel} : bool :=
  match fuel with
  | O => false
  | S f =>
      match e with
      | EName x => memb x G
      | EGreedy a b => agood f G a || agood f G b
      | ECopy a => agood f G a
      | EIfExp a b => agood f G a && agood f G b
      | EBestOf l => existsb (agood f G) l
      | EBlock body => match aexec f G body with (None, ok) => ok | (Some _, _) => false end     (* falling off the end returns None, not an agent *)
      | EOpaque => false
      end
  end
with aexec (fuel : nat) (G : list nat) (ss : list stmt) {struct fuel} : option (list nat) * bool :=
  match fuel with
  | O => (Some [], false)
  | S f =>
      match ss with
      | [] => (Some G, true)
      | SAssign x e :: t => aexec f (if agood f G e then x :: G else minus G [x]) t
      | SKill xs :: t => aexec f (minus G xs) t
      | SIf c s1 s2 :: t =>
          let G1 := match c with Some (_, x, y) => if memb y G then x :: G else G | None => G end in
          let G2 := match c with Some (_, x, y) => if memb x G then y :: G else G | None => G end in
          let '(F1, ok1) := aexec f G1 s1 in
          let '(F2, ok2) := aexec f G2 s2 in
          match F1, F2 with
          | None, None => (None, ok1 && ok2)
          | Some A, None => let '(F, ok) := aexec f A t in (F, ok1 && ok2 && ok)
          | None, Some B => let '(F, ok) := aexec f B t in (F, ok1 && ok2 && ok)
          | Some A, Some B => let '(F, ok) := aexec f (inter A B) t in (F, ok1 && ok2 && ok)
          end
      | SLoop b :: t =>
          let G' := minus G (assigned b) in
          let '(_, okb) := aexec f G' b in
          let '(F, ok) := aexec f G' t in (F, okb && ok)
      | SReturn e :: _ => (None, agood f G e)
      end
  end.

(* ---- soundness *)
Definition good_env (c0 : Z) (G : list nat) (r : env) : Prop := forall x, In x G -> r x <= c0.

Lemma memb_In x G : memb x G = true <-> In x G.
Proof.
  unfold memb. rewrite existsb_exists. split.
  - intros (y & Hy & E). apply Nat.eqb_eq in E. subst; auto.
  - intros H. exists x. split; auto. apply Nat.eqb_refl.
Qed.
Lemma minus_In x A B : In x (minus A B) <-> In x A /\ ~ In x B.
Proof.
  unfold minus. rewrite filter_In, negb_true_iff. split; intros [H1 H2]; split; auto.
  - intros H. apply memb_In in H. congruence.
  - destruct (memb x B) eqn:E; auto. apply memb_In in E. contradiction.
Qed.
Lemma inter_In x A B : In x (inter A B) <-> In x A /\ In x B.
Proof. unfold inter. rewrite filter_In, memb_In. tauto. Qed.

Lemma good_env_sub c0 G G' r : (forall x, In x G' -> In x G) -> good_env c0 G r -> good_env c0 G' r.
Proof. intros H Hg x Hx. apply Hg, H, Hx. Qed.
Lemma good_env_upd_good c0 G r x v : good_env c0 G r -> v <= c0 -> good_env c0 (x :: G) (upd r x v).
Proof.
  intros Hg Hv y [<-|Hy]; unfold upd.
  - rewrite Nat.eqb_refl. exact Hv.
  - destruct (Nat.eqb y x) eqn:E; [exact Hv|apply Hg, Hy].
Qed.
Lemma good_env_upd_bad c0 G r x v : good_env c0 G r -> good_env c0 (minus G [x]) (upd r x v).
Proof.
  intros Hg y Hy. apply minus_In in Hy as [Hy Hn]. unfold upd.
  destruct (Nat.eqb y x) eqn:E; [apply Nat.eqb_eq in E; subst; exfalso; apply Hn; left; auto|apply Hg, Hy].
Qed.

Lemma assigned1_if c s1 s2 : assigned1 (SIf c s1 s2) = assigned s1 ++ assigned s2.
Proof. reflexivity. Qed.
Lemma assigned1_loop b : assigned1 (SLoop b) = assigned b.
Proof. reflexivity. Qed.

(* executing statements leaves every name they do not assign alone *)
Lemma exec_frame r ss o : exec r ss o -> forall r', o = OCont r' -> forall y, ~ In y (assigned ss) -> r' y = r y.
Proof.
  induction 1 as [r|r x e v rest o He Hx IH|r xs r1 rest o Hk Hx IH|r c s1 s2 rest b v Hc Hb IHb|r c s1 s2 rest b r1 o Hc Hb IHb Hr IHr
                  |r body rest o Hr IH|r body rest v Hb IHb|r body rest r1 o Hb IHb Hl IHl|r e v rest He]; intros r' E y Hy; try discriminate.
  - injection E as <-. reflexivity.
  - cbn [assigned assigned1] in Hy. rewrite (IH r' E y) by (intros H; apply Hy; apply in_or_app; right; exact H).
    unfold upd. destruct (Nat.eqb y x) eqn:Ex; auto. apply Nat.eqb_eq in Ex. subst. exfalso. apply Hy. left. reflexivity.
  - cbn [assigned assigned1] in Hy. rewrite (IH r' E y) by (intros H; apply Hy; apply in_or_app; right; exact H).
    apply Hk. intros H. apply Hy. apply in_or_app. left. exact H.
  - cbn [assigned] in Hy. rewrite assigned1_if in Hy. rewrite (IHr r' E y) by (intros H; apply Hy; apply in_or_app; right; exact H).
    apply (IHb r1 eq_refl y). intros H. apply Hy. apply in_or_app. left. apply in_or_app. destruct b; [left|right]; exact H.
  - cbn [assigned] in Hy. apply (IH r' E y). intros H. apply Hy. apply in_or_app. right. exact H.
  - cbn [assigned] in Hy. rewrite assigned1_loop in Hy. rewrite (IHl r' E y) by exact Hy.
    apply (IHb r1 eq_refl y). intros H. apply Hy. apply in_or_app. left. exact H.
Qed.

Section Sound.
Variable c0 : Z.
Notation genv := (good_env c0).

Lemma evals_In r l vs e : evals r l vs -> In e l -> exists v, In v vs /\ eval r e v.
Proof.
  induction 1 as [r|r e0 v0 l vs He Hl IH]; intros Hin; [destruct Hin|].
  destruct Hin as [<-|Hin]; [exists v0; split; [left; auto|auto]|].
  destruct (IH Hin) as (v & Hv & Hev). exists v. split; [right; auto|auto].
Qed.

Definition stmtP (fuel : nat) : Prop :=
  forall G ss r o, exec r ss o -> genv G r -> snd (aexec fuel G ss) = true ->
     match o with
     | ORet v => v <= c0
     | OCont r' => exists F, fst (aexec fuel G ss) = Some F /\ genv F r'
     end.
Definition expP (fuel : nat) : Prop :=
  forall G e r v, agood fuel G e = true -> genv G r -> eval r e v -> v <= c0.

Lemma loop_case f b t G' Fb okb F ok :
  stmtP f -> aexec f G' b = (Fb, okb) -> aexec f G' t = (F, ok) -> okb = true -> ok = true ->
  (forall x, In x G' -> ~ In x (assigned b)) ->
  forall r ss o, exec r ss o -> ss = SLoop b :: t -> genv G' r ->
    match o with ORet v => v <= c0 | OCont r' => exists F', F = Some F' /\ genv F' r' end.
Proof.
  intros HP Eb Et Hokb Hok Hfr r ss o Hex.
  induction Hex as [r|r x e v rest o He Hx IH|r xs r1 rest o Hk Hx IH|r c s1 s2 rest b0 v Hc Hb IHb|r c s1 s2 rest b0 r1 o Hc Hb IHb Hr IHr
                    |r body rest o Hr IH|r body rest v Hb IHb|r body rest r1 o Hb IHb Hl IHl|r e v rest He]; intros E Hg; try discriminate.
  - injection E as -> ->. pose proof (HP G' t r o Hr Hg) as H. rewrite Et in H. cbn [fst snd] in H. specialize (H Hok). exact H.
  - injection E as -> ->. pose proof (HP G' b r (ORet v) Hb Hg) as H. rewrite Eb in H. cbn [snd] in H. exact (H Hokb).
  - injection E as -> ->. apply IHl; auto.
    intros x Hx. rewrite (exec_frame _ _ _ Hb r1 eq_refl x (Hfr x Hx)). apply Hg. exact Hx.
Qed.

Theorem agood_sound : forall fuel, expP fuel /\ stmtP fuel.
Proof.
  induction fuel as [|f [IHe IHs]].
  - split; [intros G e r v H; discriminate|intros G ss r o _ _ H; discriminate].
  - assert (HE : expP (S f)).
    { intros G e r v Hg Hr Hev. destruct e as [x|a b|a|a b|l|body|]; cbn [agood] in Hg.
      - inversion Hev; subst. apply Hr. apply memb_In. exact Hg.
      - inversion Hev as [| ? ? ? va vb Ha Hb | | | | | |]; subst. apply orb_true_iff in Hg as [Hg|Hg].
        + pose proof (IHe G a r va Hg Hr Ha). destruct (Z.ltb_spec vb va); lia.
        + pose proof (IHe G b r vb Hg Hr Hb). destruct (Z.ltb_spec vb va); lia.
      - inversion Hev; subst. eapply IHe; eauto.
      - apply andb_true_iff in Hg as [Ha Hb]. inversion Hev as [| | |? ? ? ? Hl|? ? ? ? Hrr| | |]; subst; [exact (IHe G a r v Ha Hr Hl)|exact (IHe G b r v Hb Hr Hrr)].
      - inversion Hev as [| | | | | ? ? vs ? Hvs Hin Hmin | |]; subst. apply existsb_exists in Hg as (e0 & He0 & Hg0).
        destruct (evals_In _ _ _ _ Hvs He0) as (v0 & Hv0 & Hev0). pose proof (IHe G e0 r v0 Hg0 Hr Hev0). specialize (Hmin v0 Hv0). lia.
      - inversion Hev as [| | | | | | ? ? ? Hex |]; subst. destruct (aexec f G body) as [[F|] ok] eqn:Ea; [discriminate|].
        pose proof (IHs G body r (ORet v) Hex Hr) as H. rewrite Ea in H. cbn [snd] in H. exact (H Hg).
      - discriminate. }
    split; [exact HE|].
    intros G ss r o Hex Hr Hok. destruct ss as [|s t].
    + inversion Hex; subst. cbn [aexec]. exists G. split; auto.
    + destruct s as [x e|xs|c s1 s2|b|e]; cbn [aexec] in Hok |- *.
      * inversion Hex as [|? ? ? v ? ? Hev Hrest| | | | | | |]; subst.
        set (G2 := if agood f G e then x :: G else minus G [x]) in *.
        assert (Hg2 : genv G2 (upd r x v)).
        { unfold G2. destruct (agood f G e) eqn:Eg; [apply good_env_upd_good; auto; eapply IHe; eauto|apply good_env_upd_bad; auto]. }
        exact (IHs G2 t (upd r x v) o Hrest Hg2 Hok).
      * inversion Hex as [| |? ? r1 ? ? Hk Hrest| | | | | |]; subst.
        assert (Hg2 : genv (minus G xs) r1).
        { intros y Hy. apply minus_In in Hy as [Hy Hn]. rewrite Hk by exact Hn. apply Hr. exact Hy. }
        exact (IHs (minus G xs) t r1 o Hrest Hg2 Hok).
      * set (G1 := match c with Some (_, x, y) => if memb y G then x :: G else G | None => G end) in *.
        set (G2 := match c with Some (_, x, y) => if memb x G then y :: G else G | None => G end) in *.
        assert (Hbr : forall b0, cond_true r c b0 -> genv (if b0 then G1 else G2) r).
        { intros b0 Hc. destruct c as [[[strict x] y]|]; [|destruct b0; exact Hr].
          destruct b0; unfold G1, G2.
          - destruct (memb y G) eqn:Ey; [|exact Hr]. apply memb_In in Ey. pose proof (Hr y Ey).
            intros z [<-|Hz]; [|apply Hr; exact Hz]. destruct strict; cbn in Hc; [apply Z.ltb_lt in Hc|apply Z.leb_le in Hc]; lia.
          - destruct (memb x G) eqn:Ex; [|exact Hr]. apply memb_In in Ex. pose proof (Hr x Ex).
            intros z [<-|Hz]; [|apply Hr; exact Hz]. destruct strict; cbn in Hc; [apply Z.ltb_ge in Hc|apply Z.leb_gt in Hc]; lia. }
        destruct (aexec f G1 s1) as [F1 ok1] eqn:E1. destruct (aexec f G2 s2) as [F2 ok2] eqn:E2.
        assert (Hoks : ok1 = true /\ ok2 = true).
        { destruct F1 as [A|], F2 as [B|]; cbn [snd] in Hok;
            try (destruct (aexec f _ t) as [F ok] eqn:Et; cbn [snd] in Hok);
            repeat (apply andb_true_iff in Hok as [Hok ?]); try (apply andb_true_iff in Hok as [? ?]); auto. }
        destruct Hoks as [-> ->].
        inversion Hex as [| | |? ? ? ? ? b0 v Hc Hb|? ? ? ? ? b0 r1 ? Hc Hb Hrest| | | |]; subst.
        -- (* the branch returns *)
           pose proof (Hbr b0 Hc) as Hgb. destruct b0.
           ++ pose proof (IHs G1 s1 r (ORet v) Hb Hgb) as H. rewrite E1 in H. exact (H eq_refl).
           ++ pose proof (IHs G2 s2 r (ORet v) Hb Hgb) as H. rewrite E2 in H. exact (H eq_refl).
        -- (* the branch falls through, then the rest *)
           pose proof (Hbr b0 Hc) as Hgb.
           assert (Hfall : exists Fb, (if b0 then F1 else F2) = Some Fb /\ genv Fb r1).
           { destruct b0.
             - pose proof (IHs G1 s1 r (OCont r1) Hb Hgb) as H. rewrite E1 in H. exact (H eq_refl).
             - pose proof (IHs G2 s2 r (OCont r1) Hb Hgb) as H. rewrite E2 in H. exact (H eq_refl). }
           destruct Hfall as (Fb & EFb & HgFb).
           assert (Hgen : forall Gt, (forall z, In z Gt -> In z Fb) -> snd (aexec f Gt t) = true ->
                          match o with ORet v => v <= c0 | OCont r' => exists F, fst (aexec f Gt t) = Some F /\ genv F r' end).
           { intros Gt Hsub Hokt. apply (IHs Gt t r1 o Hrest); auto. eapply good_env_sub; eauto. }
           destruct F1 as [A|], F2 as [B|]; destruct b0; try discriminate; injection EFb as <-.
           ++ destruct (aexec f (inter A B) t) as [F ok] eqn:Et. cbn [fst snd] in *. cbn [andb] in Hok.
              specialize (Hgen (inter A B)). rewrite Et in Hgen. cbn [fst snd] in Hgen. apply Hgen; auto. intros z Hz. apply inter_In in Hz. tauto.
           ++ destruct (aexec f (inter A B) t) as [F ok] eqn:Et. cbn [fst snd] in *. cbn [andb] in Hok.
              specialize (Hgen (inter A B)). rewrite Et in Hgen. cbn [fst snd] in Hgen. apply Hgen; auto. intros z Hz. apply inter_In in Hz. tauto.
           ++ destruct (aexec f A t) as [F ok] eqn:Et. cbn [fst snd] in *. cbn [andb] in Hok.
              specialize (Hgen A). rewrite Et in Hgen. cbn [fst snd] in Hgen. apply Hgen; auto.
           ++ destruct (aexec f B t) as [F ok] eqn:Et. cbn [fst snd] in *. cbn [andb] in Hok.
              specialize (Hgen B). rewrite Et in Hgen. cbn [fst snd] in Hgen. apply Hgen; auto.
      * set (G' := minus G (assigned b)) in *.
        destruct (aexec f G' b) as [Fb okb] eqn:Eb. destruct (aexec f G' t) as [F ok] eqn:Et. cbn [fst snd] in *.
        apply andb_true_iff in Hok as [Hokb Hokt].
        assert (Hg' : genv G' r) by (eapply good_env_sub; [|exact Hr]; intros z Hz; apply minus_In in Hz; tauto).
        pose proof (loop_case f b t G' Fb okb F ok IHs Eb Et Hokb Hokt (fun x Hx => proj2 (proj1 (minus_In x G (assigned b)) Hx)) r _ o Hex eq_refl Hg') as H.
        destruct o as [v|r']; [exact H|]. destruct H as (F' & -> & HgF). exists F'. split; auto.
      * inversion Hex as [| | | | | | | |? ? v ? Hev]; subst. cbn [snd] in Hok. exact (IHe G e r v Hok Hr Hev).
Qed.

(* the form used by the skeleton theorems: an accepted element program never returns an agent worse than the slot's incumbent (name 0) *)
Corollary accepted_program_keeps (fuel : nat) (e : exp) (r : env) (v : Z) :
  agood fuel [0%nat] e = true -> r 0%nat <= c0 -> eval r e v -> v <= c0.
Proof.
  intros Ha Hs Hev. destruct (agood_sound fuel) as [HE _]. apply (HE [0%nat] e r v Ha); auto.
  intros x [<-|[]]. exact Hs.
Qed.
End Sound.

(* non-vacuity: the Tasmanian-Devil shape  agent = strategy(x); if ..: return agent; agent = fresh; return greedy(x, agent)  is accepted, a program
   that returns a fresh candidate is not *)
Example tasmanian_shape_accepted :
  agood 20 [0%nat] (EBlock [SAssign 1 (EBlock [SAssign 2 EOpaque; SReturn (EGreedy (EName 0) (EName 2))]);
                            SIf None [SReturn (EName 1)] [];
                            SAssign 1 EOpaque;
                            SReturn (EGreedy (EName 0) (EName 1))]) = true.
Proof. vm_compute. reflexivity. Qed.
Example fresh_candidate_rejected : agood 20 [0%nat] (EBlock [SAssign 1 EOpaque; SReturn (EName 1)]) = false.
Proof. vm_compute. reflexivity. Qed.
Example cost_condition_accepted :
  agood 20 [0%nat] (EBlock [SAssign 1 EOpaque; SIf (Some (true, 1%nat, 0%nat)) [SReturn (EName 1)] []; SReturn (EName 0)]) = true.
Proof. vm_compute. reflexivity. Qed.
