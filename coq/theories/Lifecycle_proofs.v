(* Lifecycle_proofs.v — what the skeleton facts imply for a whole optimize() call (C07, C08, C09, C18, C12). *)
From Coq Require Import String List Bool Arith Lia.
From PV Require Import Skeleton Lifecycle.
Import ListNotations.
Open Scope list_scope.

Section CallProofs.
Variable value : Type.
Variables (f_seed f_init f_step f_result : list value -> loc -> value).
Notation call := (call value f_seed f_init f_step f_result).
Notation run_call := (run_call value f_seed f_init f_step f_result).
Notation wd := (well_defined loc loc_eqb value).

Lemma nil_opt (b : bool) l : b = true -> opt (negb b) l = [].
Proof. intros ->. reflexivity. Qed.

Lemma call_well_defined sk n : sk_stale sk = [] -> sk_entropy sk = [] -> wd [LIn] (call sk n) = true.
Proof.
  intros Hs He. unfold Lifecycle.call.
  apply (well_defined_app loc loc_eqb value [op_seed value f_seed; op_init value f_init sk]).
  - unfold Lifecycle.op_init, Lifecycle.op_seed. rewrite Hs, He. reflexivity.
  - apply well_defined_app.
    + apply (loop_well_defined loc loc_eqb loc_eqb_spec value). unfold Lifecycle.op_init, Lifecycle.op_seed, Lifecycle.op_step. rewrite ?Hs, ?He. cbn.
      destruct (is_nil (sk_config_writes sk) && is_nil (sk_task_writes sk)); reflexivity.
    + set (D := defined_after loc value _ (iterate loc value n [op_step value f_step sk])).
      assert (HD : forall x, In x [LIn; LState; LResult] -> In x D).
      { intros x Hx. unfold D. apply defined_after_incl. unfold Lifecycle.op_init, Lifecycle.op_seed. rewrite ?Hs, ?He. cbn.
        destruct (is_nil (sk_config_writes sk) && is_nil (sk_task_writes sk)); cbn in *; intuition (subst; auto). }
      cbn. apply andb_true_iff. split; auto.
      unfold inclb. cbn. rewrite !andb_true_r.
      repeat (apply andb_true_iff; split); apply (memb_In loc loc_eqb loc_eqb_spec); apply HD; cbn; auto.
Qed.

Lemma result_defined sk n D : In LResult (defined_after loc value D (call sk n)).
Proof.
  unfold Lifecycle.call. rewrite !defined_after_app. cbn. left. reflexivity.
Qed.

(* C07 + C08: with no stale read and no unseeded entropy, the result of a call is a function of what the caller
   passes (task incl. seed, configuration, mode/workers, constructor constants) - whatever the instance held from
   earlier runs, whatever numpy's stream was left at, whatever other entropy sources would yield, for every oracle *)
Theorem result_determined_by_inputs sk n : sk_stale sk = [] -> sk_entropy sk = [] ->
  forall s1 s2, s1 LIn = s2 LIn -> run_call sk n s1 LResult = run_call sk n s2 LResult.
Proof.
  intros Hs He s1 s2 Hin. unfold Lifecycle.run_call.
  apply (dep_theorem loc loc_eqb loc_eqb_spec value (call sk n) [LIn] s1 s2 (call_well_defined sk n Hs He)).
  - intros l [<-|[]]. exact Hin.
  - apply result_defined.
Qed.

(* C09: with no write to the configuration or the task, they are what they were - after any number of cycles *)
Theorem inputs_untouched sk n : sk_config_writes sk = [] -> sk_task_writes sk = [] ->
  forall s, run_call sk n s LIn = s LIn.
Proof.
  intros Hc Ht s. unfold Lifecycle.run_call. apply exec_untouched. intros o Ho.
  unfold Lifecycle.call in Ho. apply in_app_or in Ho as [Ho|Ho].
  - cbn in Ho. destruct Ho as [<-|[<-|[]]]; cbn; rewrite ?Hc, ?Ht; reflexivity.
  - apply in_app_or in Ho as [Ho|Ho].
    + assert (G : forall k, In o (iterate loc value k [op_step value f_step sk]) -> o = op_step value f_step sk).
      { induction k as [|k IH]; cbn; intros H; [contradiction|]. destruct H as [<-|H]; auto. }
      rewrite (G n Ho). cbn. rewrite Hc, Ht. reflexivity.
    + destruct Ho as [<-|[]]. reflexivity.
Qed.

(* tightness of the two facts: an entropy read or a stale read lets two calls with equal inputs differ *)
Theorem entropy_allows_difference (v1 v2 : value) : v1 <> v2 ->
  exists (o : op loc value) (s1 s2 : store loc value), s1 LIn = s2 LIn /\ s1 LG = s2 LG /\ s1 LState = s2 LState /\
    In LE (reads o) /\ exec_op loc loc_eqb value o s1 LResult <> exec_op loc loc_eqb value o s2 LResult.
Proof.
  intros Hv. exists {| reads := [LE]; writes := [LResult]; f := fun vs _ => hd v1 vs |},
    (fun l => match l with LE => v1 | _ => v1 end), (fun l => match l with LE => v2 | _ => v1 end).
  repeat split; auto; try (cbn; auto; fail); try (unfold exec_op; cbn; congruence).
Qed.
End CallProofs.

(* ================================================================== duality *)
Section DualProofs.
Variable value : Type.
Variables (g_seed g_init g_fit g_step : list value -> dloc -> value).
Notation dual_call := (dual_call value g_seed g_init g_fit g_step).
Notation dexec := (exec dloc dloc_eqb value).

Definition low_eq (s1 s2 : store dloc value) : Prop := s1 DIn = s2 DIn /\ s1 DG = s2 DG /\ s1 DPC = s2 DPC.

Lemma fit_low s1 s2 : low_eq s1 s2 -> low_eq (exec_op dloc dloc_eqb value (dop_fit value g_fit) s1) (exec_op dloc dloc_eqb value (dop_fit value g_fit) s2).
Proof. intros (A & B & C). unfold low_eq, exec_op. cbn. auto. Qed.
Lemma step_low sk s1 s2 : sk_reads_fitness sk = false -> sk_reads_direction sk = false -> low_eq s1 s2 ->
  low_eq (exec_op dloc dloc_eqb value (dop_step value g_step sk) s1) (exec_op dloc dloc_eqb value (dop_step value g_step sk) s2).
Proof. intros Hf Hd (A & B & C). unfold low_eq, exec_op. cbn. rewrite Hf, Hd. cbn. rewrite A, B, C. auto. Qed.

(* C12: if the update rule reads neither fitness nor direction (and the run is stopped by the budget only), then two
   calls that agree on the seed, configuration and INTERNAL objective - maximising f, minimising -f - hold the same
   positions and internal costs after every cycle, whatever the direction and the fitness values are *)
Lemma dexec_app p q s : dexec (p ++ q) s = dexec q (dexec p s).
Proof. unfold exec. apply fold_left_app. Qed.

Lemma iter_low sk n : sk_reads_fitness sk = false -> sk_reads_direction sk = false -> forall a1 a2, low_eq a1 a2 ->
  low_eq (dexec (iterate dloc value n [dop_step value g_step sk; dop_fit value g_fit]) a1)
         (dexec (iterate dloc value n [dop_step value g_step sk; dop_fit value g_fit]) a2).
Proof.
  intros Hf Hd. induction n as [|n IH]; intros a1 a2 L; [exact L|].
  cbn [iterate]. rewrite !dexec_app. apply IH. unfold exec. cbn [fold_left]. apply fit_low. apply step_low; auto.
Qed.

Theorem duality sk n : sk_reads_fitness sk = false -> sk_reads_direction sk = false ->
  forall s1 s2, s1 DIn = s2 DIn -> dexec (dual_call sk n) s1 DPC = dexec (dual_call sk n) s2 DPC.
Proof.
  intros Hf Hd s1 s2 Hin. unfold Lifecycle.dual_call. rewrite !dexec_app.
  apply iter_low; auto. unfold exec. cbn [fold_left]. apply fit_low.
  unfold low_eq, exec_op. cbn. rewrite Hd. cbn. rewrite Hin. auto.
Qed.
End DualProofs.
