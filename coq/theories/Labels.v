(* Labels.v — models.LabelEncoder as PermutationVariable uses it (fit on the declared items, inverse_transform of a corrected value), and the
   decode half of C13 for permutations: the decoded value is a rearrangement of the declared items - PROVIDED the items are pairwise distinct.
   For repeated items the statement is refuted (the encoder keeps one label per DISTINCT item, the variable one index per DECLARED item).

   L is the type of labels modulo Python's `==` (what `set()` identifies); leb is the order of the sort key
   `(isinstance(x, (int, float)), x)`: strings before numbers, each group in its own order. *)
From Coq Require Import List Arith Bool Lia Permutation Sorted.
From PV Require Import PyLib.
Import ListNotations.

Section Labels.
Variable L : Type.
Variable eqb : L -> L -> bool.
Variable leb : L -> L -> bool.
Variable unknown : L.                      (* the string "unknown" *)

(* set(y): one representative per class of == (which representative survives is not observable modulo ==) *)
Definition mem (x : L) (l : list L) : bool := existsb (eqb x) l.
Fixpoint dedup (l : list L) : list L :=
  match l with [] => [] | x :: t => if mem x t then dedup t else x :: dedup t end.

(* sorted(<iterable>, key=...) : insertion sort; for a total order on distinct elements every sort gives the same list (sorted_perm_unique) *)
Fixpoint insert (x : L) (l : list L) : list L :=
  match l with [] => [x] | y :: t => if leb x y then x :: y :: t else y :: insert x t end.
Definition isort (l : list L) : list L := fold_right insert [] l.
Definition py_sorted_set (y : list L) : list L := isort (dedup y).

(* {label: i for i, label in enumerate(labels)} : a dict in insertion order, a repeated key overwrites its value in place *)
Fixpoint ldict_set (k : L) (v : nat) (d : list (L * nat)) : list (L * nat) :=
  match d with
  | [] => [(k, v)]
  | (k', v') :: t => if eqb k' k then (k', v) :: t else (k', v') :: ldict_set k v t
  end.
Definition ldict_of_enumerate (labels : list L) : list (L * nat) :=
  fold_left (fun d p => ldict_set (snd p) (fst p) d) (combine (seq 0 (length labels)) labels) [].

(* LabelEncoder.fit: the two fields *)
Definition fit_labels (y : list L) : list L := py_sorted_set y.
Definition fit_index (labels : list L) : list (L * nat) := ldict_of_enumerate labels.

(* inverse_transform: [labels[i] if i in index.values() else "unknown" for i in y]; labels[i] beyond the end is an IndexError *)
Definition inverse1 (labels : list L) (index : list (L * nat)) (i : nat) : option L :=
  if existsb (Nat.eqb i) (map snd index) then nth_error labels i else Some unknown.
Definition inverse_transform (labels : list L) (index : list (L * nat)) (y : list nat) : option (list L) :=
  map_opt (inverse1 labels index) y.

(* PermutationVariable: __init__ fits the encoder on the items; decode = inverse_transform (correct value) *)
Definition perm_decode (items : list L) (corrected : list nat) : option (list L) :=
  inverse_transform (fit_labels items) (fit_index (fit_labels items)) corrected.

(* D[label]: KeyError = None *)
Fixpoint ldict_get (k : L) (d : list (L * nat)) : option nat :=
  match d with [] => None | (k', v) :: t => if eqb k' k then Some v else ldict_get k t end.
(* LabelEncoder.transform: [index[label] for label in y] *)
Definition transform (index : list (L * nat)) (y : list L) : option (list nat) := map_opt (fun label => ldict_get label index) y.

(* sorted(l, key=k) with natural keys: stable insertion sort; a key that raises makes the whole call raise *)
Fixpoint insert_by (key : L -> nat) (x : L) (l : list L) : list L :=
  match l with [] => [x] | y :: t => if key x <=? key y then x :: y :: t else y :: insert_by key x t end.
Definition sorted_by_key (key : L -> nat) (l : list L) : list L := fold_right (insert_by key) [] l.
Definition sorted_by_opt_key (key : L -> option nat) (l : list L) : option (list L) :=
  if forallb (fun x => is_some (key x)) l then Some (sorted_by_key (fun x => match key x with Some k => k | None => 0 end) l) else None.

(* PermutationVariable.__init__ (as repaired): the encoder is fitted on the items, then ONE LABEL PER DECLARED ITEM is kept, in the encoder's order:
   sorted(items, key=lambda x: encoder.transform([x])[0]) *)
Definition item_key (index : list (L * nat)) (x : L) : option nat := obind (transform index [x]) (fun r => nth_error r 0).
Definition perm_labels (items : list L) : option (list L) :=
  sorted_by_opt_key (item_key (fit_index (fit_labels items))) items.
(* decode (as repaired): [labels[i] for i in corrected] *)
Definition decode_labels (labels : list L) (corrected : list nat) : option (list L) := map_opt (nth_error labels) corrected.
Definition perm_decode_items (items : list L) (corrected : list nat) : option (list L) :=
  obind (perm_labels items) (fun labels => decode_labels labels corrected).

(* ------------------------------------------------------------------------------------------- *)
Hypothesis eqb_spec : forall x y, eqb x y = true <-> x = y.

Lemma mem_In x l : mem x l = true <-> In x l.
Proof.
  unfold mem. rewrite existsb_exists. split.
  - intros (y & Hy & E). apply eqb_spec in E. subst; auto.
  - intros H. exists x. split; auto. apply eqb_spec; auto.
Qed.

Lemma dedup_nodup_id l : NoDup l -> dedup l = l.
Proof.
  induction 1 as [|x t Hx Ht IH]; cbn; auto.
  destruct (mem x t) eqn:E; [apply mem_In in E; contradiction|]. f_equal; auto.
Qed.
Lemma dedup_In x l : In x (dedup l) <-> In x l.
Proof.
  induction l as [|y t IH]; cbn; [tauto|]. destruct (mem y t) eqn:E.
  - rewrite IH. split; auto. intros [<-|H]; auto. apply mem_In; auto.
  - cbn. rewrite IH. tauto.
Qed.
Lemma dedup_NoDup l : NoDup (dedup l).
Proof.
  induction l as [|y t IH]; cbn; [constructor|]. destruct (mem y t) eqn:E; auto.
  constructor; auto. rewrite dedup_In. intros H. apply mem_In in H. congruence.
Qed.

Lemma insert_perm x l : Permutation (x :: l) (insert x l).
Proof.
  induction l as [|y t IH]; cbn; auto. destruct (leb x y); auto.
  rewrite perm_swap. constructor; auto.
Qed.
Lemma isort_perm l : Permutation l (isort l).
Proof. induction l as [|x t IH]; cbn; auto. rewrite <- insert_perm. constructor; auto. Qed.

Lemma fit_labels_perm items : NoDup items -> Permutation (fit_labels items) items.
Proof. intros H. unfold fit_labels, py_sorted_set. rewrite dedup_nodup_id by auto. apply Permutation_sym, isort_perm. Qed.
Lemma fit_labels_NoDup y : NoDup (fit_labels y).
Proof. unfold fit_labels, py_sorted_set. eapply Permutation_NoDup; [apply isort_perm|apply dedup_NoDup]. Qed.
Lemma fit_labels_In x y : In x (fit_labels y) <-> In x y.
Proof.
  unfold fit_labels, py_sorted_set. split; intros H.
  - apply dedup_In. eapply Permutation_in; [apply Permutation_sym, isort_perm|exact H].
  - eapply Permutation_in; [apply isort_perm|]. apply dedup_In. exact H.
Qed.

(* the index of distinct labels is the enumeration itself: label k |-> k *)
Lemma ldict_set_fresh k v d : ~ In k (map fst d) -> ldict_set k v d = d ++ [(k, v)].
Proof.
  induction d as [|[k' v'] t IH]; cbn; intros H; auto.
  destruct (eqb k' k) eqn:E; [apply eqb_spec in E; subst; tauto|]. f_equal. apply IH. tauto.
Qed.
Lemma fold_enumerate_distinct labels : forall s d, NoDup (map fst d ++ labels) ->
  fold_left (fun d p => ldict_set (snd p) (fst p) d) (combine (seq s (length labels)) labels) d
  = d ++ combine labels (seq s (length labels)).
Proof.
  induction labels as [|x t IH]; cbn; intros s d H; [rewrite app_nil_r; reflexivity|].
  rewrite ldict_set_fresh.
  - rewrite IH.
    + rewrite <- app_assoc. reflexivity.
    + rewrite map_app. cbn. rewrite <- app_assoc. cbn. eapply Permutation_NoDup; [|exact H].
      apply Permutation_app_head. reflexivity.
  - apply NoDup_remove_2 in H. intros Hin. apply H. apply in_or_app. auto.
Qed.
Lemma fit_index_distinct labels : NoDup labels -> fit_index labels = combine labels (seq 0 (length labels)).
Proof. intros H. unfold fit_index, ldict_of_enumerate. rewrite fold_enumerate_distinct; auto. Qed.
Lemma snd_combine_seq' (l : list L) s : map snd (combine l (seq s (length l))) = seq s (length l).
Proof. revert s. induction l as [|x t IH]; cbn; intros s; auto. f_equal. apply IH. Qed.
Lemma fit_index_values labels i : NoDup labels -> existsb (Nat.eqb i) (map snd (fit_index labels)) = (i <? length labels).
Proof.
  intros H. rewrite fit_index_distinct, snd_combine_seq' by auto.
  destruct (Nat.ltb_spec i (length labels)) as [Hlt|Hge].
  - apply existsb_exists. exists i. split; [apply in_seq; lia|apply Nat.eqb_refl].
  - destruct (existsb _ _) eqn:E; auto. apply existsb_exists in E as (j & Hj & E). apply Nat.eqb_eq in E. subst. apply in_seq in Hj. lia.
Qed.

(* inverse_transform over distinct labels: defined everywhere; an index inside the range gives its label, any other gives "unknown" *)
Lemma inverse_transform_distinct labels y : NoDup labels ->
  inverse_transform labels (fit_index labels) y = Some (map (fun i => if i <? length labels then nth i labels unknown else unknown) y).
Proof.
  intros H. unfold inverse_transform, map_opt. induction y as [|i t IH]; cbn [map sequence]; auto. rewrite IH.
  unfold inverse1. rewrite fit_index_values by auto.
  destruct (Nat.ltb_spec i (length labels)) as [Hlt|Hge]; auto.
  rewrite (nth_error_nth' labels unknown Hlt). reflexivity.
Qed.

Lemma map_nth_seq (l : list L) : map (fun i => nth i l unknown) (seq 0 (length l)) = l.
Proof.
  induction l as [|x t IH]; cbn; auto. f_equal. rewrite <- seq_shift, map_map. exact IH.
Qed.

(* ---- C13, decode half for permutations: distinct items *)
Theorem perm_decode_rearranges items r : NoDup items -> Permutation r (seq 0 (length items)) ->
  exists out, perm_decode items r = Some out /\ Permutation out items /\ length out = length r /\
    (forall j, j < length r -> nth j out unknown = nth (nth j r 0) (fit_labels items) unknown).
Proof.
  intros Hnd Hr. unfold perm_decode. pose proof (fit_labels_NoDup items) as Hl. pose proof (fit_labels_perm items Hnd) as Hp.
  assert (Hlen : length (fit_labels items) = length items) by (apply Permutation_length; auto).
  rewrite inverse_transform_distinct by auto. eexists; split; [reflexivity|].
  assert (Hin : forall i, In i r -> i < length (fit_labels items)).
  { intros i Hi. apply (Permutation_in _ Hr) in Hi. apply in_seq in Hi. lia. }
  assert (Hmap : map (fun i => if i <? length (fit_labels items) then nth i (fit_labels items) unknown else unknown) r
                 = map (fun i => nth i (fit_labels items) unknown) r).
  { apply map_ext_in. intros i Hi. apply Hin in Hi. destruct (Nat.ltb_spec i (length (fit_labels items))); auto; lia. }
  rewrite Hmap. split; [|split].
  - apply Permutation_trans with (fit_labels items); [|exact Hp].
    apply Permutation_trans with (map (fun i => nth i (fit_labels items) unknown) (seq 0 (length (fit_labels items)))).
    + apply Permutation_map. rewrite Hlen. exact Hr.
    + rewrite map_nth_seq. apply Permutation_refl.
  - apply map_length.
  - intros j Hj. rewrite (nth_indep _ unknown (nth 0 (fit_labels items) unknown)) by (rewrite map_length; auto).
    change (nth 0 (fit_labels items) unknown) with ((fun i => nth i (fit_labels items) unknown) 0). rewrite map_nth. reflexivity.
Qed.

(* nothing outside the declared items comes back *)
Corollary perm_decode_declared items r out : NoDup items -> Permutation r (seq 0 (length items)) ->
  perm_decode items r = Some out -> forall x, In x out -> In x items.
Proof.
  intros Hnd Hr Ho x Hx. destruct (perm_decode_rearranges items r Hnd Hr) as (o & Ho' & Hp & _).
  rewrite Ho in Ho'. injection Ho' as <-. eapply Permutation_in; eauto.
Qed.

(* ---- the repaired decode: one label per declared item, so a rearrangement of the declared items WHATEVER the items (repeated ones included) *)
Lemma insert_by_perm key x l : Permutation (x :: l) (insert_by key x l).
Proof.
  induction l as [|y t IH]; cbn; auto. destruct (key x <=? key y); auto.
  rewrite perm_swap. constructor; auto.
Qed.
Lemma sorted_by_key_perm key l : Permutation l (sorted_by_key key l).
Proof. induction l as [|x t IH]; cbn; auto. rewrite <- insert_by_perm. constructor; auto. Qed.

Lemma ldict_get_combine labels : forall s x, In x labels -> exists k, ldict_get x (combine labels (seq s (length labels))) = Some k.
Proof.
  induction labels as [|y t IH]; cbn; intros s x Hx; [tauto|].
  destruct (eqb y x) eqn:E; [eexists; reflexivity|].
  destruct Hx as [->|Hx]; [|apply IH; auto].
  assert (eqb x x = true) by (apply eqb_spec; auto). congruence.
Qed.
Lemma item_key_defined items x : In x items -> exists k, item_key (fit_index (fit_labels items)) x = Some k.
Proof.
  intros Hx. unfold item_key, transform, map_opt. cbn [map sequence].
  rewrite fit_index_distinct by apply fit_labels_NoDup.
  destruct (ldict_get_combine (fit_labels items) 0 x) as (k & Hk); [apply fit_labels_In; auto|].
  rewrite Hk. cbn. eexists; reflexivity.
Qed.
Lemma perm_labels_defined items : exists labels, perm_labels items = Some labels /\ Permutation labels items.
Proof.
  unfold perm_labels, sorted_by_opt_key.
  assert (H : forallb (fun x => is_some (item_key (fit_index (fit_labels items)) x)) items = true).
  { apply forallb_forall. intros x Hx. destruct (item_key_defined items x Hx) as (k & ->). reflexivity. }
  rewrite H. eexists; split; [reflexivity|]. apply Permutation_sym, sorted_by_key_perm.
Qed.

Lemma decode_labels_total labels r : (forall i, In i r -> i < length labels) ->
  decode_labels labels r = Some (map (fun i => nth i labels unknown) r).
Proof.
  intros H. unfold decode_labels, map_opt. induction r as [|i t IH]; cbn [map sequence]; auto.
  rewrite (nth_error_nth' labels unknown (H i (or_introl eq_refl))). rewrite IH by (intros; apply H; right; auto). reflexivity.
Qed.

Theorem perm_decode_items_rearranges items r : Permutation r (seq 0 (length items)) ->
  exists labels out, perm_labels items = Some labels /\ Permutation labels items /\
    perm_decode_items items r = Some out /\ Permutation out items /\ length out = length r /\
    (forall j, j < length r -> nth j out unknown = nth (nth j r 0) labels unknown).
Proof.
  intros Hr. destruct (perm_labels_defined items) as (labels & Hl & Hp). exists labels.
  assert (Hlen : length labels = length items) by (apply Permutation_length; auto).
  unfold perm_decode_items. rewrite Hl. cbn [obind].
  rewrite decode_labels_total.
  2:{ intros i Hi. apply (Permutation_in _ Hr) in Hi. apply in_seq in Hi. lia. }
  eexists; repeat split; try reflexivity; auto.
  - apply Permutation_trans with labels; [|exact Hp].
    apply Permutation_trans with (map (fun i => nth i labels unknown) (seq 0 (length labels))).
    + apply Permutation_map. rewrite Hlen. exact Hr.
    + rewrite map_nth_seq. apply Permutation_refl.
  - apply map_length.
  - intros j Hj. rewrite (nth_indep _ unknown (nth 0 labels unknown)) by (rewrite map_length; auto).
    change (nth 0 labels unknown) with ((fun i => nth i labels unknown) 0). rewrite map_nth. reflexivity.
Qed.

(* ---- the label order does not depend on the iteration order of the set (C07): for a total order, sorting is canonical *)
Definition le (a b : L) : Prop := leb a b = true.
Hypothesis leb_total : forall a b, leb a b = true \/ leb b a = true.
Hypothesis leb_trans : forall a b c, leb a b = true -> leb b c = true -> leb a c = true.
Hypothesis leb_antisym : forall a b, leb a b = true -> leb b a = true -> a = b.

Lemma insert_sorted x l : StronglySorted le l -> StronglySorted le (insert x l).
Proof.
  induction 1 as [|y t Hs IH Hy]; cbn; [repeat constructor|].
  destruct (leb x y) eqn:E.
  - constructor; [constructor; auto|]. constructor; auto. rewrite Forall_forall in *. intros z Hz. eapply leb_trans; [exact E|]. apply Hy; auto.
  - constructor; auto. rewrite Forall_forall in *. intros z Hz.
    apply (Permutation_in _ (Permutation_sym (insert_perm x t))) in Hz. destruct Hz as [<-|Hz]; auto.
    destruct (leb_total x y) as [H|H]; [congruence|exact H].
Qed.
Lemma isort_sorted l : StronglySorted le (isort l).
Proof. induction l as [|x t IH]; cbn; [constructor|]. apply insert_sorted; auto. Qed.

Lemma sorted_perm_unique l : forall l', StronglySorted le l -> StronglySorted le l' -> Permutation l l' -> l = l'.
Proof.
  induction l as [|x t IH]; intros l' Hs Hs' Hp.
  - apply Permutation_nil in Hp. auto.
  - destruct l' as [|y u]; [apply Permutation_sym, Permutation_nil in Hp; discriminate|].
    inversion Hs as [|? ? Hst Hx]; subst. inversion Hs' as [|? ? Hsu Hy]; subst.
    assert (x = y) as ->.
    { assert (In x (y :: u)) as Hxi by (eapply Permutation_in; [exact Hp|left; auto]).
      assert (In y (x :: t)) as Hyi by (eapply Permutation_in; [apply Permutation_sym; exact Hp|left; auto]).
      destruct Hxi as [->|Hxu]; auto. destruct Hyi as [->|Hyt]; auto.
      rewrite Forall_forall in Hx, Hy. apply leb_antisym; [apply Hx|apply Hy]; auto. }
    f_equal. apply IH; auto. eapply Permutation_cons_inv; eauto.
Qed.

(* whatever order the set hands its members out in, the fitted labels are the same list *)
Theorem fit_labels_order_independent s s' : Permutation s s' -> isort s = isort s'.
Proof.
  intros Hp. apply sorted_perm_unique; try apply isort_sorted.
  rewrite <- (isort_perm s), <- (isort_perm s'). exact Hp.
Qed.

(* ---- the repair changes nothing for distinct items: the per-item labels ARE the encoder's labels, so decode gives what inverse_transform gave *)
Section ByKey.
Variable key : L -> nat.
Definition kle (a b : L) : Prop := key a <= key b.
Lemma insert_by_sorted x l : StronglySorted kle l -> StronglySorted kle (insert_by key x l).
Proof.
  induction 1 as [|y t Hs IH Hy]; cbn; [repeat constructor|].
  destruct (Nat.leb_spec (key x) (key y)) as [E|E].
  - constructor; [constructor; auto|]. constructor; auto. rewrite Forall_forall in *. intros z Hz. unfold kle in *. specialize (Hy z Hz). lia.
  - constructor; auto. rewrite Forall_forall in *. intros z Hz.
    apply (Permutation_in _ (Permutation_sym (insert_by_perm key x t))) in Hz. destruct Hz as [<-|Hz]; auto. unfold kle. lia.
Qed.
Lemma sorted_by_key_sorted l : StronglySorted kle (sorted_by_key key l).
Proof. induction l as [|x t IH]; cbn; [constructor|]. apply insert_by_sorted; auto. Qed.
Lemma ksorted_perm_unique l : forall l', (forall a b, In a l -> In b l -> key a = key b -> a = b) ->
  StronglySorted kle l -> StronglySorted kle l' -> Permutation l l' -> l = l'.
Proof.
  induction l as [|x t IH]; intros l' Hinj Hs Hs' Hp.
  - apply Permutation_nil in Hp. auto.
  - destruct l' as [|y u]; [apply Permutation_sym, Permutation_nil in Hp; discriminate|].
    inversion Hs as [|? ? Hst Hx]; subst. inversion Hs' as [|? ? Hsu Hy]; subst.
    assert (In x (y :: u)) as Hxi by (eapply Permutation_in; [exact Hp|left; auto]).
    assert (In y (x :: t)) as Hyi by (eapply Permutation_in; [apply Permutation_sym; exact Hp|left; auto]).
    assert (x = y) as ->.
    { destruct Hxi as [->|Hxu]; auto. destruct Hyi as [->|Hyt]; auto.
      rewrite Forall_forall in Hx, Hy. apply Hinj; [left; auto|right; auto|]. specialize (Hx y Hyt). specialize (Hy x Hxu). unfold kle in *. lia. }
    f_equal. apply IH; auto.
    + intros a b Ha Hb. apply Hinj; right; auto.
    + eapply Permutation_cons_inv; eauto.
Qed.
End ByKey.

Lemma index_sorted key l : forall s, (forall i, i < length l -> key (nth i l unknown) = s + i) -> StronglySorted (kle key) l.
Proof.
  induction l as [|y t IH]; intros s H; [constructor|]. constructor.
  - apply (IH (S s)). intros i Hi. specialize (H (S i)). cbn in H. rewrite H by lia. lia.
  - rewrite Forall_forall. intros z Hz. destruct (In_nth _ _ unknown Hz) as (j & Hj & <-).
    unfold kle. pose proof (H 0) as H0. pose proof (H (S j)) as Hj'. cbn in H0, Hj'. rewrite H0, Hj' by lia. lia.
Qed.

Lemma ldict_get_nth labels : forall s i, NoDup labels -> i < length labels ->
  ldict_get (nth i labels unknown) (combine labels (seq s (length labels))) = Some (s + i).
Proof.
  induction labels as [|y t IH]; cbn; intros s i Hnd Hi; [lia|].
  inversion Hnd as [|? ? Hy Ht]; subst. destruct i as [|i].
  - assert (eqb y y = true) as -> by (apply eqb_spec; auto). f_equal. lia.
  - destruct (eqb y (nth i t unknown)) eqn:E.
    + apply eqb_spec in E. subst. exfalso. apply Hy. apply nth_In. lia.
    + rewrite IH by (auto; lia). f_equal. lia.
Qed.

Theorem perm_labels_distinct items : NoDup items -> perm_labels items = Some (fit_labels items).
Proof.
  intros Hnd. destruct (perm_labels_defined items) as (labels & Hl & Hp). rewrite Hl. f_equal.
  unfold perm_labels, sorted_by_opt_key in Hl. destruct (forallb _ items); [|discriminate]. injection Hl as <-.
  set (key := fun x => match item_key (fit_index (fit_labels items)) x with Some k => k | None => 0 end) in *.
  pose proof (fit_labels_NoDup items) as HL. pose proof (fit_labels_perm items Hnd) as HLp.
  assert (Hkey : forall i, i < length (fit_labels items) -> key (nth i (fit_labels items) unknown) = i).
  { intros i Hi. unfold key, item_key, transform, map_opt. cbn [map sequence]. rewrite fit_index_distinct by auto.
    rewrite ldict_get_nth by auto. reflexivity. }
  symmetry. apply (ksorted_perm_unique key).
  - intros a b Ha Hb E. destruct (In_nth _ _ unknown Ha) as (i & Hi & <-). destruct (In_nth _ _ unknown Hb) as (j & Hj & <-).
    rewrite !Hkey in E by auto. subst; auto.
  - (* the encoder's labels are sorted by their own index *)
    apply (index_sorted key _ 0). intros i Hi. rewrite Hkey by auto. reflexivity.
  - apply sorted_by_key_sorted.
  - apply Permutation_trans with items; [exact HLp|apply sorted_by_key_perm].
Qed.

Corollary perm_decode_unchanged_for_distinct items r : NoDup items -> (forall i, In i r -> i < length items) ->
  perm_decode_items items r = perm_decode items r.
Proof.
  intros Hnd Hr. unfold perm_decode_items, perm_decode. rewrite perm_labels_distinct by auto. cbn [obind].
  pose proof (fit_labels_NoDup items) as HL.
  assert (Hlen : length (fit_labels items) = length items) by (apply Permutation_length, fit_labels_perm; auto).
  rewrite inverse_transform_distinct by auto. rewrite decode_labels_total by (intros i Hi; rewrite Hlen; auto).
  f_equal. apply map_ext_in. intros i Hi. apply Hr in Hi. destruct (Nat.ltb_spec i (length (fit_labels items))); auto; lia.
Qed.
End Labels.

(* ---- repeated items: the statement fails.  Three declared items, two distinct labels: index 2 has no label *)
Definition dup_items : list nat := [1; 1; 2].
Theorem perm_decode_duplicates_refuted :
  exists (items : list nat) (r : list nat) (out : list nat),
    Permutation r (seq 0 (length items)) /\
    perm_decode nat Nat.eqb Nat.leb 99 items r = Some out /\ In 99 out /\ ~ In 99 items /\ ~ Permutation out items.
Proof.
  exists dup_items, [0; 1; 2], [1; 2; 99]. split; [reflexivity|]. split; [vm_compute; reflexivity|].
  split; [cbn; auto|]. split; [cbn; intuition discriminate|].
  intros H. assert (In 99 dup_items) by (eapply Permutation_in; [exact H|cbn; auto]). cbn in *. intuition discriminate.
Qed.
Example perm_decode_distinct_example :
  perm_decode nat Nat.eqb Nat.leb 99 [30; 10; 20] [2; 0; 1] = Some [30; 10; 20] /\ NoDup [30; 10; 20].
Proof. split; [vm_compute; reflexivity|]. repeat constructor; cbn; intuition discriminate. Qed.

(* the repaired decode on the same repeated items: a rearrangement *)
Example perm_decode_items_duplicates :
  perm_decode_items nat Nat.eqb Nat.leb dup_items [2; 0; 1] = Some [2; 1; 1] /\ perm_decode_items nat Nat.eqb Nat.leb [30; 10; 20] [2; 0; 1] = Some [30; 10; 20].
Proof. split; vm_compute; reflexivity. Qed.
