(* Labels.v — models.LabelEncoder as PermutationVariable uses it (fit on the declared items, inverse_transform of a corrected value), and the
   decode half of C13 for permutations: the decoded value is a rearrangement of the declared items - PROVIDED the items are pairwise distinct.
   For repeated items the statement is refuted (the encoder keeps one label per DISTINCT item, the variable one index per DECLARED item).

   L is the type of labels modulo Python's `==` (what `set()` identifies); leb is the order of the sort key
   `(isinstance(x, (int, float)), x)`: strings before numbers, each group in its own order. *)
From Coq Require Import List Arith Bool Lia Permutation Sorted.
From PV Require Import PyLib.
Import ListNotations.

Section Labels.
Variable L : Type.
Variable eqb : L -> L -> bool.
Variable leb : L -> L -> bool.
Variable unknown : L.                      (* the string "unknown" *)

(* set(y): one representative per class of == (which representative survives is not observable modulo ==) *)
Definition mem (x : L) (l : list L) : bool := existsb (eqb x) l.
Fixpoint dedup (l : list L) : list L :=
  match l with [] => [] | x :: t => if mem x t then dedup t else x :: dedup t end.

(* sorted(<iterable>, key=...) : insertion sort; for a total order on distinct elements every sort gives the same list (sorted_perm_unique) *)
Fixpoint insert (x : L) (l : list L) : list L :=
  match l with [] => [x] | y :: t => if leb x y then x :: y :: t else y :: insert x t end.
Definition isort (l : list L) : list L := fold_right insert [] l.
Definition py_sorted_set (y : list L) : list L := isort (dedup y).

(* {label: i for i, label in enumerate(labels)} : a dict in insertion order, a repeated key overwrites its value in place *)
Fixpoint ldict_set (k : L) (v : nat) (d : list (L * nat)) : list (L * nat) :=
  match d with
  | [] => [(k, v)]
  | (k', v') :: t => if eqb k' k then (k', v) :: t else (k', v') :: ldict_set k v t
  end.
Definition ldict_of_enumerate (labels : list L) : list (L * nat) :=
  fold_left (fun d p => ldict_set (snd p) (fst p) d) (combine (seq 0 (length labels)) labels) [].

(* LabelEncoder.fit: the two fields *)
Definition fit_labels (y : list L) : list L := py_sorted_set y.
Definition fit_index (labels : list L) : list (L * nat) := ldict_of_enumerate labels.

(* inverse_transform: [labels[i] if i in index.values() else "unknown" for i in y]; labels[i] beyond the end is an IndexError *)
Definition inverse1 (labels : list L) (index : list (L * nat)) (i : nat) : option L :=
  if existsb (Nat.eqb i) (map snd index) then nth_error labels i else Some unknown.
Definition inverse_transform (labels : list L) (index : list (L * nat)) (y : list nat) : option (list L) :=
  map_opt (inverse1 labels index) y.

(* PermutationVariable: __init__ fits the encoder on the items; decode = inverse_transform (correct value) *)
Definition perm_decode (items : list L) (corrected : list nat) : option (list L) :=
  inverse_transform (fit_labels items) (fit_index (fit_labels items)) corrected.

(* ------------------------------------------------------------------------------------------- *)
Hypothesis eqb_spec : forall x y, eqb x y = true <-> x = y.

Lemma mem_In x l : mem x l = true <-> In x l.
Proof.
  unfold mem. rewrite existsb_exists. split.
  - intros (y & Hy & E). apply eqb_spec in E. subst; auto.
  - intros H. exists x. split; auto. apply eqb_spec; auto.
Qed.

Lemma dedup_nodup_id l : NoDup l -> dedup l = l.
Proof.
  induction 1 as [|x t Hx Ht IH]; cbn; auto.
  destruct (mem x t) eqn:E; [apply mem_In in E; contradiction|]. f_equal; auto.
Qed.
Lemma dedup_In x l : In x (dedup l) <-> In x l.
Proof.
  induction l as [|y t IH]; cbn; [tauto|]. destruct (mem y t) eqn:E.
  - rewrite IH. split; auto. intros [<-|H]; auto. apply mem_In; auto.
  - cbn. rewrite IH. tauto.
Qed.
Lemma dedup_NoDup l : NoDup (dedup l).
Proof.
  induction l as [|y t IH]; cbn; [constructor|]. destruct (mem y t) eqn:E; auto.
  constructor; auto. rewrite dedup_In. intros H. apply mem_In in H. congruence.
Qed.

Lemma insert_perm x l : Permutation (x :: l) (insert x l).
Proof.
  induction l as [|y t IH]; cbn; auto. destruct (leb x y); auto.
  rewrite perm_swap. constructor; auto.
Qed.
Lemma isort_perm l : Permutation l (isort l).
Proof. induction l as [|x t IH]; cbn; auto. rewrite <- insert_perm. constructor; auto. Qed.

Lemma fit_labels_perm items : NoDup items -> Permutation (fit_labels items) items.
Proof. intros H. unfold fit_labels, py_sorted_set. rewrite dedup_nodup_id by auto. apply Permutation_sym, isort_perm. Qed.
Lemma fit_labels_NoDup y : NoDup (fit_labels y).
Proof. unfold fit_labels, py_sorted_set. eapply Permutation_NoDup; [apply isort_perm|apply dedup_NoDup]. Qed.
Lemma fit_labels_In x y : In x (fit_labels y) <-> In x y.
Proof.
  unfold fit_labels, py_sorted_set. split; intros H.
  - apply dedup_In. eapply Permutation_in; [apply Permutation_sym, isort_perm|exact H].
  - eapply Permutation_in; [apply isort_perm|]. apply dedup_In. exact H.
Qed.

(* the index of distinct labels is the enumeration itself: label k |-> k *)
Lemma ldict_set_fresh k v d : ~ In k (map fst d) -> ldict_set k v d = d ++ [(k, v)].
Proof.
  induction d as [|[k' v'] t IH]; cbn; intros H; auto.
  destruct (eqb k' k) eqn:E; [apply eqb_spec in E; subst; tauto|]. f_equal. apply IH. tauto.
Qed.
Lemma fold_enumerate_distinct labels : forall s d, NoDup (map fst d ++ labels) ->
  fold_left (fun d p => ldict_set (snd p) (fst p) d) (combine (seq s (length labels)) labels) d
  = d ++ combine labels (seq s (length labels)).
Proof.
  induction labels as [|x t IH]; cbn; intros s d H; [rewrite app_nil_r; reflexivity|].
  rewrite ldict_set_fresh.
  - rewrite IH.
    + rewrite <- app_assoc. reflexivity.
    + rewrite map_app. cbn. rewrite <- app_assoc. cbn. eapply Permutation_NoDup; [|exact H].
      apply Permutation_app_head. reflexivity.
  - apply NoDup_remove_2 in H. intros Hin. apply H. apply in_or_app. auto.
Qed.
Lemma fit_index_distinct labels : NoDup labels -> fit_index labels = combine labels (seq 0 (length labels)).
Proof. intros H. unfold fit_index, ldict_of_enumerate. rewrite fold_enumerate_distinct; auto. Qed.
Lemma snd_combine_seq' (l : list L) s : map snd (combine l (seq s (length l))) = seq s (length l).
Proof. revert s. induction l as [|x t IH]; cbn; intros s; auto. f_equal. apply IH. Qed.
Lemma fit_index_values labels i : NoDup labels -> existsb (Nat.eqb i) (map snd (fit_index labels)) = (i <? length labels).
Proof.
  intros H. rewrite fit_index_distinct, snd_combine_seq' by auto.
  destruct (Nat.ltb_spec i (length labels)) as [Hlt|Hge].
  - apply existsb_exists. exists i. split; [apply in_seq; lia|apply Nat.eqb_refl].
  - destruct (existsb _ _) eqn:E; auto. apply existsb_exists in E as (j & Hj & E). apply Nat.eqb_eq in E. subst. apply in_seq in Hj. lia.
Qed.

(* inverse_transform over distinct labels: defined everywhere; an index inside the range gives its label, any other gives "unknown" *)
Lemma inverse_transform_distinct labels y : NoDup labels ->
  inverse_transform labels (fit_index labels) y = Some (map (fun i => if i <? length labels then nth i labels unknown else unknown) y).
Proof.
  intros H. unfold inverse_transform, map_opt. induction y as [|i t IH]; cbn [map sequence]; auto. rewrite IH.
  unfold inverse1. rewrite fit_index_values by auto.
  destruct (Nat.ltb_spec i (length labels)) as [Hlt|Hge]; auto.
  rewrite (nth_error_nth' labels unknown Hlt). reflexivity.
Qed.

Lemma map_nth_seq (l : list L) : map (fun i => nth i l unknown) (seq 0 (length l)) = l.
Proof.
  induction l as [|x t IH]; cbn; auto. f_equal. rewrite <- seq_shift, map_map. exact IH.
Qed.

(* ---- C13, decode half for permutations: distinct items *)
Theorem perm_decode_rearranges items r : NoDup items -> Permutation r (seq 0 (length items)) ->
  exists out, perm_decode items r = Some out /\ Permutation out items /\ length out = length r /\
    (forall j, j < length r -> nth j out unknown = nth (nth j r 0) (fit_labels items) unknown).
Proof.
  intros Hnd Hr. unfold perm_decode. pose proof (fit_labels_NoDup items) as Hl. pose proof (fit_labels_perm items Hnd) as Hp.
  assert (Hlen : length (fit_labels items) = length items) by (apply Permutation_length; auto).
  rewrite inverse_transform_distinct by auto. eexists; split; [reflexivity|].
  assert (Hin : forall i, In i r -> i < length (fit_labels items)).
  { intros i Hi. apply (Permutation_in _ Hr) in Hi. apply in_seq in Hi. lia. }
  assert (Hmap : map (fun i => if i <? length (fit_labels items) then nth i (fit_labels items) unknown else unknown) r
                 = map (fun i => nth i (fit_labels items) unknown) r).
  { apply map_ext_in. intros i Hi. apply Hin in Hi. destruct (Nat.ltb_spec i (length (fit_labels items))); auto; lia. }
  rewrite Hmap. split; [|split].
  - apply Permutation_trans with (fit_labels items); [|exact Hp].
    apply Permutation_trans with (map (fun i => nth i (fit_labels items) unknown) (seq 0 (length (fit_labels items)))).
    + apply Permutation_map. rewrite Hlen. exact Hr.
    + rewrite map_nth_seq. apply Permutation_refl.
  - apply map_length.
  - intros j Hj. rewrite (nth_indep _ unknown (nth 0 (fit_labels items) unknown)) by (rewrite map_length; auto).
    change (nth 0 (fit_labels items) unknown) with ((fun i => nth i (fit_labels items) unknown) 0). rewrite map_nth. reflexivity.
Qed.

(* nothing outside the declared items comes back *)
Corollary perm_decode_declared items r out : NoDup items -> Permutation r (seq 0 (length items)) ->
  perm_decode items r = Some out -> forall x, In x out -> In x items.
Proof.
  intros Hnd Hr Ho x Hx. destruct (perm_decode_rearranges items r Hnd Hr) as (o & Ho' & Hp & _).
  rewrite Ho in Ho'. injection Ho' as <-. eapply Permutation_in; eauto.
Qed.

(* ---- the label order does not depend on the iteration order of the set (C07): for a total order, sorting is canonical *)
Definition le (a b : L) : Prop := leb a b = true.
Hypothesis leb_total : forall a b, leb a b = true \/ leb b a = true.
Hypothesis leb_trans : forall a b c, leb a b = true -> leb b c = true -> leb a c = true.
Hypothesis leb_antisym : forall a b, leb a b = true -> leb b a = true -> a = b.

Lemma insert_sorted x l : StronglySorted le l -> StronglySorted le (insert x l).
Proof.
  induction 1 as [|y t Hs IH Hy]; cbn; [repeat constructor|].
  destruct (leb x y) eqn:E.
  - constructor; [constructor; auto|]. constructor; auto. rewrite Forall_forall in *. intros z Hz. eapply leb_trans; [exact E|]. apply Hy; auto.
  - constructor; auto. rewrite Forall_forall in *. intros z Hz.
    apply (Permutation_in _ (Permutation_sym (insert_perm x t))) in Hz. destruct Hz as [<-|Hz]; auto.
    destruct (leb_total x y) as [H|H]; [congruence|exact H].
Qed.
Lemma isort_sorted l : StronglySorted le (isort l).
Proof. induction l as [|x t IH]; cbn; [constructor|]. apply insert_sorted; auto. Qed.

Lemma sorted_perm_unique l : forall l', StronglySorted le l -> StronglySorted le l' -> Permutation l l' -> l = l'.
Proof.
  induction l as [|x t IH]; intros l' Hs Hs' Hp.
  - apply Permutation_nil in Hp. auto.
  - destruct l' as [|y u]; [apply Permutation_sym, Permutation_nil in Hp; discriminate|].
    inversion Hs as [|? ? Hst Hx]; subst. inversion Hs' as [|? ? Hsu Hy]; subst.
    assert (x = y) as ->.
    { assert (In x (y :: u)) as Hxi by (eapply Permutation_in; [exact Hp|left; auto]).
      assert (In y (x :: t)) as Hyi by (eapply Permutation_in; [apply Permutation_sym; exact Hp|left; auto]).
      destruct Hxi as [->|Hxu]; auto. destruct Hyi as [->|Hyt]; auto.
      rewrite Forall_forall in Hx, Hy. apply leb_antisym; [apply Hx|apply Hy]; auto. }
    f_equal. apply IH; auto. eapply Permutation_cons_inv; eauto.
Qed.

(* whatever order the set hands its members out in, the fitted labels are the same list *)
Theorem fit_labels_order_independent s s' : Permutation s s' -> isort s = isort s'.
Proof.
  intros Hp. apply sorted_perm_unique; try apply isort_sorted.
  rewrite <- (isort_perm s), <- (isort_perm s'). exact Hp.
Qed.
End Labels.

(* ---- repeated items: the statement fails.  Three declared items, two distinct labels: index 2 has no label *)
Definition dup_items : list nat := [1; 1; 2].
Theorem perm_decode_duplicates_refuted :
  exists (items : list nat) (r : list nat) (out : list nat),
    Permutation r (seq 0 (length items)) /\
    perm_decode nat Nat.eqb Nat.leb 99 items r = Some out /\ In 99 out /\ ~ In 99 items /\ ~ Permutation out items.
Proof.
  exists dup_items, [0; 1; 2], [1; 2; 99]. split; [reflexivity|]. split; [vm_compute; reflexivity|].
  split; [cbn; auto|]. split; [cbn; intuition discriminate|].
  intros H. assert (In 99 dup_items) by (eapply Permutation_in; [exact H|cbn; auto]). cbn in *. intuition discriminate.
Qed.
Example perm_decode_distinct_example :
  perm_decode nat Nat.eqb Nat.leb 99 [30; 10; 20] [2; 0; 1] = Some [30; 10; 20] /\ NoDup [30; 10; 20].
Proof. split; [vm_compute; reflexivity|]. repeat constructor; cbn; intuition discriminate. Qed.
