(* Xnum.v — the exact order / truncation carrier (DESIGN.md §3).

   [XFin z] denotes the real number z / 2^1074.  Every finite IEEE binary64 value is an integer
   multiple of 2^-1074, so the harness embeds a double v as [mk m e] with v = m * 2^e exactly
   (m, e from math.frexp), i.e. XFin (m * 2^(e+1074)); -0.0 and +0.0 both embed as XFin 0, which is
   the IEEE identification (-0.0 == 0.0).  Python ints k embed as XFin (k * 2^1074).
   All comparisons, negation, abs, clip and int() truncation are exact on this carrier. *)
From Coq Require Import ZArith Bool Lia List.
Import ListNotations.
Local Open Scope Z_scope.

Inductive xnum := XNaN | XNInf | XFin (z : Z) | XPInf.

Definition SCALE : Z := 2 ^ 1074.
Global Arguments SCALE : simpl never.

(* harness literal: mantissa and binary exponent, e + 1074 >= 0 for every double *)
Definition mk (m e : Z) : xnum := XFin (Z.shiftl m (e + 1074)).
Definition xint (k : Z) : xnum := XFin (k * SCALE).

Definition xltb (a b : xnum) : bool :=
  match a, b with
  | XNaN, _ | _, XNaN => false
  | XNInf, XNInf => false | XNInf, _ => true
  | _, XNInf => false
  | XFin x, XFin y => x <? y
  | XFin _, XPInf => true
  | XPInf, _ => false
  end.
Definition xleb (a b : xnum) : bool :=
  match a, b with
  | XNaN, _ | _, XNaN => false
  | XNInf, _ => true
  | _, XNInf => false
  | XFin x, XFin y => x <=? y
  | _, XPInf => true
  | XPInf, _ => false
  end.
Definition xeqb (a b : xnum) : bool :=
  match a, b with
  | XNInf, XNInf | XPInf, XPInf => true
  | XFin x, XFin y => x =? y
  | _, _ => false
  end.
Definition is_nan (a : xnum) : bool := match a with XNaN => true | _ => false end.
Definition is_fin (a : xnum) : bool := match a with XFin _ => true | _ => false end.
Definition non_nan (a : xnum) : Prop := a <> XNaN.

Definition xneg (a : xnum) : xnum :=
  match a with XNaN => XNaN | XNInf => XPInf | XFin z => XFin (- z) | XPInf => XNInf end.
Definition xabs (a : xnum) : xnum :=
  match a with XNaN => XNaN | XNInf => XPInf | XFin z => XFin (Z.abs z) | XPInf => XPInf end.

(* numpy maximum / minimum: NaN propagates *)
Definition xmax (a b : xnum) : xnum :=
  if is_nan a then XNaN else if is_nan b then XNaN else if xltb a b then b else a.
Definition xmin (a b : xnum) : xnum :=
  if is_nan a then XNaN else if is_nan b then XNaN else if xltb b a then b else a.
(* np.clip(v, lo, hi) = minimum(maximum(v, lo), hi) *)
Definition xclip (v lo hi : xnum) : xnum := xmin (xmax v lo) hi.

(* Python int(): truncation toward zero; raises (None) on NaN and infinities *)
Definition xtrunc (a : xnum) : option Z :=
  match a with XFin z => Some (Z.quot z SCALE) | _ => None end.

(* ---------------------------------------------------------------- order lemmas *)
Lemma SCALE_pos : 0 < SCALE.
Proof. unfold SCALE. apply Z.pow_pos_nonneg; lia. Qed.

Lemma xleb_total a b : non_nan a -> non_nan b -> xleb a b = true \/ xleb b a = true.
Proof.
  unfold non_nan; destruct a as [| |x|], b as [| |y|]; cbn; intros; try congruence; auto.
  destruct (Z.leb_spec x y); auto. right. apply Z.leb_le. lia.
Qed.
Lemma xleb_refl a : non_nan a -> xleb a a = true.
Proof. unfold non_nan; destruct a; cbn; intros; try congruence; auto. apply Z.leb_refl. Qed.
Lemma xleb_trans a b c : xleb a b = true -> xleb b c = true -> xleb a c = true.
Proof.
  destruct a as [| |x|], b as [| |y|], c as [| |z|]; cbn; intros H1 H2; try congruence; auto.
  apply Z.leb_le. apply Z.leb_le in H1, H2. lia.
Qed.
Lemma xleb_antisym a b : xleb a b = true -> xleb b a = true -> a = b.
Proof.
  destruct a as [| |x|], b as [| |y|]; cbn; intros H1 H2; try congruence; auto.
  apply Z.leb_le in H1, H2. f_equal. lia.
Qed.
Lemma xltb_not_leb a b : non_nan a -> non_nan b -> xltb a b = negb (xleb b a).
Proof.
  unfold non_nan; destruct a as [| |x|], b as [| |y|]; cbn; intros; try congruence; auto.
  destruct (Z.ltb_spec x y), (Z.leb_spec y x); cbn; auto; lia.
Qed.
Lemma xltb_irrefl a : xltb a a = false.
Proof. destruct a; cbn; auto. apply Z.ltb_irrefl. Qed.
Lemma xltb_leb a b : xltb a b = true -> xleb a b = true.
Proof.
  destruct a as [| |x|], b as [| |y|]; cbn; intros H; try congruence; auto.
  apply Z.leb_le. apply Z.ltb_lt in H. lia.
Qed.
Lemma xltb_trans a b c : xltb a b = true -> xltb b c = true -> xltb a c = true.
Proof.
  destruct a as [| |x|], b as [| |y|], c as [| |z|]; cbn; intros H1 H2; try congruence; auto.
  apply Z.ltb_lt. apply Z.ltb_lt in H1, H2. lia.
Qed.
Lemma xltb_nan_l b : xltb XNaN b = false.  Proof. reflexivity. Qed.
Lemma xltb_nan_r a : xltb a XNaN = false.  Proof. destruct a; reflexivity. Qed.

Lemma xneg_invol a : xneg (xneg a) = a.
Proof. destruct a; cbn; auto. f_equal; lia. Qed.
Lemma xneg_ltb a b : xltb (xneg a) (xneg b) = xltb b a.
Proof.
  destruct a as [| |x|], b as [| |y|]; cbn; auto.
  destruct (Z.ltb_spec (-x) (-y)), (Z.ltb_spec y x); auto; lia.
Qed.
Lemma xneg_leb a b : xleb (xneg a) (xneg b) = xleb b a.
Proof.
  destruct a as [| |x|], b as [| |y|]; cbn; auto.
  destruct (Z.leb_spec (-x) (-y)), (Z.leb_spec y x); auto; lia.
Qed.
Lemma xneg_non_nan a : non_nan a -> non_nan (xneg a).
Proof. unfold non_nan; destruct a; cbn; congruence. Qed.
Lemma xneg_is_nan a : is_nan (xneg a) = is_nan a.
Proof. destruct a; reflexivity. Qed.

Lemma xeqb_eq a b : xeqb a b = true <-> (a = b /\ non_nan a).
Proof.
  unfold non_nan; destruct a as [| |x|], b as [| |y|]; cbn; split; intros H; try congruence;
    try (destruct H; congruence); try (split; congruence).
  - apply Z.eqb_eq in H. subst. split; congruence.
  - destruct H as [H _]. inversion H. apply Z.eqb_refl.
Qed.

(* ---------------------------------------------------------------- clip *)
Ltac zb :=
  repeat match goal with
  | H : (_ <? _) = true |- _ => apply Z.ltb_lt in H
  | H : (_ <? _) = false |- _ => apply Z.ltb_ge in H
  | H : (_ <=? _) = true |- _ => apply Z.leb_le in H
  | H : (_ <=? _) = false |- _ => apply Z.leb_gt in H
  | H : (_ =? _) = true |- _ => apply Z.eqb_eq in H
  | H : (_ =? _) = false |- _ => apply Z.eqb_neq in H
  end.
Ltac xcases :=
  cbn in *;
  repeat (match goal with
  | |- context [if ?c then _ else _] => destruct c eqn:?; cbn in *
  | H : context [if ?c then _ else _] |- _ => destruct c eqn:?; cbn in *
  end);
  zb; try congruence; try discriminate;
  repeat match goal with |- _ /\ _ => split end;
  try reflexivity; try (apply Z.leb_le; lia); try (apply Z.ltb_lt; lia); try (f_equal; lia); try lia.
Definition in_range (lo hi v : xnum) : Prop := xleb lo v = true /\ xleb v hi = true.
Definition in_rangeb (lo hi v : xnum) : bool := xleb lo v && xleb v hi.

Lemma in_rangeb_spec lo hi v : in_rangeb lo hi v = true <-> in_range lo hi v.
Proof. unfold in_rangeb, in_range. rewrite andb_true_iff. tauto. Qed.

Lemma xclip_in_range v lo hi :
  non_nan v -> xleb lo hi = true -> in_range lo hi (xclip v lo hi).
Proof.
  unfold non_nan, in_range, xclip, xmin, xmax.
  destruct v as [| |v|], lo as [| |l|], hi as [| |h|]; intros Hv Hlh; xcases.
Qed.

Lemma xclip_fix v lo hi : in_range lo hi v -> xclip v lo hi = v.
Proof.
  unfold in_range, xclip, xmin, xmax.
  destruct v as [| |v|], lo as [| |l|], hi as [| |h|]; intros [H1 H2]; xcases.
Qed.

Lemma xclip_nan lo hi : xclip XNaN lo hi = XNaN.
Proof. reflexivity. Qed.

Lemma xclip_non_nan v lo hi : non_nan v -> non_nan lo -> non_nan hi -> non_nan (xclip v lo hi).
Proof.
  unfold non_nan, xclip, xmin, xmax.
  destruct v, lo, hi; intros; xcases.
Qed.

Lemma xclip_idem v lo hi :
  non_nan v -> xleb lo hi = true -> xclip (xclip v lo hi) lo hi = xclip v lo hi.
Proof. intros Hv Hlh. apply xclip_fix. apply xclip_in_range; auto. Qed.

(* ---------------------------------------------------------------- trunc of a clipped index *)
Lemma quot_scale_bounds z n : 0 <= z <= n * SCALE -> 0 <= Z.quot z SCALE <= n.
Proof.
  intros [H0 Hn]. pose proof SCALE_pos as HS. split.
  - apply Z.quot_pos; lia.
  - rewrite Z.quot_div_nonneg by lia. apply Z.div_le_upper_bound; lia.
Qed.
Lemma quot_scale_int k : Z.quot (k * SCALE) SCALE = k.
Proof. pose proof SCALE_pos. apply Z.quot_mul. lia. Qed.

Lemma xtrunc_xint k : xtrunc (xint k) = Some k.
Proof. unfold xtrunc, xint. f_equal. apply quot_scale_int. Qed.
