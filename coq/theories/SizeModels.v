(* SizeModels.v — hand size models of the optimizers whose population writes T-algo cannot classify (C10): for each, the number
   of agents after one optimization_step as a function of the number before (n), of config.population_size (P) and of the integer
   quantities the optimizer derives from its configuration.  The models are EXECUTABLE: the correspondence driver evaluates them by
   vm_compute on the configurations it runs the real optimizers with, generation by generation; each is tied to the source by the
   fingerprint of the optimizer's population-affecting statements (expectations.json).  The theorems state under which side
   condition on the integer parameters a population of P agents stays a population of P agents; where the side condition is not
   implied by the configuration validators it is the documented-size condition of the property's quantifier. *)
From Coq Require Import List Arith Bool Lia ZArith.
Import ListNotations.

(* len(l[a:b]) for a list of n elements *)
Definition slice_len (n a b : nat) : nat := Nat.min b n - Nat.min a n.
(* _generate_group_population(n_groups, n_agents, with_residual) on a population of n agents: the sizes of the groups *)
Definition groups_sizes (n P n_groups n_agents : nat) (with_residual : bool) : list nat :=
  map (fun i => slice_len n (i * n_agents) ((i + 1) * n_agents)) (seq 0 n_groups)
  ++ (if with_residual && negb (P mod n_groups =? 0) then [Nat.min n (P mod n_groups)] else []).
Definition groups_total (n P n_groups n_agents : nat) (with_residual : bool) : nat := list_sum (groups_sizes n P n_groups n_agents with_residual).

(* ---- the models: size after one step, given the size n before *)
(* Cuckoo Search: map; sort_and_trim(P); pop[:P - n_cut] + n_cut fresh nests *)
Definition cuckoo (P n_cut n : nat) : nat := Nat.min (P - n_cut) (Nat.min P n) + n_cut.
(* Monarch Butterfly: elite = pop[:keep]; pop1 (np1 agents) + pop2 (np2 = P - np1 agents) sorted and trimmed to P - keep; extend(elite) *)
Definition monarch (P keep np1 n : nat) : nat := Nat.min (P - keep) (np1 + (P - np1)) + Nat.min keep n.
(* Earthworms: map; pop[:keep] + [mutant for _ in range(keep, P)]; in-place replacements *)
Definition earthworms (P keep n : nat) : nat := Nat.min keep n + (P - keep).
(* Brain Storm (both variants), Henry Gas: the clusters are cut once (after_initialization, from the initial population of n0 agents, without the
   residual agents) and the population is their concatenation at every step *)
Definition clustered (P m n0 : nat) (n : nat) : nat := groups_total n0 P m (P / m) false.
(* Coyotes: packs = groups(n_packs = P / num_coyotes, num_coyotes, with residual) of the current population; population = all coyotes of all packs *)
Definition coyotes (P num_coyotes n : nat) : nat := groups_total n P (P / num_coyotes) num_coyotes true.
(* Elephant Herd: map; groups(n_clans, P / n_clans, with residual); worst of each full clan replaced; population = all elephants of all clans *)
Definition elephant (P n_clans n : nat) : nat := groups_total n P n_clans (P / n_clans) true.
(* Genetic Algorithm: two children per pair over range(0, P, 2); the population is rebuilt from the children *)
Definition genetic (P n : nat) : nat := 2 * ((P + 1) / 2).
(* Fire Hawk: hn hawks move, every prey of every group yields two candidates (the groups partition the n - hn preys); replace-and-trim to P *)
Definition firehawk (P hn n : nat) : nat := Nat.min P (Nat.min hn n + 2 * (n - hn)).
(* Bacterial Foraging: splits and eliminations, duplicates removed, then __balance_population__ adds or removes agents up to exactly P *)
Definition bacterial (P n : nat) : nat := P.
(* Water Cycle: sea and rivers (the first nsr agents) plus all streams; streams only move between rivers, an evaporated stream is replaced by a new one *)
Definition watercycle (P nsr n : nat) : nat := Nat.min nsr n + (n - nsr).

(* generation k of a run that starts with n0 agents *)
Fixpoint iterate (step : nat -> nat) (k n0 : nat) : nat := match k with 0 => n0 | S k' => step (iterate step k' n0) end.

(* ---- lemmas *)
Lemma slice_full n a b : b <= n -> a <= b -> slice_len n a b = b - a.
Proof. intros. unfold slice_len. rewrite !Nat.min_l by lia. reflexivity. Qed.

Lemma list_sum_map_const {X} (l : list X) c : list_sum (map (fun _ => c) l) = length l * c.
Proof. unfold list_sum. induction l as [|x l IH]; [reflexivity|]. simpl. rewrite IH. reflexivity. Qed.

Lemma full_groups n k a : k * a <= n -> list_sum (map (fun i => slice_len n (i * a) ((i + 1) * a)) (seq 0 k)) = k * a.
Proof.
  intros H. rewrite (map_ext_in _ (fun _ => a)).
  - rewrite list_sum_map_const, seq_length. reflexivity.
  - intros i Hi. apply in_seq in Hi. rewrite slice_full; nia.
Qed.

Lemma groups_total_no_residual n P k a : k * a <= n -> groups_total n P k a false = k * a.
Proof. intros H. unfold groups_total, groups_sizes. cbn [andb]. rewrite app_nil_r. apply full_groups; auto. Qed.

Lemma groups_total_residual n P k a : k * a <= n -> P mod k <= n ->
  groups_total n P k a true = k * a + P mod k.
Proof.
  intros H Hr. unfold groups_total, groups_sizes. rewrite list_sum_app, full_groups by auto. cbn [andb].
  destruct (P mod k =? 0) eqn:E; unfold list_sum; simpl.
  - apply Nat.eqb_eq in E. rewrite E. lia.
  - rewrite Nat.min_r by exact Hr. lia.
Qed.

(* ---- the size theorems: a population of P agents stays a population of P agents *)
Theorem cuckoo_conserves P n_cut : n_cut <= P -> cuckoo P n_cut P = P.
Proof. unfold cuckoo. lia. Qed.
Theorem monarch_conserves P keep np1 : keep <= P -> np1 <= P -> monarch P keep np1 P = P.
Proof. unfold monarch. lia. Qed.
Theorem earthworms_conserves P keep : keep <= P -> earthworms P keep P = P.
Proof. unfold earthworms. lia. Qed.
Theorem clustered_conserves P m n : m <> 0 -> P mod m = 0 -> clustered P m P n = P.
Proof.
  intros Hm Hd. unfold clustered. rewrite groups_total_no_residual.
  - pose proof (Nat.div_mod P m Hm). lia.
  - pose proof (Nat.div_mod P m Hm). lia.
Qed.
(* without the divisibility the residual agents are lost: m * (P / m) < P *)
Theorem clustered_loses_residual P m n : m <> 0 -> clustered P m P n = P - P mod m.
Proof.
  intros Hm. unfold clustered. pose proof (Nat.div_mod P m Hm). rewrite groups_total_no_residual; lia.
Qed.
Theorem elephant_conserves P n_clans : n_clans <> 0 -> elephant P n_clans P = P.
Proof.
  intros Hc. unfold elephant. pose proof (Nat.div_mod P n_clans Hc). pose proof (Nat.mod_upper_bound P n_clans Hc).
  rewrite groups_total_residual; lia.
Qed.
Theorem coyotes_conserves P nc : nc <> 0 -> P / nc <> 0 -> P - (P / nc) * nc = P mod (P / nc) -> coyotes P nc P = P.
Proof.
  intros Hc Hp Hres. unfold coyotes. pose proof (Nat.div_mod P nc Hc). pose proof (Nat.mod_upper_bound P (P / nc) Hp).
  rewrite groups_total_residual; lia.
Qed.
Theorem genetic_conserves P : Nat.even P = true -> forall n, genetic P n = P.
Proof. intros He n. unfold genetic. apply Nat.even_spec in He as [k ->]. replace (2 * k + 1) with (1 + k * 2) by lia. rewrite Nat.div_add by lia. cbn. lia. Qed.
Theorem firehawk_conserves P hn : hn <= P -> firehawk P hn P = P.
Proof. unfold firehawk. lia. Qed.
Theorem bacterial_conserves P n : bacterial P n = P.
Proof. reflexivity. Qed.
Theorem watercycle_conserves P nsr : watercycle P nsr P = P.
Proof. unfold watercycle. lia. Qed.

(* ---- one uniform statement: the model of each irregular optimizer, its side condition as a decidable predicate, conservation at every cycle *)
Inductive smodel :=
| MCuckoo (n_cut : nat) | MMonarch (keep np1 : nat) | MEarthworms (keep : nat) | MClustered (m : nat) | MCoyotes (num_coyotes : nat)
| MElephant (n_clans : nat) | MGenetic | MFireHawk (hn : nat) | MBacterial | MWaterCycle (nsr : nat).
Definition step_of (P n0 : nat) (m : smodel) : nat -> nat :=
  match m with
  | MCuckoo c => cuckoo P c | MMonarch k np1 => monarch P k np1 | MEarthworms k => earthworms P k | MClustered mc => clustered P mc n0
  | MCoyotes nc => coyotes P nc | MElephant c => elephant P c | MGenetic => genetic P | MFireHawk hn => firehawk P hn
  | MBacterial => bacterial P | MWaterCycle nsr => watercycle P nsr
  end.
Definition side_ok (P : nat) (m : smodel) : bool :=
  match m with
  | MCuckoo c => c <=? P
  | MMonarch k np1 => (k <=? P) && (np1 <=? P)
  | MEarthworms k => k <=? P
  | MClustered mc => negb (mc =? 0) && (P mod mc =? 0)
  | MCoyotes nc => negb (nc =? 0) && negb (P / nc =? 0) && (P - (P / nc) * nc =? P mod (P / nc))
  | MElephant c => negb (c =? 0)
  | MGenetic => Nat.even P
  | MFireHawk hn => hn <=? P
  | MBacterial => true
  | MWaterCycle _ => true
  end.

(* hence every generation, for any number of cycles *)
Theorem iterate_fixed step P : step P = P -> forall k, iterate step k P = P.
Proof. intros H k. induction k; cbn; congruence. Qed.

Theorem model_conserves P m : side_ok P m = true -> forall k, iterate (step_of P P m) k P = P.
Proof.
  intros H. apply iterate_fixed. destruct m; cbn [step_of side_ok] in *;
    repeat match goal with
           | H : _ && _ = true |- _ => apply andb_prop in H as [? ?]
           | H : negb _ = true |- _ => apply negb_true_iff in H
           | H : (_ <=? _) = true |- _ => apply Nat.leb_le in H
           | H : (_ =? _) = true |- _ => apply Nat.eqb_eq in H
           | H : (_ =? _) = false |- _ => apply Nat.eqb_neq in H
           end.
  - apply cuckoo_conserves; auto.
  - apply monarch_conserves; auto.
  - apply earthworms_conserves; auto.
  - apply clustered_conserves; auto.
  - apply coyotes_conserves; auto.
  - apply elephant_conserves; auto.
  - apply genetic_conserves; auto.
  - apply firehawk_conserves; auto.
  - reflexivity.
  - apply watercycle_conserves.
Qed.

(* non-vacuity: the side conditions hold at the documented sizes of the repository's fixtures (1x, 1.5x, 2x, 3x) *)
Example coyotes_documented : Forall (fun P => P - (P / 3) * 3 = P mod (P / 3)) [10; 15; 20; 30].
Proof. repeat constructor. Qed.
Example clustered_documented : Forall (fun P => P mod 5 = 0) [20; 30; 40; 60] /\ Forall (fun P => P mod 2 = 0) [20; 30; 40; 60].
Proof. split; repeat constructor. Qed.
(* ... and the loss outside them is what the model predicts: 21 agents in 5 clusters -> 20 *)
Example clustered_21_5 : clustered 21 5 21 21 = 20.
Proof. reflexivity. Qed.
