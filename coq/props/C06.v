(* C06 — A valid problem yields a result; an invalid call is rejected up front.
   PARTIAL: these theorems carry the half of the property that is logic - the rejection table of optimize(), of the task
   and of the variable validators, "before any cycle runs", and the totality of the framework's own operations on a valid
   call.  That the interior of each of the 84 numeric kernels raises no Python error on every valid task is NOT provable
   here (no Gallina model of numpy's dynamic typing / broadcasting); it is covered by the keyed failure census (search). *)
From Coq Require Import List ZArith Bool Arith.
From PV Require Import Xnum Select Select_proofs PyLib Argsort Vars Vars_proofs Task_proofs Init Init_proofs Loop Loop_proofs Entry.
From PVGen Require Import GenVars GenInit GenStop GenSchema.
From PVBridge Require Import LoopBridge InitBridge C04Main C13Main EntryBridge ProvExample EntryExample C04Example.

(* --- invalid calls: no configuration, non-positive workers, unknown mode -> ValueError with ZERO optimization steps,
   for every optimizer (hidden state, hooks, step), every instance history, on the REGENERATED schema of optimize() *)
Theorem C06_invalid_call_rejected :
  forall A cost with_cost F fsub fabs fltb fleb fzero fone avg H before_init init_pop after_init step fuel ar (i : inst A F H),
  (i_config _ _ _ i = None ->
     run A cost with_cost F fsub fabs fltb fleb fzero fone avg H before_init init_pop after_init step fuel gen_optimize_schema ar i = ErrValue A F H 0) /\
  (forall c, i_config _ _ _ i = Some c -> a_workers ar = Some None ->
     run A cost with_cost F fsub fabs fltb fleb fzero fone avg H before_init init_pop after_init step fuel gen_optimize_schema ar i = ErrValue A F H 0) /\
  (forall c, i_config _ _ _ i = Some c -> a_workers ar <> Some None -> a_mode ar = Some None ->
     run A cost with_cost F fsub fabs fltb fleb fzero fone avg H before_init init_pop after_init step fuel gen_optimize_schema ar i = ErrValue A F H 0).
Proof. exact invalid_rejected. Qed.

(* --- the statements of optimize() before its loop (entry checks, hooks, the initial population) execute no optimization
   step, however they end: whatever they reject - including the weight-count mismatch below, raised while the initial
   population is built - is rejected before any cycle runs *)
Theorem C06_nothing_runs_before_the_loop :
  forall A cost with_cost F fsub fabs fltb fleb fzero fone avg H before_init init_pop after_init step ar fr,
  f_steps _ _ _ (fst (exec_flat A cost with_cost F fsub fabs fltb fleb fzero fone avg H before_init init_pop after_init step ar
                        (before_loop gen_optimize_schema) fr)) = f_steps _ _ _ fr.
Proof. intros. apply no_step_before_loop. exact gen_before_loop_no_step. Qed.
Theorem C06_checks_and_population_precede_the_loop :
  In SInitPop (before_loop gen_optimize_schema) /\ In SCheckConfig (before_loop gen_optimize_schema)
  /\ In SWorkers (before_loop gen_optimize_schema) /\ In SMode (before_loop gen_optimize_schema).
Proof. exact gen_before_loop_builds_population. Qed.

(* --- objective / weight count mismatch: the REGENERATED _init_agent refuses every construction (ValueError) *)
Theorem C06_weight_count_mismatch_rejected : forall W dot FT fitness_of obj t d w raw draw,
  (forall x, n_weights W w <> objv_count (obj x)) -> gen_init_agent W dot FT fitness_of obj t d w raw draw = None.
Proof. intros. rewrite init_agent_bridge, weight_count_mismatch_rejected; auto. Qed.

(* --- negative (or NaN) weights: the REGENERATED Task validator rejects exactly those *)
Theorem C06_negative_weights_rejected : forall w,
  gen_task_validate_weights w = None <-> exists ws x, w = Some ws /\ In x ws /\ xleb (XFin 0) x = false.
Proof. intros w. rewrite validate_weights_bridge. apply validate_weights_rejects. Qed.

(* --- inverted (or equal) bounds, non-positive binary size: the REGENERATED variable validators reject exactly those;
   multi-variables: same, plus length mismatch (hand model, differentially tied in C13) *)
Theorem C06_inverted_bounds_rejected :
  (forall lo hi, gen_cont_validate lo hi = None <-> xleb hi lo = true) /\
  (forall k, gen_binary_validate k = None <-> (k <= 0)%Z).
Proof. exact validators_reject. Qed.
Theorem C06_inverted_multi_bounds_rejected :
  (forall lo hi, valid_varb (VCont lo hi) = false <-> xleb hi lo = true) /\
  (forall los his, valid_varb (VContMulti los his) = false <->
      length los <> length his \/ exists p, In p (zip los his) /\ xleb (snd p) (fst p) = true) /\
  (forall los his, valid_varb (VMultiObj los his) = false <->
      length los <> length his \/ exists p, In p (zip los his) /\ xleb (snd p) (fst p) = true) /\
  (forall k, valid_varb (VBinary k) = false <-> (k <= 0)%Z).
Proof. exact valid_varb_rejects. Qed.

(* --- a valid call: the framework's own operations do not fail.
   (i) constructing an agent from a well-shaped candidate succeeds for both directions, single- and weighted
       multi-objective alike (the sign flip of a LIST of objectives keeps its length: the repaired defect) *)
Theorem C06_init_agent_total : forall W dot FT fitness_of obj t d w raw draw,
  valid_task t -> valid_flat t -> shape_ok_all t (candidate raw draw) ->
  (forall x, n_weights W w = objv_count (obj x)) ->
  (forall x, w = None -> exists c, obj x = OScalar c) ->
  exists a, gen_init_agent W dot FT fitness_of obj t d w raw draw = Some a.
Proof.
  intros W dot FT fitness_of obj t d w raw draw Hv Hf Hs Hn Hsc. rewrite init_agent_bridge.
  destruct (init_agent_total W dot FT fitness_of obj t d w raw draw Hv Hf Hs Hn Hsc) as (a & arg & E).
  rewrite E. eexists; reflexivity.
Qed.
(* (ii) with a configuration, valid arguments, max_cycles >= 1 and non-empty generations the run RETURNS a complete result:
        K+1 generations, K rates, 1 <= K <= max_cycles - for every optimizer, stop option, float carrier and history *)
Theorem C06_valid_call_returns_complete_result :
  forall A cost with_cost F fsub fabs fltb fleb fzero fone avg H before_init init_pop after_init step
         ar (i : inst A F H) c h0 p0 pinit,
  i_config _ _ _ i = Some c -> valid_args ar -> 1 <= max_cycles c ->
  entry_state A F H before_init init_pop after_init i = (h0, p0, pinit) ->
  populated A F fsub fabs fltb fleb fzero fone avg H step c h0 p0 pinit ->
  exists K r i',
    run A cost with_cost F fsub fabs fltb fleb fzero fone avg H before_init init_pop after_init step
        (max_cycles c) gen_optimize_schema ar i = Done A F H r i' K /\
    1 <= K <= max_cycles c /\ length (r_evolution _ _ r) = K + 1 /\ length (r_rates _ _ r) = K.
Proof.
  intros A cost with_cost F fsub fabs fltb fleb fzero fone avg H before_init init_pop after_init step ar i c h0 p0 pinit Hc Ha Hm He Hp.
  destruct (stop_rule A cost with_cost F fsub fabs fltb fleb fzero fone avg H before_init init_pop after_init step ar i c h0 p0 pinit Hc Ha Hm He Hp)
    as (K & r & i' & Hr & HK & _ & _ & Hl & Hrl & _).
  exists K, r, i'. auto.
Qed.

Print Assumptions C06_invalid_call_rejected.
Print Assumptions C06_nothing_runs_before_the_loop.
Print Assumptions C06_weight_count_mismatch_rejected.
Print Assumptions C06_negative_weights_rejected.
Print Assumptions C06_inverted_bounds_rejected.
Print Assumptions C06_inverted_multi_bounds_rejected.
Print Assumptions C06_init_agent_total.
Print Assumptions C06_valid_call_returns_complete_result.

(* non-vacuity: a mixed task, a scalar objective and an out-of-range candidate containing +inf meet EVERY hypothesis of C06_init_agent_total, and the REGENERATED
   _init_agent evaluates to `Some` on them; with two weights for the scalar objective the premise of C06_weight_count_mismatch_rejected holds and it evaluates to `None`;
   the hypotheses of C06_valid_call_returns_complete_result are those witnessed for C03 / C04 *)
Theorem C06_hypotheses_satisfiable :
  valid_task ex_task /\ valid_flat ex_task /\ shape_ok_all ex_task (candidate en_raw nil) /\
  (forall x, n_weights unit None = objv_count (ex_obj x)) /\
  (forall x, @None (list unit) = None -> exists c, ex_obj x = OScalar c) /\
  is_some (gen_init_agent unit ex_dot unit ex_fit ex_obj ex_task MAX None en_raw nil) = true /\
  (forall x, n_weights unit (Some (tt :: tt :: nil)) <> objv_count (ex_obj x)) /\
  is_some (gen_init_agent unit ex_dot unit ex_fit ex_obj ex_task MAX (Some (tt :: tt :: nil)) en_raw nil) = false.
Proof. exact entry_hypotheses_satisfiable. Qed.
Theorem C06_valid_call_hypotheses_satisfiable :
  i_config _ _ _ ex_inst = Some ex_cfg /\ valid_args ex_args /\ 1 <= max_cycles ex_cfg /\
  entry_state exA Z unit ex_before ex_init ex_after ex_inst = (tt, ex_p0, ex_p0) /\
  populated exA Z Z.sub Z.abs Z.ltb Z.leb 0%Z 1%Z ex_avg unit ex_step ex_cfg tt ex_p0 ex_p0 /\
  (forall k, costs_ok exA ex_cost (pop_at exA unit ex_step tt ex_p0 k)).
Proof. exact hypotheses_satisfiable. Qed.
Print Assumptions C06_hypotheses_satisfiable.
Print Assumptions C06_valid_call_hypotheses_satisfiable.
