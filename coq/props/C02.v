(* C02 — Reported cost and fitness are the true objective of the reported position. *)
From Coq Require Import String List ZArith Bool.
From PV Require Import Xnum Select PyLib Argsort Vars Vars_proofs Task_proofs Init Init_proofs Skeleton Skeleton_proofs.
From PV Require Import Loop.
From PVGen Require Import GenInit Algos Expected GenStop.
From PVBridge Require Import InitBridge AlgoBridge ProvMain ProvExample LoopBridge.

Theorem C02_init_agent_regenerated : forall W dot FT fitness_of obj t d w raw draw,
  gen_init_agent W dot FT fitness_of obj t d w raw draw = option_map fst (init_agent W dot FT fitness_of obj t d w raw draw).
Proof. exact init_agent_bridge. Qed.
Theorem C02_fitness_regenerated : forall F fadd fdiv fabs fopp fleb fzero fone (v : F) d,
  gen_fitness F fadd fdiv fabs fopp fleb fzero fone v d = fitness F fadd fdiv fabs fopp fleb fzero fone v d.
Proof. exact fitness_bridge. Qed.

(* every agent ever built by a conforming optimizer: the cost it reports (sign restored for maximisation) is the
   user's objective - the weight-vector dot product for multi-objective tasks - at its stored position, and its
   fitness is calculate_fitness of its cost *)
Theorem C02_cost_and_fitness_true :
  forall W dot, (forall l w, dot (map xneg l) w = xneg (dot l w)) ->
  forall FT fitness_of obj t d w, valid_task t -> valid_flat t ->
  forall sk ops, In sk all_skeletons -> ~ In (sk_name sk) known_prov -> run_ok FT t sk ops ->
  Forall (fun a => Some (reported_cost FT d a) = user_cost W dot obj w (a_pos a) /\ a_fit a = fitness_of (a_cost a) d)
         (heap FT (exec_ops W dot FT fitness_of obj t d w ops)).
Proof. intros. eapply every_agent_well_formed; eauto. Qed.

(* the documented formula, on any float carrier and in both directions: fitness = phi(reported cost) *)
Theorem C02_fitness_formula : forall F fadd fdiv fabs fopp fleb fzero fone (internal : F) d,
  gen_fitness F fadd fdiv fabs fopp fleb fzero fone internal d =
  phi F fadd fdiv fabs fleb fzero fone (match d with MIN => internal | MAX => fopp internal end).
Proof. intros. rewrite fitness_bridge. apply fitness_is_phi_of_reported. Qed.

(* "expressed in the user's own sign": what Population / OptimizationResult do to an agent when the history is recorded - the REGENERATED closures refine_agent /
   refine_best_solution - is `report`: the cost as is for a minimisation, negated back for a maximisation, nothing else touched *)
Theorem C02_reported_sign_regenerated : forall A (cost : A -> xnum) (with_cost : A -> xnum -> A) a d,
  gen_population_refine A cost with_cost a d = report A cost with_cost d a /\ gen_result_refine A cost with_cost a d = report A cost with_cost d a.
Proof. intros. split; [apply population_refine_bridge|apply result_refine_bridge]. Qed.
Print Assumptions C02_reported_sign_regenerated.

Print Assumptions C02_init_agent_regenerated.
Print Assumptions C02_fitness_regenerated.
Print Assumptions C02_cost_and_fitness_true.
Print Assumptions C02_fitness_formula.

(* non-vacuity: a concrete weight carrier, objective, mixed task (continuous + discrete), maximisation, a conforming REGENERATED skeleton that is not a known finding and
   an operation sequence (a drawn initial solution outside the bounds, a raw candidate with +inf, a copy) meet EVERY hypothesis of the main theorem; three agents are built *)
Theorem C02_hypotheses_satisfiable :
  (forall l w, ex_dot (map xneg l) w = xneg (ex_dot l w)) /\ valid_task ex_task /\ valid_flat ex_task /\
  exists sk, In sk all_skeletons /\ ~ In (sk_name sk) known_prov /\ run_ok unit ex_task sk ex_ops /\
             length (heap unit (exec_ops unit ex_dot unit ex_fit ex_obj ex_task MAX None ex_ops)) = 3.
Proof. exact prov_hypotheses_satisfiable. Qed.
Print Assumptions C02_hypotheses_satisfiable.
