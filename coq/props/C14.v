(* C14 — A task's search-space description is consistent with its variables.  Property theorems
   only; they are about the hand model TaskModel part of theories/Vars.v, which is tied to
   models.py by the correspondence runs (and, for the per-variable rules, by bridge/VarsBridge.v). *)
From Coq Require Import List ZArith Bool Arith.
From PV Require Import Xnum Select PyLib Argsort Vars Vars_proofs Task_proofs.
From PVGen Require Import GenHyper GenTask.
From PVBridge Require Import VarsBridge TaskBridge.

(* the Task-level loops and comprehensions as REGENERATED from models.py by T-core (the dimension computed by __init__, get_variables, get_bounds with its two
   accumulators, transform_solution with its running counter, slices and dict) ARE the model's functions the theorems below are about - parametric in the per-variable
   methods (size, children, own bounds, decode) *)
Theorem C14_dimension_regenerated : forall t, gen_task_dimension t = dimension t.
Proof. exact dimension_bridge. Qed.
Theorem C14_get_variables_regenerated : forall t, gen_task_get_variables t = flat_vars t.
Proof. exact get_variables_bridge. Qed.
Theorem C14_get_bounds_regenerated : forall t,
  fst (gen_task_get_bounds t) = map lower_of (bounds t) /\ snd (gen_task_get_bounds t) = map upper_of (bounds t).
Proof. exact sides_of_bounds. Qed.
Theorem C14_transform_solution_regenerated : forall t x, gen_task_transform_solution t x = transform_solution t x.
Proof. exact transform_solution_bridge. Qed.

(* what T-core does not translate of Task (the statements of __init__ around the dimension, empty_solution with its random draws) has exactly the modelled text *)
Theorem C14_task_accessors_regenerated : gen_task_methods_shape = true.
Proof. reflexivity. Qed.

(* the description is recomputed from the variables on every call (REGENERATED shape of Task.get_bounds: fresh arrays on every return path), so it cannot drift from
   them through a caller - or a numeric kernel - editing an earlier answer in place *)
Theorem C14_bounds_recomputed_each_call : gen_task_bounds_fresh = true.
Proof. reflexivity. Qed.

Theorem C14_dimension : forall t, dimension t = list_sum (map (fun nv => size (snd nv)) t).
Proof. exact dimension_is_sum. Qed.
Theorem C14_one_variable_per_coordinate : forall t, valid_task t -> length (flat_vars t) = dimension t.
Proof. exact flat_vars_length. Qed.
Theorem C14_bounds_length : forall t, valid_task t -> length (bounds t) = dimension t.
Proof. exact bounds_length. Qed.
Theorem C14_bounds_own : forall t, Forall (fun nv => is_binary (snd nv) = false) t ->
  bounds t = map svar_bounds (flat_vars t).
Proof. exact bounds_own. Qed.
Theorem C14_binary_bounds : forall k, var_bounds (VBinary k) = repeat (BNum (xint 0) BIN_HI) (Z.to_nat k)
  /\ xltb (xint 1) BIN_HI = true /\ xltb BIN_HI (xint 2) = true.
Proof. exact binary_bounds. Qed.
Theorem C14_bounds_ordered : forall t, valid_task t ->
  Forall (fun nv => match snd nv with
                    | VCont lo hi => non_nan lo /\ non_nan hi
                    | VContMulti los his | VMultiObj los his => Forall non_nan (los ++ his)
                    | VDisc n => 1 <= n | VDiscMulti ns => Forall (fun n => 1 <= n) ns
                    | _ => True end) t ->
  Forall bnd_ordered (bounds t).
Proof. exact bounds_ordered. Qed.
Theorem C14_correct_solution_length : forall t x r, valid_task t -> dimension t <= length x ->
  correct_solution t x = Some r -> length r = dimension t.
Proof. exact correct_solution_length. Qed.
Theorem C14_correct_solution_pointwise : forall t x r i dc dsv, valid_task t -> dimension t <= length x ->
  correct_solution t x = Some r -> i < dimension t ->
  correct1 (nth i (flat_vars t) dsv) (nth i x dc) = Some (nth i r dc).
Proof. exact correct_solution_pointwise. Qed.
Theorem C14_correct_solution_in_space : forall t x, valid_task t -> valid_flat t -> shape_ok_all t x ->
  exists r, correct_solution t x = Some r /\ in_spaceb t r = true.
Proof. exact correct_solution_in_space. Qed.
Theorem C14_transform_slices : forall t x r, transform_from t x = Some r ->
  length r = length t /\
  forall k nv, nth_error t k = Some nv ->
    exists d, nth_error r k = Some (fst nv, d) /\
      decode_var (snd nv) (firstn (size (snd nv)) (skipn (offset t k) x)) = Some d.
Proof. exact transform_from_spec. Qed.
Theorem C14_transform_keys : forall t x r, NoDup (map fst t) -> transform_solution t x = Some r ->
  map fst r = map fst t /\ transform_from t x = Some r.
Proof. exact transform_keys. Qed.

Print Assumptions C14_dimension.
Print Assumptions C14_get_bounds_regenerated.
Print Assumptions C14_transform_solution_regenerated.
Print Assumptions C14_one_variable_per_coordinate.
Print Assumptions C14_bounds_length.
Print Assumptions C14_bounds_own.
Print Assumptions C14_binary_bounds.
Print Assumptions C14_bounds_ordered.
Print Assumptions C14_correct_solution_length.
Print Assumptions C14_correct_solution_pointwise.
Print Assumptions C14_correct_solution_in_space.
Print Assumptions C14_transform_slices.
Print Assumptions C14_transform_keys.
