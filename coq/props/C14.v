(* C14 — A task's search-space description is consistent with its variables.  Property theorems
   only; they are about the hand model TaskModel part of theories/Vars.v, which is tied to
   models.py by the correspondence runs (and, for the per-variable rules, by bridge/VarsBridge.v). *)
From Coq Require Import List ZArith Bool Arith.
From PV Require Import Xnum Select PyLib Argsort Vars Vars_proofs Task_proofs.
From PVGen Require Import GenHyper GenTask GenMultiVar.
From PVBridge Require Import VarsBridge TaskBridge MultiVarBridge.

(* the Task-level loops and comprehensions as REGENERATED from models.py by T-core (the dimension computed by __init__, get_variables, get_bounds with its two
   accumulators, transform_solution with its running counter, slices and dict) ARE the model's functions the theorems below are about - parametric in the per-variable
   methods (size, children, own bounds, decode) *)
Theorem C14_dimension_regenerated : forall t, gen_task_dimension t = dimension t.
Proof. exact dimension_bridge. Qed.
Theorem C14_get_variables_regenerated : forall t, gen_task_get_variables t = flat_vars t.
Proof. exact get_variables_bridge. Qed.
Theorem C14_get_bounds_regenerated : forall t,
  fst (gen_task_get_bounds t) = map lower_of (bounds t) /\ snd (gen_task_get_bounds t) = map upper_of (bounds t).
Proof. exact sides_of_bounds. Qed.
Theorem C14_transform_solution_regenerated : forall t x, gen_task_transform_solution t x = transform_solution t x.
Proof. exact transform_solution_bridge. Qed.
(* ... and those per-variable methods are, class by class, what models.py says (REGENERATED size(), has_children(), get_bounds() of every variable class) *)
Theorem C14_variable_sizes_regenerated :
  (forall lo hi, gen_cont_size = size (VCont lo hi)) /\ (forall los his, gen_cmv_size los = size (VContMulti los his)) /\
  (forall los his, gen_mov_size los = size (VMultiObj los his)) /\ (forall n, gen_disc_size = size (VDisc n)) /\
  (forall C (choices : list (list C)), gen_dmv_size C choices = size (VDiscMulti (map (@length C) choices))) /\
  (forall n, gen_bin_size n = size (VBinary (Z.of_nat n))) /\ (forall n, gen_perm_size = size (VPerm n)).
Proof. exact size_bridge. Qed.
Theorem C14_has_children_regenerated :
  (forall lo hi, gen_cont_has_children = has_children (VCont lo hi)) /\ (forall los his, gen_cmv_has_children = has_children (VContMulti los his)) /\
  (forall los his, gen_mov_has_children = has_children (VMultiObj los his)) /\ (forall n, gen_disc_has_children = has_children (VDisc n)) /\
  (forall ns, gen_dmv_has_children = has_children (VDiscMulti ns)) /\ (forall k, gen_bin_has_children = has_children (VBinary k)) /\
  (forall n, gen_perm_has_children = has_children (VPerm n)).
Proof. exact has_children_bridge. Qed.
Theorem C14_variable_bounds_regenerated :
  (forall los his, length los = length his ->
     let gb := gen_cmv_get_bounds los his in (map BSNum (fst gb), map BSNum (snd gb)) = (lowers (VContMulti los his), uppers (VContMulti los his))) /\
  (forall los his, length los = length his ->
     let gb := gen_mov_get_bounds los his in (map BSNum (fst gb), map BSNum (snd gb)) = (lowers (VMultiObj los his), uppers (VMultiObj los his))) /\
  (forall ns, gen_dmv_get_bounds (children (VDiscMulti ns)) = (lowers (VDiscMulti ns), uppers (VDiscMulti ns))) /\
  (forall n, gen_bin_get_bounds n = (lowers (VBinary (Z.of_nat n)), uppers (VBinary (Z.of_nat n)))).
Proof. exact (conj cmv_get_bounds_bridge (conj mov_get_bounds_bridge (conj dmv_get_bounds_bridge bin_get_bounds_bridge))). Qed.

(* what T-core does not translate of Task (the statements of __init__ around the dimension, empty_solution with its random draws) has exactly the modelled text *)
Theorem C14_task_accessors_regenerated : gen_task_methods_shape = true.
Proof. reflexivity. Qed.

(* the description is recomputed from the variables on every call (REGENERATED shape of Task.get_bounds: fresh arrays on every return path), so it cannot drift from
   them through a caller - or a numeric kernel - editing an earlier answer in place *)
Theorem C14_bounds_recomputed_each_call : gen_task_bounds_fresh = true.
Proof. reflexivity. Qed.

Theorem C14_dimension : forall t, dimension t = list_sum (map (fun nv => size (snd nv)) t).
Proof. exact dimension_is_sum. Qed.
Theorem C14_one_variable_per_coordinate : forall t, valid_task t -> length (flat_vars t) = dimension t.
Proof. exact flat_vars_length. Qed.
Theorem C14_bounds_length : forall t, valid_task t -> length (bounds t) = dimension t.
Proof. exact bounds_length. Qed.
Theorem C14_bounds_own : forall t, Forall (fun nv => is_binary (snd nv) = false) t ->
  bounds t = map svar_bounds (flat_vars t).
Proof. exact bounds_own. Qed.
Theorem C14_binary_bounds : forall k, var_bounds (VBinary k) = repeat (BNum (xint 0) BIN_HI) (Z.to_nat k)
  /\ xltb (xint 1) BIN_HI = true /\ xltb BIN_HI (xint 2) = true.
Proof. exact binary_bounds. Qed.
Theorem C14_bounds_ordered : forall t, valid_task t ->
  Forall (fun nv => match snd nv with
                    | VCont lo hi => non_nan lo /\ non_nan hi
                    | VContMulti los his | VMultiObj los his => Forall non_nan (los ++ his)
                    | VDisc n => 1 <= n | VDiscMulti ns => Forall (fun n => 1 <= n) ns
                    | _ => True end) t ->
  Forall bnd_ordered (bounds t).
Proof. exact bounds_ordered. Qed.
Theorem C14_correct_solution_length : forall t x r, valid_task t -> dimension t <= length x ->
  correct_solution t x = Some r -> length r = dimension t.
Proof. exact correct_solution_length. Qed.
Theorem C14_correct_solution_pointwise : forall t x r i dc dsv, valid_task t -> dimension t <= length x ->
  correct_solution t x = Some r -> i < dimension t ->
  correct1 (nth i (flat_vars t) dsv) (nth i x dc) = Some (nth i r dc).
Proof. exact correct_solution_pointwise. Qed.
Theorem C14_correct_solution_in_space : forall t x, valid_task t -> valid_flat t -> shape_ok_all t x ->
  exists r, correct_solution t x = Some r /\ in_spaceb t r = true.
Proof. exact correct_solution_in_space. Qed.
Theorem C14_transform_slices : forall t x r, transform_from t x = Some r ->
  length r = length t /\
  forall k nv, nth_error t k = Some nv ->
    exists d, nth_error r k = Some (fst nv, d) /\
      decode_var (snd nv) (firstn (size (snd nv)) (skipn (offset t k) x)) = Some d.
Proof. exact transform_from_spec. Qed.
Theorem C14_transform_keys : forall t x r, NoDup (map fst t) -> transform_solution t x = Some r ->
  map fst r = map fst t /\ transform_from t x = Some r.
Proof. exact transform_keys. Qed.

Print Assumptions C14_dimension.
Print Assumptions C14_get_bounds_regenerated.
Print Assumptions C14_transform_solution_regenerated.
Print Assumptions C14_one_variable_per_coordinate.
Print Assumptions C14_bounds_length.
Print Assumptions C14_bounds_own.
Print Assumptions C14_binary_bounds.
Print Assumptions C14_bounds_ordered.
Print Assumptions C14_correct_solution_length.
Print Assumptions C14_correct_solution_pointwise.
Print Assumptions C14_correct_solution_in_space.
Print Assumptions C14_transform_slices.
Print Assumptions C14_transform_keys.
Theorem C14_empty_solution_regenerated : forall rv t, valid_task t ->
  (forall nv, In nv t -> Forall2 (fun sv c => in_domb sv c = true) (children (snd nv)) (rv (snd nv))) ->
  length (gen_task_empty_solution rv t) = dimension t /\ in_spaceb t (gen_task_empty_solution rv t) = true.
Proof. exact empty_solution_in_space. Qed.
(* random solutions, regenerated end to end (Task.empty_solution over the regenerated randomize() of the variable classes; numpy's documented ranges are premises):
   exactly one coordinate per dimension, each a member of its own variable's domain *)
Theorem C14_random_solution_in_space : forall (du : xnum -> xnum -> xnum) (dc : nat -> nat) (dp : nat -> list nat) t,
  (forall lo hi, is_fin lo = true -> is_fin hi = true -> xltb lo hi = true -> is_fin (du lo hi) = true /\ xleb lo (du lo hi) = true /\ xleb (du lo hi) hi = true) ->
  (forall n, 1 <= n -> dc n < n) -> (forall n, is_permb n (dp n) = true) ->
  valid_task t -> valid_flat t ->
  let rv := fun v => gen_cmv_randomize (child_randomize du dc dp) (children v) in
  length (gen_task_empty_solution rv t) = dimension t /\ in_spaceb t (gen_task_empty_solution rv t) = true.
Proof. exact random_solution_in_space. Qed.
Print Assumptions C14_empty_solution_regenerated.
Print Assumptions C14_random_solution_in_space.
Print Assumptions C14_variable_sizes_regenerated.
Print Assumptions C14_has_children_regenerated.
Print Assumptions C14_variable_bounds_regenerated.

(* state shared between objects (regenerated scan of the whole package: memoising decorators, mutable class attributes of non-pydantic classes, module-level
   containers mutated by functions): there is none - tasks and variables do not share tables *)
Theorem C14_no_shared_mutable_state : gen_no_shared_mutable_state = true.
Proof. reflexivity. Qed.
Print Assumptions C14_no_shared_mutable_state.
