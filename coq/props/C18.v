(* C18 — Every optimizer honours the uniform construction / configuration API. *)
From Coq Require Import String List Bool Arith.
From PV Require Import Xnum Select PyLib Skeleton Lifecycle Lifecycle_proofs Loop Loop_proofs.
From PVGen Require Import Algos Expected GenSchema GenStop GenHyper.
From PVBridge Require Import AlgoBridge LifeMain LifeExample LoopBridge C04Main.

(* every exported optimizer: the constructor dereferences nothing of the configuration (it can be built with None) and
   set_config_parameters is exactly `self._config = <Config class>( **parameters)` *)
Theorem C18_ctor_and_set_config : forall sk, In sk all_skeletons -> ~ In (sk_name sk) known_ctor_deref ->
  sk_ctor_deref sk = nil /\ sk_set_config_canonical sk = true.
Proof. exact ctor_member. Qed.
Theorem C18_no_known_exception : known_ctor_deref = nil.
Proof. reflexivity. Qed.

(* without a configuration optimize() raises ValueError before any cycle (regenerated schema) *)
Theorem C18_refuses_without_config :
  forall A cost with_cost F fsub fabs fltb fleb fzero fone avg H before_init init_pop after_init step fuel ar (i : inst A F H),
  i_config _ _ _ i = None ->
  run A cost with_cost F fsub fabs fltb fleb fzero fone avg H before_init init_pop after_init step fuel gen_optimize_schema ar i = ErrValue A F H 0.
Proof.
  intros A cost with_cost F fsub fabs fltb fleb fzero fone avg H before_init init_pop after_init step fuel ar i Hc.
  exact (proj1 (invalid_rejected A cost with_cost F fsub fabs fltb fleb fzero fone avg H before_init init_pop after_init step fuel ar i) Hc).
Qed.

(* a run after set_config_parameters(d) equals a run of an instance constructed with that configuration: both calls receive the
   same inputs (nothing configuration-derived is cached by the constructor), and the result depends on the inputs only *)
Theorem C18_set_config_run_equiv : forall value f_seed f_init f_step f_result sk n, In sk all_skeletons ->
  ~ In (sk_name sk) known_stale -> ~ In (sk_name sk) known_entropy ->
  forall s_constructed s_set : store loc value, s_constructed LIn = s_set LIn ->
  run_call value f_seed f_init f_step f_result sk n s_constructed LResult = run_call value f_seed f_init f_step f_result sk n s_set LResult.
Proof. exact result_depends_on_inputs_only. Qed.

Print Assumptions C18_ctor_and_set_config.
Print Assumptions C18_refuses_without_config.
Print Assumptions C18_set_config_run_equiv.

(* state shared between objects (regenerated scan of the whole package: memoising decorators, mutable class attributes of non-pydantic classes, module-level
   containers mutated by functions): there is none - a reconfigured instance finds nothing memoised from its earlier configuration *)
Theorem C18_no_shared_mutable_state : gen_no_shared_mutable_state = true.
Proof. reflexivity. Qed.
Print Assumptions C18_no_shared_mutable_state.

(* non-vacuity and non-triviality: for a skeleton of the REGENERATED all_skeletons (in no known-exception list), two stores that agree on the inputs but differ in the
   instance state, in numpy's stream and in the other entropy give the same result under an oracle that adds up everything it reads, a store that differs on the INPUT
   gives another result (the model does not simply ignore its stores), and the caller's objects are what they were *)
Theorem C18_hypotheses_satisfiable :
  exists sk, In sk all_skeletons /\ ~ In (sk_name sk) known_stale /\ ~ In (sk_name sk) known_entropy /\ ~ In (sk_name sk) known_config_writes /\
    lf_s1 LIn = lf_s2 LIn /\ lf_s1 LState <> lf_s2 LState /\ lf_s1 LG <> lf_s2 LG /\ lf_s1 LE <> lf_s2 LE /\
    lf_run sk lf_s1 = lf_run sk lf_s2 /\ lf_run sk lf_s3 <> lf_run sk lf_s2 /\
    run_call nat lf_sum lf_sum lf_sum lf_sum sk 2 lf_s1 LIn = lf_s1 LIn.
Proof. exact life_hypotheses_satisfiable. Qed.
Print Assumptions C18_hypotheses_satisfiable.
