(* C01 — Every reported solution lies inside the declared search space (partial: H_raw monitored). *)
From Coq Require Import String List ZArith Bool.
From PV Require Import Xnum Select PyLib Argsort Vars Vars_proofs Task_proofs Init Init_proofs Skeleton Skeleton_proofs.
From PVGen Require Import GenInit Algos Expected GenHyper GenTask.
From PVBridge Require Import InitBridge AlgoBridge ProvMain ProvExample TaskBridge.

(* correct_solution corrects against `get_variables()`: the REGENERATED comprehension over the task's CURRENT variables is the model's flat_vars (no cache) *)
Theorem C01_get_variables_regenerated : forall t, gen_task_get_variables t = flat_vars t.
Proof. exact get_variables_bridge. Qed.

(* the regenerated _init_agent (through initial_solution, _fcn, solve, correct_solution) is the model's *)
Theorem C01_init_agent_regenerated : forall W dot FT fitness_of obj t d w raw draw,
  gen_init_agent W dot FT fitness_of obj t d w raw draw = option_map fst (init_agent W dot FT fitness_of obj t d w raw draw).
Proof. exact init_agent_bridge. Qed.

(* for every exported optimizer except the named known findings, every objective, weight vector, valid task,
   direction and every sequence of agent constructions / copies the numeric kernel may perform (raw candidates of the
   right length without NaN): every agent object ever built - hence every agent of every recorded generation and
   best_solution - has its position in the search space *)
Theorem C01_every_position_in_space :
  forall W dot, (forall l w, dot (map xneg l) w = xneg (dot l w)) ->
  forall FT fitness_of obj t d w, valid_task t -> valid_flat t ->
  forall sk ops, In sk all_skeletons -> ~ In (sk_name sk) known_prov -> run_ok FT t sk ops ->
  Forall (fun a => in_spaceb t (a_pos a) = true) (heap FT (exec_ops W dot FT fitness_of obj t d w ops)).
Proof. intros. eapply every_agent_well_formed; eauto. Qed.

(* the conformance predicate is the condition under which the machine has the property: a raw site allows a violation *)
Theorem C01_raw_site_allows_violation : forall W dot FT fitness_of obj t d w sk a,
  sk_raw_sites sk <> 0 -> ~ wf_agent W dot FT fitness_of obj t d w a ->
  exists ops, Forall (fun o => licensed FT sk o = true) ops /\ Forall (raw_ok FT t) ops /\
              ~ Forall (wf_agent W dot FT fitness_of obj t d w) (heap FT (exec_ops W dot FT fitness_of obj t d w ops)).
Proof. exact raw_site_allows_violation. Qed.

Print Assumptions C01_init_agent_regenerated.
Print Assumptions C01_every_position_in_space.
Print Assumptions C01_raw_site_allows_violation.

(* non-vacuity: a concrete weight carrier, objective, mixed task (continuous + discrete), maximisation, a conforming REGENERATED skeleton that is not a known finding and
   an operation sequence (a drawn initial solution outside the bounds, a raw candidate with +inf, a copy) meet EVERY hypothesis of the main theorem; three agents are built *)
Theorem C01_hypotheses_satisfiable :
  (forall l w, ex_dot (map xneg l) w = xneg (ex_dot l w)) /\ valid_task ex_task /\ valid_flat ex_task /\
  exists sk, In sk all_skeletons /\ ~ In (sk_name sk) known_prov /\ run_ok unit ex_task sk ex_ops /\
             length (heap unit (exec_ops unit ex_dot unit ex_fit ex_obj ex_task MAX None ex_ops)) = 3.
Proof. exact prov_hypotheses_satisfiable. Qed.
Print Assumptions C01_hypotheses_satisfiable.
