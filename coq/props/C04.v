(* C04 — optimize() terminates exactly when the first configured stop criterion holds.
   Property theorems only; about the schema and the stop rule REGENERATED from abstract.py. *)
From Coq Require Import List ZArith Bool Arith.
From PV Require Import Xnum Select PyLib Select_proofs Loop Loop_proofs.
From PVGen Require Import GenStop GenSchema GenHyper.
From PVBridge Require Import LoopBridge C04Main C04Example.

(* the regenerated statement schema of optimize() is the one the model interprets *)
Theorem C04_schema : gen_optimize_schema = optimize_schema.
Proof. exact schema_bridge. Qed.

(* the regenerated __error_check__ / __should_stop__ compute the model's stop flag, rate and histories *)
Theorem C04_error_check : forall F fsub fabs fltb fleb fzero fone c cycle errors diffs avg_fit,
  gen_error_check F fsub fabs fltb fleb fzero fone c cycle errors diffs avg_fit =
  let '(cur, stop, e', d') := error_check F fsub fabs fltb fleb fzero fone c cycle errors diffs avg_fit in
  (cur, avg_fit, stop, e', d').
Proof. exact error_check_bridge. Qed.

(* for every optimizer (hidden state H, hooks, step), every instance history i, every configuration c with
   max_cycles >= 1, every float carrier and every rate history: the run stops at the FIRST cycle K at which
   the declarative criterion [crit] holds, K <= max_cycles, and the result has K+1 generations and K rates,
   rate k = |1 - mean fitness of generation k| *)
Theorem C04_stop_rule :
  forall A cost with_cost F fsub fabs fltb fleb fzero fone avg H before_init init_pop after_init step
         ar (i : inst A F H) c h0 p0 pinit,
  i_config _ _ _ i = Some c -> valid_args ar -> 1 <= max_cycles c ->
  entry_state A F H before_init init_pop after_init i = (h0, p0, pinit) ->
  populated A F fsub fabs fltb fleb fzero fone avg H step c h0 p0 pinit ->
  exists K r i',
    run A cost with_cost F fsub fabs fltb fleb fzero fone avg H before_init init_pop after_init step
        (max_cycles c) gen_optimize_schema ar i = Done A F H r i' K /\
    1 <= K <= max_cycles c /\
    crit F fsub fabs fltb fleb fzero (rate A F fsub fabs fone avg H step h0 p0) c K = true /\
    (forall j, 1 <= j < K -> crit F fsub fabs fltb fleb fzero (rate A F fsub fabs fone avg H step h0 p0) c j = false) /\
    length (r_evolution _ _ r) = K + 1 /\ length (r_rates _ _ r) = K /\
    (forall k, 1 <= k <= K -> nth (k - 1) (r_rates _ _ r) fzero = fabs (fsub fone (avg (pop_at A H step h0 p0 k)))) /\
    (forall k, 1 <= k <= K -> nth k (r_evolution _ _ r) nil = map (report A cost with_cost (a_dir ar)) (pop_at A H step h0 p0 k)) /\
    nth 0 (r_evolution _ _ r) nil = map (report A cost with_cost (a_dir ar)) pinit.
Proof. exact stop_rule. Qed.

(* the stop options reach the rule exactly as configured: EarlyStopping / BaseOptimizationConfig consist of exactly the documented fields and the patience validator
   (regenerated class text) - no validator rewrites a value, e.g. a "default filling" `or` that would turn min_delta = 0.0 into 1e-4 *)
Theorem C04_configuration_as_given : gen_stop_config_shape = true.
Proof. reflexivity. Qed.

(* the mean fitness of a generation is computed by the REGENERATED helpers.average_fitness: numpy's average (the oracle `mean`)
   of exactly the agents' fitness values - so the rates of the theorem above, instantiated with it, are
   |1 - mean (fitness of every agent of generation k)| (no agent is skipped, NaN fitness included) *)
Theorem C04_average_fitness : forall F A (fit : A -> F) (mean : list F -> F) pop,
  gen_average_fitness F A fit mean pop = mean (map fit pop).
Proof. reflexivity. Qed.
Theorem C04_rates_are_mean_fitness :
  forall A cost with_cost F fsub fabs fltb fleb fzero fone (fit : A -> F) (mean : list F -> F) H before_init init_pop after_init step
         ar (i : inst A F H) c h0 p0 pinit,
  let avg := gen_average_fitness F A fit mean in
  i_config _ _ _ i = Some c -> valid_args ar -> 1 <= max_cycles c ->
  entry_state A F H before_init init_pop after_init i = (h0, p0, pinit) ->
  populated A F fsub fabs fltb fleb fzero fone avg H step c h0 p0 pinit ->
  exists K r i',
    run A cost with_cost F fsub fabs fltb fleb fzero fone avg H before_init init_pop after_init step
        (max_cycles c) gen_optimize_schema ar i = Done A F H r i' K /\
    length (r_rates _ _ r) = K /\
    (forall k, 1 <= k <= K -> nth (k - 1) (r_rates _ _ r) fzero = fabs (fsub fone (mean (map fit (pop_at A H step h0 p0 k))))).
Proof.
  intros A cost with_cost F fsub fabs fltb fleb fzero fone fit mean H before_init init_pop after_init step ar i c h0 p0 pinit avg Hc Ha Hm He Hp.
  destruct (stop_rule A cost with_cost F fsub fabs fltb fleb fzero fone avg H before_init init_pop after_init step ar i c h0 p0 pinit Hc Ha Hm He Hp)
    as (K & r & i' & Hr & _ & _ & _ & _ & Hrl & Hrates & _).
  exists K, r, i'. repeat split; auto.
Qed.

Print Assumptions C04_schema.
Print Assumptions C04_rates_are_mean_fitness.
Print Assumptions C04_error_check.
Print Assumptions C04_stop_rule.

(* state shared between objects (regenerated scan of the whole package: memoising decorators, mutable class attributes of non-pydantic classes, module-level
   containers mutated by functions): there is none - the rate history and the stop state belong to ONE run of ONE instance *)
Theorem C04_no_shared_mutable_state : gen_no_shared_mutable_state = true.
Proof. reflexivity. Qed.
Print Assumptions C04_no_shared_mutable_state.

(* non-vacuity: a concrete optimizer / instance / configuration / call (a maximisation with ties whose population order changes every cycle) meets EVERY
   hypothesis of C04_stop_rule, and the run of the regenerated schema on it evaluates to the outcome the theorem describes *)
Theorem C04_hypotheses_satisfiable :
  i_config _ _ _ ex_inst = Some ex_cfg /\ valid_args ex_args /\ 1 <= max_cycles ex_cfg /\
  entry_state exA Z unit ex_before ex_init ex_after ex_inst = (tt, ex_p0, ex_p0) /\
  populated exA Z Z.sub Z.abs Z.ltb Z.leb 0%Z 1%Z ex_avg unit ex_step ex_cfg tt ex_p0 ex_p0 /\
  (forall k, costs_ok exA ex_cost (pop_at exA unit ex_step tt ex_p0 k)).
Proof. exact hypotheses_satisfiable. Qed.
Theorem C04_example_run_evaluates :
  match ex_run with
  | Done _ _ _ r _ K => K = 3 /\ r_best _ _ r = Some (XFin (-1)) /\ length (r_evolution _ _ r) = 4 /\
                        last (r_evolution _ _ r) nil = (XFin (-2) :: XFin (-1) :: XFin (-1) :: XFin (-3) :: nil)
  | _ => False
  end.
Proof. exact run_evaluates. Qed.
Print Assumptions C04_hypotheses_satisfiable.
Print Assumptions C04_example_run_evaluates.
