(* C10 — The population size is conserved across generations. *)
From Coq Require Import String List ZArith Bool Arith Permutation.
From PV Require Import Xnum Select PyLib Select_proofs Loop Loop_proofs Skeleton Skeleton_proofs SizeModels.
From PVGen Require Import Algos Expected GenSelect GenHyper.
From PVBridge Require Import AlgoBridge SelectBridge C16Main ElitMain ElitExample SizeBridge.

Theorem C10_pinned_set : forall n, In n pinned_size_regular ->
  exists sk, In sk all_skeletons /\ sk_name sk = n /\ size_regular sk = true.
Proof. exact pinned_regular_are_regular. Qed.

(* the regenerated _init_population yields exactly population_size agents, one per evaluation, in every mode *)
Theorem C10_initial_size : forall A pool_perm init_draw pop P m, (forall l : list A, Permutation l (pool_perm l)) ->
  length (gen_init_population A pool_perm init_draw pop P m) = P /\
  Permutation (gen_init_population A pool_perm init_draw pop P m) (map init_draw (seq 0 P)).
Proof. exact init_population_size. Qed.

(* every population write with a known size effect preserves a population of exactly P agents ... *)
Theorem C10_write_preserves : forall A cost copy P, 1 <= P -> forall wr pop pop',
  size_known wr = true -> length pop = P -> pw_step A cost copy P wr pop pop' -> length pop' = P.
Proof. exact size_known_preserves. Qed.

(* ... hence every generation of a size-regular optimizer has exactly P agents, for any number of cycles *)
Theorem C10_regular_size : forall A cost copy P, 1 <= P ->
  forall H (step : H -> nat -> list A -> H * list A) sk h0 p0,
  forallb size_known (sk_step sk) = true -> step_conforms A cost copy P H step sk ->
  length p0 = P -> forall k, length (pop_at A H step h0 p0 k) = P.
Proof. intros. eapply regular_size; eauto. Qed.

(* the 12 optimizers whose population writes are irregular: hand size models (SizeModels.v; executable, compared with the recorded generation sizes of real runs
   and pinned by source fingerprint).  Under the decidable side condition of its model - implied by the configuration validators, or the documented-size
   condition (number of groups divides the population, even population for the genetic algorithm) - every generation has exactly P agents *)
Theorem C10_irregular_models : forall P m, side_ok P m = true -> forall k, iterate (step_of P P m) k P = P.
Proof. exact model_conserves. Qed.
(* the grouping helper the group-based models are built on is REGENERATED from abstract.py (for loop over range, slices, append, residual rule): its groups have
   exactly the sizes `groups_sizes` of SizeModels.v, for every population, group count, group size and residual flag *)
Theorem C10_grouping_regenerated : forall A copy (pop : list A) P n_groups n_agents wr,
  map (@length A) (gen_generate_group_population A copy pop P n_groups n_agents wr) = groups_sizes (length pop) P n_groups n_agents wr.
Proof. exact group_sizes_bridge. Qed.
Theorem C10_grouping_total : forall A copy (pop : list A) P n_groups n_agents wr,
  length (concat (gen_generate_group_population A copy pop P n_groups n_agents wr)) = groups_total (length pop) P n_groups n_agents wr.
Proof. exact group_total_bridge. Qed.

(* and outside the side condition the loss is exactly the residual: e.g. clustered optimizers keep P - P mod m agents *)
Theorem C10_clustered_residual : forall P m n, m <> 0 -> clustered P m P n = P - P mod m.
Proof. exact clustered_loses_residual. Qed.

Print Assumptions C10_pinned_set.
Print Assumptions C10_irregular_models.
Print Assumptions C10_grouping_regenerated.
Print Assumptions C10_initial_size.
Print Assumptions C10_write_preserves.
Print Assumptions C10_regular_size.

(* state shared between objects (regenerated scan of the whole package: memoising decorators, mutable class attributes of non-pydantic classes, module-level
   containers mutated by functions): there is none - no population layout is cached across instances *)
Theorem C10_no_shared_mutable_state : gen_no_shared_mutable_state = true.
Proof. reflexivity. Qed.
Print Assumptions C10_no_shared_mutable_state.

(* non-vacuity: an agent type without NaN costs, a step that improves every slot, P = 3 and a skeleton picked from the REGENERATED all_skeletons (elitist, every write
   size-known, a `WMap true` write in its step) meet EVERY hypothesis of the trajectory theorems; the trajectory from [5; 2; 2] is what the step computes *)
Theorem C10_hypotheses_satisfiable :
  (forall a, el_cost (el_copy a) = el_cost a) /\ (forall l : list elA, costs_ok elA el_cost l) /\ 1 <= 3 /\
  exists sk, In sk all_skeletons /\ elitist sk = true /\ forallb size_known (sk_step sk) = true /\
             step_conforms elA el_cost el_copy 3 unit el_step sk /\
             pop_at elA unit el_step tt (5 :: 2 :: 2 :: nil)%Z 2 = (3 :: 0 :: 0 :: nil)%Z.
Proof. exact elit_hypotheses_satisfiable. Qed.
Print Assumptions C10_hypotheses_satisfiable.
