(* C19 — HyperTuner evaluates the whole grid and selects the best parameters. *)
From Coq Require Import List ZArith Bool Arith.
From PV Require Import Xnum Select Grid Rank.
From PV Require Import Skeleton.
From PVGen Require Import GenHyper Algos Expected.
From PVBridge Require Import AlgoBridge LifeMain.

(* ParameterGrid: len, iteration and indexing agree, for every grid (any number of sub-grids, keys and values) *)
Theorem C19_len_iter : forall A (g : list (list (list A))), length (iter A g) = len A g.
Proof. exact len_iter. Qed.
Theorem C19_getitem_iter : forall A (d : A) g, Forall (nonempty A) g -> forall ind, ind < len A g ->
  getitem A d g ind = Some (nth ind (iter A g) nil).
Proof. exact getitem_iter. Qed.
Theorem C19_getitem_out_of_range : forall A (d : A) g ind, len A g <= ind -> getitem A d g ind = None.
Proof. exact getitem_out_of_range. Qed.
(* the grid is the union of the Cartesian products of its sub-grids *)
Theorem C19_iter_is_union_of_products : forall A (g : list (list (list A))) p,
  In p (iter A g) <-> exists sg, In sg g /\ Forall2 (fun x v => In x v) p sg.
Proof.
  intros A g p. unfold iter. rewrite in_flat_map. split; intros (sg & Hsg & H); exists sg; split; auto; apply prod_spec; auto.
Qed.

(* execute(): every grid point is evaluated once per trial with that point's parameters in force *)
Theorem C19_plan_complete : forall P (points : list P) n p t, In (p, t) (plan points n) <-> In p points /\ t < n.
Proof. exact @plan_complete. Qed.
Theorem C19_plan_length : forall P (points : list P) n, length (plan points n) = length points * n.
Proof. exact @plan_length. Qed.

(* "with exactly that point's parameters": for EVERY exported optimizer set_config_parameters(p) is `self._config = Config( **p)` - a replacement, never a
   merge with what an earlier grid point left (regenerated fact, all 84 skeletons) *)
Theorem C19_set_config_replaces : forall sk, In sk all_skeletons -> ~ In (sk_name sk) known_ctor_deref -> sk_set_config_canonical sk = true.
Proof. intros sk Hin Hk. exact (proj2 (ctor_member sk Hin Hk)). Qed.

(* the statements of execute() / resolve() that the model of the selection describes still have exactly that shape *)
Theorem C19_selection_regenerated : gen_hypertuner_selection_shape = true /\ gen_hypertuner_resolve_shape = true.
Proof. split; reflexivity. Qed.

(* for every score table (ties, equal means with different spreads, NaN spreads when n_trials = 1), both directions:
   the selected row's mean is optimal - no grid point has a strictly better mean *)
Theorem C19_selected_is_optimal : forall d rows i, Forall (fun r => non_nan (fst r)) rows -> select d rows = Some i ->
  exists r, nth_error rows i = Some r /\ forall o, In o rows -> before_d d (fst o) (fst r) = false.
Proof. exact selected_is_optimal. Qed.

Print Assumptions C19_len_iter.
Print Assumptions C19_getitem_iter.
Print Assumptions C19_getitem_out_of_range.
Print Assumptions C19_iter_is_union_of_products.
Print Assumptions C19_plan_complete.
Print Assumptions C19_set_config_replaces.
Print Assumptions C19_selection_regenerated.
Print Assumptions C19_selected_is_optimal.

(* state shared between objects (regenerated scan of the whole package: memoising decorators, mutable class attributes of non-pydantic classes, module-level
   containers mutated by functions): there is none - a grid is its own object: no layout shared between grids, no score table shared between tuners *)
Theorem C19_no_shared_mutable_state : gen_no_shared_mutable_state = true.
Proof. reflexivity. Qed.
Print Assumptions C19_no_shared_mutable_state.
