(* C09 — optimize() does not modify the caller's configuration or task. *)
From Coq Require Import String List Bool Arith.
From PV Require Import Skeleton Lifecycle Lifecycle_proofs.
From PVGen Require Import Algos Expected GenHyper.
From PVBridge Require Import AlgoBridge LifeMain LifeExample.

(* every exported optimizer: no store, augmented assignment or mutating call reaches self._config.* / self._task.*, so the
   caller's objects are what they were after any number of cycles - and after any prefix of the call (a raise leaves them too) *)
Theorem C09_caller_objects_untouched : forall value f_seed f_init f_step f_result sk n, In sk all_skeletons ->
  ~ In (sk_name sk) known_config_writes ->
  forall s : store loc value, run_call value f_seed f_init f_step f_result sk n s LIn = s LIn.
Proof. exact caller_objects_untouched. Qed.
Theorem C09_no_known_exception : known_config_writes = nil.
Proof. reflexivity. Qed.

(* what an optimizer obtains from the task to work on - the bounds - is a fresh pair of arrays on every call of the REGENERATED Task.get_bounds (each return builds
   np.array(<list built in this call>)): editing them in place, as some numeric kernels do, cannot reach the caller's task.  (T-algo treats get_bounds() results as fresh.) *)
Theorem C09_bounds_are_fresh_copies : gen_task_bounds_fresh = true.
Proof. reflexivity. Qed.

Print Assumptions C09_caller_objects_untouched.
Print Assumptions C09_bounds_are_fresh_copies.

(* no function of helpers.py edits an argument in place - directly, through a local alias, through np.asarray / reshape / ravel (which may return the SAME array)
   or through another helper (regenerated scan with transitive parameter-mutation summaries): a user's objective that hands task data to a library helper (the README's `distance(city_positions[a], city_positions[b])`) gets it back unchanged *)
Theorem C09_helpers_do_not_mutate_arguments : gen_helpers_do_not_mutate_arguments = true.
Proof. reflexivity. Qed.
Print Assumptions C09_helpers_do_not_mutate_arguments.

(* non-vacuity and non-triviality: for a skeleton of the REGENERATED all_skeletons (in no known-exception list), two stores that agree on the inputs but differ in the
   instance state, in numpy's stream and in the other entropy give the same result under an oracle that adds up everything it reads, a store that differs on the INPUT
   gives another result (the model does not simply ignore its stores), and the caller's objects are what they were *)
Theorem C09_hypotheses_satisfiable :
  exists sk, In sk all_skeletons /\ ~ In (sk_name sk) known_stale /\ ~ In (sk_name sk) known_entropy /\ ~ In (sk_name sk) known_config_writes /\
    lf_s1 LIn = lf_s2 LIn /\ lf_s1 LState <> lf_s2 LState /\ lf_s1 LG <> lf_s2 LG /\ lf_s1 LE <> lf_s2 LE /\
    lf_run sk lf_s1 = lf_run sk lf_s2 /\ lf_run sk lf_s3 <> lf_run sk lf_s2 /\
    run_call nat lf_sum lf_sum lf_sum lf_sum sk 2 lf_s1 LIn = lf_s1 LIn.
Proof. exact life_hypotheses_satisfiable. Qed.
Print Assumptions C09_hypotheses_satisfiable.
