(* C07 — A seeded run is reproducible. *)
From Coq Require Import String List Bool Arith.
From PV Require Import Skeleton Lifecycle Lifecycle_proofs Loop.
From PV Require Import Xnum Vars Labels.
From Coq Require Import Permutation.
From PVGen Require Import Algos Expected GenSchema GenSeed GenHyper GenMultiVar GenLabels.
From PVBridge Require Import AlgoBridge LifeMain LifeExample LoopBridge.

(* optimize() seeds numpy's stream from the task before anything draws (regenerated schema), and Task.seed is an integer field *)
Theorem C07_seeded_first : gen_optimize_schema = optimize_schema /\ gen_task_seed_is_int = true.
Proof. split; [exact schema_bridge|reflexivity]. Qed.

(* every exported optimizer: the result of a serial call is a function of (task incl. seed, configuration, arguments) only -
   not of what numpy's stream was left at by earlier draws, not of any other source of entropy, for every numeric kernel *)
Theorem C07_reproducible : forall value f_seed f_init f_step f_result sk n, In sk all_skeletons ->
  ~ In (sk_name sk) known_stale -> ~ In (sk_name sk) known_entropy ->
  forall s1 s2 : store loc value, s1 LIn = s2 LIn ->
  run_call value f_seed f_init f_step f_result sk n s1 LResult = run_call value f_seed f_init f_step f_result sk n s2 LResult.
Proof. exact result_depends_on_inputs_only. Qed.
Theorem C07_no_known_exception : known_entropy = nil.
Proof. reflexivity. Qed.

(* "in the same or in different processes": nowhere in the package is the iteration order of a set observed without sorted() (sets of integers cut from a range
   excepted) - that order depends on the interpreter's per-process string-hash seed, an entropy source outside the task's seed (regenerated scan of all modules) *)
Theorem C07_no_hash_ordered_iteration : gen_no_hash_ordered_iteration = true.
Proof. reflexivity. Qed.

(* sampling a variable is a function of its declared fields and of numpy's (seeded) draws alone: the REGENERATED randomize() of every variable class reads no other
   state and writes none (a sampler that kept state on the variable - an index list shuffled in place, a cache - does not translate), so a task object that was
   sampled from before is as good as a freshly built equal one *)
Theorem C07_sampling_reads_fields_and_stream_only : forall (du : xnum -> xnum -> xnum) (dc : nat -> nat) (dp : nat -> list nat) (r : svar -> coord),
  (forall lo hi, gen_cont_randomize du lo hi = du lo hi) /\
  (forall C (choices : list C), gen_disc_randomize C dc choices = dc (length choices)) /\
  (forall L (items : list L), gen_perm_randomize L dp items = dp (length items)) /\
  (forall ch, gen_cmv_randomize r ch = map r ch /\ gen_mov_randomize r ch = map r ch /\ gen_dmv_randomize r ch = map r ch /\ gen_bin_randomize r ch = map r ch).
Proof. intros. repeat split. Qed.

(* the one set whose members ARE put in an order - LabelEncoder.fit: sorted(set(y), key=...) - : whatever order the set hands its members out in (it depends on
   the per-process hash seed for strings), the REGENERATED fit yields the same label list, the sort key being a total order on the distinct labels *)
Theorem C07_label_order_independent : forall L (eqb leb : L -> L -> bool),
  (forall a b, leb a b = true \/ leb b a = true) -> (forall a b c, leb a b = true -> leb b c = true -> leb a c = true) ->
  (forall a b, leb a b = true -> leb b a = true -> a = b) ->
  (forall y, gen_le_fit_labels L eqb leb y = isort L leb (dedup L eqb y)) /\
  (forall s s', Permutation s s' -> isort L leb s = isort L leb s').
Proof. intros L eqb leb T Tr An. split; [reflexivity|]. exact (fit_labels_order_independent L leb T Tr An). Qed.

(* an unseeded entropy read would let two equal-seed runs differ (why the fact is needed) *)
Theorem C07_entropy_allows_difference : forall value (v1 v2 : value), v1 <> v2 ->
  exists (o : op loc value) (s1 s2 : store loc value), s1 LIn = s2 LIn /\ s1 LG = s2 LG /\ s1 LState = s2 LState /\
    In LE (reads o) /\ exec_op loc loc_eqb value o s1 LResult <> exec_op loc loc_eqb value o s2 LResult.
Proof. exact entropy_allows_difference. Qed.

Print Assumptions C07_seeded_first.
Print Assumptions C07_sampling_reads_fields_and_stream_only.
Print Assumptions C07_no_hash_ordered_iteration.
Print Assumptions C07_label_order_independent.
Print Assumptions C07_reproducible.
Print Assumptions C07_entropy_allows_difference.

(* state shared between objects (regenerated scan of the whole package: memoising decorators, mutable class attributes of non-pydantic classes, module-level
   containers mutated by functions): there is none - the k-th run in an interpreter is the first run: nothing memoised on a function object or kept on a class / module survives a call *)
Theorem C07_no_shared_mutable_state : gen_no_shared_mutable_state = true.
Proof. reflexivity. Qed.
Print Assumptions C07_no_shared_mutable_state.

(* non-vacuity and non-triviality: for a skeleton of the REGENERATED all_skeletons (in no known-exception list), two stores that agree on the inputs but differ in the
   instance state, in numpy's stream and in the other entropy give the same result under an oracle that adds up everything it reads, a store that differs on the INPUT
   gives another result (the model does not simply ignore its stores), and the caller's objects are what they were *)
Theorem C07_hypotheses_satisfiable :
  exists sk, In sk all_skeletons /\ ~ In (sk_name sk) known_stale /\ ~ In (sk_name sk) known_entropy /\ ~ In (sk_name sk) known_config_writes /\
    lf_s1 LIn = lf_s2 LIn /\ lf_s1 LState <> lf_s2 LState /\ lf_s1 LG <> lf_s2 LG /\ lf_s1 LE <> lf_s2 LE /\
    lf_run sk lf_s1 = lf_run sk lf_s2 /\ lf_run sk lf_s3 <> lf_run sk lf_s2 /\
    run_call nat lf_sum lf_sum lf_sum lf_sum sk 2 lf_s1 LIn = lf_s1 LIn.
Proof. exact life_hypotheses_satisfiable. Qed.
Print Assumptions C07_hypotheses_satisfiable.
