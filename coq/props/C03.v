(* C03 — best_solution is the optimum of the final generation in the task's direction. *)
From Coq Require Import List ZArith Bool Arith.
From PV Require Import Xnum Select PyLib Select_proofs Loop Loop_proofs.
From PVGen Require Import GenStop GenSchema.
From PVBridge Require Import LoopBridge C04Main C04Example.

Theorem C03_schema : gen_optimize_schema = optimize_schema.
Proof. exact schema_bridge. Qed.

(* Population / OptimizationResult restore the sign of the cost exactly as the model's [report] *)
Theorem C03_sign_restored : forall A cost with_cost a d,
  gen_population_refine A cost with_cost a d = report A cost with_cost d a /\
  gen_result_refine A cost with_cost a d = report A cost with_cost d a.
Proof. intros; split; [apply population_refine_bridge|apply result_refine_bridge]. Qed.

(* for every optimizer, history, configuration, direction and final population (any order, ties, any size >= 1,
   NaN-free costs): best_solution is (the sign-restored copy of) a member of the last recorded generation and no
   member of that generation is strictly better in the task's direction *)
Theorem C03_best_is_optimum :
  forall A cost with_cost, (forall a x, cost (with_cost a x) = x) ->
  forall F fsub fabs fltb fleb fzero fone avg H before_init init_pop after_init step
         ar (i : inst A F H) c h0 p0 pinit,
  i_config _ _ _ i = Some c -> valid_args ar -> 1 <= max_cycles c ->
  entry_state A F H before_init init_pop after_init i = (h0, p0, pinit) ->
  populated A F fsub fabs fltb fleb fzero fone avg H step c h0 p0 pinit ->
  (forall k, costs_ok A cost (pop_at A H step h0 p0 k)) ->
  exists K r i' b,
    run A cost with_cost F fsub fabs fltb fleb fzero fone avg H before_init init_pop after_init step
        (max_cycles c) gen_optimize_schema ar i = Done A F H r i' K /\
    r_best _ _ r = Some (report A cost with_cost (a_dir ar) b) /\
    In (report A cost with_cost (a_dir ar) b) (last (r_evolution _ _ r) nil) /\
    forall o, In o (last (r_evolution _ _ r) nil) -> better cost (a_dir ar) o (report A cost with_cost (a_dir ar) b) = false.
Proof. exact best_is_optimum. Qed.

Print Assumptions C03_schema.
Print Assumptions C03_sign_restored.
Print Assumptions C03_best_is_optimum.

(* non-vacuity: a concrete optimizer / instance / configuration / call (a maximisation with ties whose population order changes every cycle) meets EVERY
   hypothesis of C03_best_is_optimum, and the run of the regenerated schema on it evaluates to the outcome the theorem describes *)
Theorem C03_hypotheses_satisfiable :
  i_config _ _ _ ex_inst = Some ex_cfg /\ valid_args ex_args /\ 1 <= max_cycles ex_cfg /\
  entry_state exA Z unit ex_before ex_init ex_after ex_inst = (tt, ex_p0, ex_p0) /\
  populated exA Z Z.sub Z.abs Z.ltb Z.leb 0%Z 1%Z ex_avg unit ex_step ex_cfg tt ex_p0 ex_p0 /\
  (forall k, costs_ok exA ex_cost (pop_at exA unit ex_step tt ex_p0 k)).
Proof. exact hypotheses_satisfiable. Qed.
Theorem C03_example_run_evaluates :
  match ex_run with
  | Done _ _ _ r _ K => K = 3 /\ r_best _ _ r = Some (XFin (-1)) /\ length (r_evolution _ _ r) = 4 /\
                        last (r_evolution _ _ r) nil = (XFin (-2) :: XFin (-1) :: XFin (-1) :: XFin (-3) :: nil)
  | _ => False
  end.
Proof. exact run_evaluates. Qed.
Print Assumptions C03_hypotheses_satisfiable.
Print Assumptions C03_example_run_evaluates.
