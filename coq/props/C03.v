(* C03 — best_solution is the optimum of the final generation in the task's direction. *)
From Coq Require Import List ZArith Bool Arith.
From PV Require Import Xnum Select PyLib Select_proofs Loop Loop_proofs.
From PVGen Require Import GenStop GenSchema.
From PVBridge Require Import LoopBridge C04Main.

Theorem C03_schema : gen_optimize_schema = optimize_schema.
Proof. exact schema_bridge. Qed.

(* Population / OptimizationResult restore the sign of the cost exactly as the model's [report] *)
Theorem C03_sign_restored : forall A cost with_cost a d,
  gen_population_refine A cost with_cost a d = report A cost with_cost d a /\
  gen_result_refine A cost with_cost a d = report A cost with_cost d a.
Proof. intros; split; [apply population_refine_bridge|apply result_refine_bridge]. Qed.

(* for every optimizer, history, configuration, direction and final population (any order, ties, any size >= 1,
   NaN-free costs): best_solution is (the sign-restored copy of) a member of the last recorded generation and no
   member of that generation is strictly better in the task's direction *)
Theorem C03_best_is_optimum :
  forall A cost with_cost, (forall a x, cost (with_cost a x) = x) ->
  forall F fsub fabs fltb fleb fzero fone avg H before_init init_pop after_init step
         ar (i : inst A F H) c h0 p0 pinit,
  i_config _ _ _ i = Some c -> valid_args ar -> 1 <= max_cycles c ->
  entry_state A F H before_init init_pop after_init i = (h0, p0, pinit) ->
  populated A F fsub fabs fltb fleb fzero fone avg H step c h0 p0 pinit ->
  (forall k, costs_ok A cost (pop_at A H step h0 p0 k)) ->
  exists K r i' b,
    run A cost with_cost F fsub fabs fltb fleb fzero fone avg H before_init init_pop after_init step
        (max_cycles c) gen_optimize_schema ar i = Done A F H r i' K /\
    r_best _ _ r = Some (report A cost with_cost (a_dir ar) b) /\
    In (report A cost with_cost (a_dir ar) b) (last (r_evolution _ _ r) nil) /\
    forall o, In o (last (r_evolution _ _ r) nil) -> better cost (a_dir ar) o (report A cost with_cost (a_dir ar) b) = false.
Proof. exact best_is_optimum. Qed.

Print Assumptions C03_schema.
Print Assumptions C03_sign_restored.
Print Assumptions C03_best_is_optimum.
