(* C12 — Maximising f is exactly minimising -f. *)
From Coq Require Import String List Bool Arith.
From PV Require Import Skeleton Lifecycle Lifecycle_proofs Xnum Select Vars Init Loop.
From PVGen Require Import Algos Expected GenInit GenStop.
From PVBridge Require Import AlgoBridge LifeMain DualExample InitBridge LoopBridge.

(* for every optimizer pinned as fitness- and direction-blind (recomputed from the source on every run): two calls with the same
   seed, configuration and INTERNAL objective hold the same positions and internal costs after every cycle, whatever the
   direction and the fitness values - for every numeric kernel; reported costs are then exact negatives (xneg) *)
Theorem C12_duality : forall value g_seed g_init g_fit g_step n name, In name pinned_fitness_blind ->
  exists sk, In sk all_skeletons /\ sk_name sk = name /\
    forall s1 s2 : store dloc value, s1 DIn = s2 DIn ->
      Lifecycle.exec dloc dloc_eqb value (dual_call value g_seed g_init g_fit g_step sk n) s1 DPC =
      Lifecycle.exec dloc dloc_eqb value (dual_call value g_seed g_init g_fit g_step sk n) s2 DPC.
Proof. exact duality_for_blind. Qed.
(* the internal cost of maximising f and of minimising -f coincide: -(f x) in both cases *)
Theorem C12_same_internal_objective : forall x : xnum, xneg x = xneg x /\ xneg (xneg x) = x.
Proof. intros x. split; [reflexivity|apply xneg_invol]. Qed.

(* the direction enters the evaluation only through the sign flip of _fcn (regenerated): the internal cost of maximising f is
   the negated objective, i.e. the objective of minimising -f, whatever value (NaN included) the objective returns *)
Theorem C12_fcn_regenerated : forall obj t d x, gen_fcn obj t d x = option_map snd (fcn obj t d x).
Proof. exact fcn_bridge. Qed.
Theorem C12_internal_cost : forall obj t x s c, fcn obj t MAX x = Some (s, c) ->
  fcn (fun y => objv_neg (obj y)) t MIN x = Some (s, c).
Proof.
  intros obj t x s c. unfold fcn, solve. destruct (correct_solution t x); [|discriminate]. intros H. inversion H; subst. reflexivity.
Qed.
(* ... and the result constructors restore the sign by the same negation (regenerated) *)
Theorem C12_report_regenerated : forall A cost with_cost a d,
  gen_population_refine A cost with_cost a d = report A cost with_cost d a.
Proof. exact population_refine_bridge. Qed.

Print Assumptions C12_duality.
Print Assumptions C12_fcn_regenerated.
Print Assumptions C12_internal_cost.

(* non-vacuity and non-triviality of C12_duality: the pinned blind set is inhabited by a regenerated skeleton; two stores that agree on the inputs and differ in the
   direction and the fitness fields hold the same positions / internal costs after 2 cycles under an oracle that adds up everything it reads; a different input does not *)
Theorem C12_hypotheses_satisfiable :
  exists sk, In sk all_skeletons /\ In (sk_name sk) pinned_fitness_blind /\
    du_s1 DIn = du_s2 DIn /\ du_s1 DDir <> du_s2 DDir /\ du_s1 DFit <> du_s2 DFit /\
    du_run sk du_s1 = du_run sk du_s2 /\ du_run sk du_s3 <> du_run sk du_s2.
Proof. exact dual_hypotheses_satisfiable. Qed.
Print Assumptions C12_hypotheses_satisfiable.
