(* C05 — The user's objective is only ever evaluated inside the search space (partial: H_raw monitored). *)
From Coq Require Import String List ZArith Bool.
From PV Require Import Xnum Select PyLib Argsort Vars Vars_proofs Task_proofs Init Init_proofs Skeleton Skeleton_proofs.
From PVGen Require Import GenInit Algos Expected GenHyper GenTask.
From PVBridge Require Import InitBridge AlgoBridge ProvMain ProvExample TaskBridge.

(* correct_solution corrects against `get_variables()`: the REGENERATED comprehension over the task's CURRENT variables is the model's flat_vars (no cache) *)
Theorem C05_get_variables_regenerated : forall t, gen_task_get_variables t = flat_vars t.
Proof. exact get_variables_bridge. Qed.

Theorem C05_solve_regenerated : forall obj t x, gen_task_solve obj t x = option_map snd (solve obj t x).
Proof. exact solve_bridge. Qed.
Theorem C05_fcn_regenerated : forall obj t d x, gen_fcn obj t d x = option_map snd (fcn obj t d x).
Proof. exact fcn_bridge. Qed.

(* every argument the objective is ever called with - by ANY exported optimizer (all 84: each reaches the objective only through _init_agent), for candidates later discarded
   too - is a member of the search space *)
Theorem C05_objective_arguments_in_space :
  forall W dot, (forall l w, dot (map xneg l) w = xneg (dot l w)) ->
  forall FT fitness_of obj t d w, valid_task t -> valid_flat t ->
  forall sk ops, In sk all_skeletons -> run_ok FT t sk ops ->
  Forall (fun x => in_spaceb t x = true) (calls FT (exec_ops W dot FT fitness_of obj t d w ops)).
Proof. intros. eapply objective_only_inside_space; eauto. Qed.

(* the hypothesis raw_ok cannot be dropped: a NaN candidate is not repaired by correction *)
Theorem C05_nan_candidate_not_in_space : forall lo hi, in_domb (SCont lo hi) (CNum (xclip XNaN lo hi)) = false.
Proof. exact nan_candidate_not_in_space. Qed.

Print Assumptions C05_solve_regenerated.
Print Assumptions C05_fcn_regenerated.
Print Assumptions C05_objective_arguments_in_space.
Print Assumptions C05_nan_candidate_not_in_space.

(* state shared between objects (regenerated scan of the whole package: memoising decorators, mutable class attributes of non-pydantic classes, module-level
   containers mutated by functions): there is none - no table shared between tasks decides where a candidate is corrected to *)
Theorem C05_no_shared_mutable_state : gen_no_shared_mutable_state = true.
Proof. reflexivity. Qed.
Print Assumptions C05_no_shared_mutable_state.

(* non-vacuity: a concrete weight carrier, objective, mixed task (continuous + discrete), maximisation, a conforming REGENERATED skeleton that is not a known finding and
   an operation sequence (a drawn initial solution outside the bounds, a raw candidate with +inf, a copy) meet EVERY hypothesis of the main theorem; three agents are built *)
Theorem C05_hypotheses_satisfiable :
  (forall l w, ex_dot (map xneg l) w = xneg (ex_dot l w)) /\ valid_task ex_task /\ valid_flat ex_task /\
  exists sk, In sk all_skeletons /\ ~ In (sk_name sk) known_prov /\ run_ok unit ex_task sk ex_ops /\
             length (heap unit (exec_ops unit ex_dot unit ex_fit ex_obj ex_task MAX None ex_ops)) = 3.
Proof. exact prov_hypotheses_satisfiable. Qed.
Print Assumptions C05_hypotheses_satisfiable.
