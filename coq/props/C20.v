(* C20 — Multitask runs every algorithm on every task with the designated mode. *)
From Coq Require Import String List Arith Bool.
From PV Require Import PyLib Multi.
From PVGen Require Import GenHyper GenMulti.
From PVBridge Require Import MultiBridge MultiExample.

(* the methods of Multitask that the model describes still have exactly the modelled shape (branch order included) *)
Theorem C20_regenerated : gen_multitask_shape = true.
Proof. reflexivity. Qed.
(* `x in ModeSolver` is `ModeSolver(x) succeeds` (MetaEnum.__contains__), and ModeSolver has exactly the documented values: the ONE predicate `valid` of
   the theorems below stands for both the constructor's membership test and the conversion in __get_mode__ *)
Theorem C20_enum_regenerated : gen_enum_shape = true.
Proof. reflexivity. Qed.

(* __check_input__, __check_modes__ and __get_mode__ as REGENERATED from multitask.py (T-core) are the model's functions; a constructed
   Multitask designates for every pair in range exactly the model's table entry, without raising *)
Theorem C20_check_input_regenerated : forall V serial values is_tuple n m,
  gen_multi_check_input V serial values is_tuple n m = check_input V serial n m (arg_of V values is_tuple).
Proof. exact check_input_bridge. Qed.
Theorem C20_check_modes_regenerated : forall V valid t, gen_multi_check_modes V valid t = if check_modes V valid t then Some tt else None.
Proof. exact check_modes_bridge. Qed.
Theorem C20_designated_mode_regenerated : forall V valid serial values is_tuple n m t i j, valid serial = true -> i < n -> j < m ->
  gen_multi_check_input V serial values is_tuple n m = Some t -> gen_multi_check_modes V valid t = Some tt ->
  check_input V serial n m (arg_of V values is_tuple) = Some t /\
  gen_multi_get_mode V valid serial t i j = Some (get_mode V serial t i j).
Proof. exact regenerated_get_mode. Qed.

(* the four documented shapes of `modes`, and None, for all n and m *)
Theorem C20_one_value : forall V serial n m (v : V) i j, i < n -> j < m ->
  forall t, check_input V serial n m (MTuple V (v :: nil)) = Some t -> get_mode V serial t i j = v.
Proof. exact broadcast_one. Qed.
Theorem C20_per_algorithm : forall V serial n m (vs : list V) i j, length vs = n -> n <> 1 -> i < n -> j < m ->
  forall t, check_input V serial n m (MTuple V vs) = Some t -> get_mode V serial t i j = nth i vs serial.
Proof. exact broadcast_per_algorithm. Qed.
Theorem C20_per_task : forall V serial n m (vs : list V) i j, length vs = m -> m <> 1 -> m <> n -> i < n -> j < m ->
  forall t, check_input V serial n m (MTuple V vs) = Some t -> get_mode V serial t i j = nth j vs serial.
Proof. exact broadcast_per_task. Qed.
Theorem C20_per_pair : forall V serial n m (vs : list V) i j, length vs = n * m -> n * m <> 1 -> n * m <> n -> n * m <> m -> i < n -> j < m ->
  forall t, check_input V serial n m (MTuple V vs) = Some t -> get_mode V serial t i j = nth (i * m + j) vs serial.
Proof. exact broadcast_per_pair. Qed.
Theorem C20_none : forall V serial n m i j t, check_input V serial n m (MNone V) = Some t -> get_mode V serial t i j = serial.
Proof. intros. eapply broadcast_none; eauto. Qed.
Theorem C20_bad_shape_rejected : forall V serial n m (vs : list V),
  length vs <> 1 -> length vs <> n -> length vs <> m -> length vs <> n * m -> check_input V serial n m (MTuple V vs) = None.
Proof. exact bad_shape_rejected. Qed.
Theorem C20_unknown_mode_rejected : forall V valid serial n m a t, check_input V serial n m a = Some (Some t) ->
  existsb (fun v => negb (valid v)) (concat t) = true -> construct V valid serial n m a = None.
Proof. exact unknown_mode_rejected. Qed.

(* execute: every (algorithm, task, trial) with the designated mode; n*m*n_trials evaluations in all *)
Theorem C20_plan_complete : forall V serial t n m k i j tr (v : V),
  In (i, j, tr, v) (plan V serial t n m k) <-> i < n /\ j < m /\ 1 <= tr <= k /\ v = get_mode V serial t i j.
Proof. exact plan_complete. Qed.
Theorem C20_plan_length : forall V serial t n m k, length (plan V serial t n m k) = n * m * k.
Proof. exact plan_length. Qed.

Print Assumptions C20_regenerated.
Print Assumptions C20_check_input_regenerated.
Print Assumptions C20_designated_mode_regenerated.
Print Assumptions C20_per_algorithm.
Print Assumptions C20_per_task.
Print Assumptions C20_per_pair.
Print Assumptions C20_unknown_mode_rejected.
Print Assumptions C20_plan_complete.

(* state shared between objects (regenerated scan of the whole package: memoising decorators, mutable class attributes of non-pydantic classes, module-level
   containers mutated by functions): there is none - a Multitask object is its own object: no result table shared between instances *)
Theorem C20_no_shared_mutable_state : gen_no_shared_mutable_state = true.
Proof. reflexivity. Qed.
Print Assumptions C20_no_shared_mutable_state.

(* non-vacuity: for n = 2 algorithms and m = 3 tasks every documented shape of `modes` (one value, per algorithm, per task, per pair, None) passes the REGENERATED
   __check_input__ and __check_modes__ (the premises of the theorems above), the REGENERATED __get_mode__ designates the entry the theorems name; a length-4 tuple, a
   non-tuple and an unknown mode are rejected; the side conditions on n, m hold; the plan has n*m*k entries *)
Theorem C20_hypotheses_satisfiable :
  mu_table (Some (2 :: nil)) true = Some ((Some 2 :: Some 2 :: Some 2 :: nil) :: (Some 2 :: Some 2 :: Some 2 :: nil) :: nil) /\
  mu_table (Some (1 :: 2 :: nil)) true = Some ((Some 1 :: Some 1 :: Some 1 :: nil) :: (Some 2 :: Some 2 :: Some 2 :: nil) :: nil) /\
  mu_table (Some (1 :: 2 :: 0 :: nil)) true = Some ((Some 1 :: Some 2 :: Some 0 :: nil) :: (Some 1 :: Some 2 :: Some 0 :: nil) :: nil) /\
  mu_table (Some (1 :: 2 :: 0 :: 0 :: 2 :: 1 :: nil)) true = Some ((Some 1 :: Some 2 :: Some 0 :: nil) :: (Some 0 :: Some 2 :: Some 1 :: nil) :: nil) /\
  mu_table None false = Some ((Some 0 :: Some 0 :: Some 0 :: nil) :: (Some 0 :: Some 0 :: Some 0 :: nil) :: nil) /\
  mu_table (Some (1 :: 2 :: 0 :: 0 :: nil)) true = None /\ mu_table (Some (1 :: 2 :: nil)) false = None /\ mu_table (Some (1 :: 7 :: nil)) true = None /\
  (2 <> 1 /\ 3 <> 1 /\ 3 <> 2 /\ 2 * 3 <> 1 /\ 2 * 3 <> 2 /\ 2 * 3 <> 3) /\
  length (plan nat 0 (Some ((1 :: 1 :: 1 :: nil) :: (2 :: 2 :: 2 :: nil) :: nil)) 2 3 4) = 2 * 3 * 4.
Proof. exact multi_hypotheses_satisfiable. Qed.
Print Assumptions C20_hypotheses_satisfiable.
