(* C11 — Thread and process modes change scheduling, not guarantees (partial: that CPython's executors stay inside the
   permutation envelope is trusted and exercised by search only). *)
From Coq Require Import List Arith Bool Permutation ZArith.
From PV Require Import Xnum Select PyLib Select_proofs Pool.
From PVGen Require Import GenSelect GenHyper.
From PVBridge Require Import SelectBridge C16Main PoolExample.

(* helpers.get_pool_executor / get_pool_results and their two call sites have exactly the modelled shape *)
Theorem C11_pool_regenerated : gen_pool_shape = true.
Proof. reflexivity. Qed.

(* helpers.get_pool_results REGENERATED (the loop `for i in as_completed(futures): res.append(i.result())`): exactly the futures' results, each once, in the
   completion order - whatever that order is *)
Theorem C11_get_pool_results_regenerated : forall A (pool_perm : list A -> list A) futures,
  gen_get_pool_results A pool_perm futures = pool_perm futures.
Proof. exact get_pool_results_bridge. Qed.

(* for every completion order: no pooled evaluation is lost, none is duplicated; per-result guarantees carry over *)
Theorem C11_no_loss_no_dup : forall X (pool_perm : list X -> list X), (forall l, Permutation l (pool_perm l)) ->
  forall results, Permutation results (pool_perm results) /\ length (pool_perm results) = length results.
Proof. exact pool_no_loss_no_dup. Qed.
Theorem C11_guarantees_carry_over : forall X (pool_perm : list X -> list X), (forall l, Permutation l (pool_perm l)) ->
  forall (P : X -> Prop) results, Forall P results -> Forall P (pool_perm results).
Proof. exact pool_forall. Qed.

(* the regenerated pooled _init_population: exactly population_size agents, one per submitted evaluation, and evaluation k
   receives the k-th random position drawn by the submitting process (regenerated: drawn at submission) *)
Theorem C11_pooled_initial_population : forall A pool_perm init_draw pop P m, (forall l : list A, Permutation l (pool_perm l)) ->
  length (gen_init_population A pool_perm init_draw pop P m) = P /\
  Permutation (gen_init_population A pool_perm init_draw pop P m) (map init_draw (seq 0 P)).
Proof. exact init_population_size. Qed.
(* hence pairwise distinct draws give pairwise distinct initial points ... *)
Theorem C11_parent_draws_distinct : forall Pos (stream : nat -> Pos) n, NoDup (map stream (seq 0 n)) -> NoDup (parent_draws Pos stream n).
Proof. exact parent_draws_distinct. Qed.
(* ... whereas positions drawn inside forked workers would replay one stream (the defect that was fixed) *)
Theorem C11_worker_draws_duplicate : forall Pos (stream : nat -> Pos) rank n i j, i < j < n -> rank i = rank j ->
  ~ NoDup (worker_draws Pos stream rank n).
Proof. exact worker_draws_duplicate. Qed.

(* the regenerated pooled greedy selection holds the same agents as the serial one, in the pool's completion order *)
Theorem C11_pooled_greedy : forall A cost copy pool_perm,
  (forall a, cost (copy a) = cost a) -> (forall l, Permutation l (pool_perm l)) -> forall pop new m,
  match gen_greedy_select_population A cost copy pool_perm pop new m with
  | None => length new < length pop
  | Some r => length pop <= length new /\
      exists r0, Permutation r0 r /\ (m = SERIAL -> r = r0) /\ length r0 = length pop /\
        forall i d, i < length pop ->
          nth i r0 d = (let a := nth i (gen_sort_by_cost A cost pop MIN) d in
                        let b := nth i (gen_sort_by_cost A cost new MIN) d in
                        if xltb (cost b) (cost a) then b else copy a)
  end.
Proof. exact greedy_population_correct. Qed.

Print Assumptions C11_pool_regenerated.
Print Assumptions C11_get_pool_results_regenerated.
Print Assumptions C11_no_loss_no_dup.
Print Assumptions C11_pooled_initial_population.
Print Assumptions C11_worker_draws_duplicate.
Print Assumptions C11_pooled_greedy.

(* non-vacuity: a completion order that is not the submission order (`rev`) meets the permutation hypothesis; under it the REGENERATED pooled initialisation and pooled
   greedy selection return their agents in another order than the serial mode (same agents), and a too-short challenger list is the error branch *)
Theorem C11_hypotheses_satisfiable :
  (forall l : list Z, Permutation l (rev l)) /\ rev (1 :: 2 :: 3 :: nil)%Z <> (1 :: 2 :: 3 :: nil)%Z /\
  gen_init_population Z (@rev Z) (fun k => Z.of_nat k) nil 3 THREAD = (2 :: 1 :: 0 :: nil)%Z /\
  gen_init_population Z (@rev Z) (fun k => Z.of_nat k) nil 3 SERIAL = (0 :: 1 :: 2 :: nil)%Z /\
  gen_greedy_select_population Z (fun z => XFin z) (fun z => z) (@rev Z) (5 :: 1 :: 3 :: nil)%Z (4 :: 2 :: 0 :: nil)%Z THREAD = Some (4 :: 2 :: 0 :: nil)%Z /\
  gen_greedy_select_population Z (fun z => XFin z) (fun z => z) (@rev Z) (5 :: 1 :: 3 :: nil)%Z (4 :: 2 :: 0 :: nil)%Z SERIAL = Some (0 :: 2 :: 4 :: nil)%Z /\
  gen_greedy_select_population Z (fun z => XFin z) (fun z => z) (@rev Z) (5 :: 1 :: 3 :: nil)%Z (4 :: 2 :: nil)%Z THREAD = None.
Proof. exact pool_hypotheses_satisfiable. Qed.
Print Assumptions C11_hypotheses_satisfiable.
