(* C15 — The recorded history is faithful and the trend utilities agree with it. *)
From Coq Require Import String List ZArith Bool Arith.
From PV Require Import Xnum Select PyLib Select_proofs Argsort Vars Vars_proofs Task_proofs Init Init_proofs Skeleton Skeleton_proofs Loop Trend.
From PVGen Require Import GenTrend GenStop Algos Expected GenHyper.
From PVBridge Require Import TrendBridge LoopBridge AlgoBridge ProvMain TrendExample.

(* history: an agent object, once built by a conforming optimizer, is never altered by anything that happens later
   (every exported optimizer except the named known findings), so a recorded generation - a list of references to
   agent objects, or of sign-restored copies made when it was recorded - stays what it was *)
Theorem C15_recorded_agents_immutable :
  forall W dot FT fitness_of obj t d w sk ops1 ops2 i a, In sk all_skeletons -> ~ In (sk_name sk) known_prov ->
  Forall (fun o => licensed FT sk o = true) ops2 ->
  nth_error (heap FT (exec_ops W dot FT fitness_of obj t d w ops1)) i = Some a ->
  nth_error (heap FT (exec_ops W dot FT fitness_of obj t d w (ops1 ++ ops2))) i = Some a.
Proof. intros. eapply recorded_agents_immutable; eauto. Qed.

(* a snapshot is made of the agents themselves (min) or of copies that differ only in the sign of the cost (max) *)
Theorem C15_snapshot_regenerated : forall A cost with_cost a d,
  gen_population_refine A cost with_cost a d = report A cost with_cost d a.
Proof. exact population_refine_bridge. Qed.

(* trend utilities (regenerated): entry i is the cost / position of the idx-th agent of generation i sorted in the task's direction *)
Theorem C15_agent_trend : forall A cost evo d idx iters r,
  gen_agent_trend A cost evo d idx iters = Some r ->
  Forall2 (fun i v => exists pop a, nth_error evo i = Some pop /\ nth_error (sort_by_cost cost d pop) idx = Some a /\ v = cost a)
          (match iters with Some l => l | None => seq 0 (length evo) end) r.
Proof. intros A cost evo d idx iters r H. rewrite agent_trend_bridge in H. eapply agent_trend_spec; eauto. Qed.
Theorem C15_agent_position : forall A cost POS pos evo d idx iters r,
  gen_agent_position A cost POS pos evo d idx iters = Some r ->
  Forall2 (fun i v => exists pop a, nth_error evo i = Some pop /\ nth_error (sort_by_cost cost d pop) idx = Some a /\ v = pos a)
          (match iters with Some l => l | None => seq 0 (length evo) end) r.
Proof. intros A cost POS pos evo d idx iters r H. rewrite agent_position_bridge in H. eapply agent_trend_spec; eauto. Qed.
Theorem C15_idx_th_best : forall A cost d pop idx a, costs_ok A cost pop ->
  nth_error (sort_by_cost cost d pop) idx = Some a ->
  In a pop /\
  (forall j b, j < idx -> nth_error (sort_by_cost cost d pop) j = Some b -> better cost d a b = false) /\
  (forall j b, idx < j -> nth_error (sort_by_cost cost d pop) j = Some b -> better cost d b a = false).
Proof. exact ranked_agent_is_idx_th_best. Qed.

(* the last entry of best_agent_trend is the cost of best_solution (an optimal member of the last generation, C03) *)
Theorem C15_best_trend_last : forall A cost evo d r last_pop b, costs_ok A cost last_pop ->
  gen_best_agent_trend A cost evo d None = Some r -> evo <> nil -> last evo nil = last_pop ->
  In b last_pop -> (forall o, In o last_pop -> better cost d o b = false) -> last r XNaN = cost b.
Proof. intros A cost evo d r lp b Hc H. rewrite best_agent_trend_bridge in H. eapply best_trend_last_is_best; eauto. Qed.

Print Assumptions C15_recorded_agents_immutable.
Print Assumptions C15_snapshot_regenerated.
Print Assumptions C15_agent_trend.
Print Assumptions C15_agent_position.
Print Assumptions C15_idx_th_best.
Print Assumptions C15_best_trend_last.

(* state shared between objects (regenerated scan of the whole package: memoising decorators, mutable class attributes of non-pydantic classes, module-level
   containers mutated by functions): there is none - the trend utilities read the result they are given and nothing memoised from another result *)
Theorem C15_no_shared_mutable_state : gen_no_shared_mutable_state = true.
Proof. reflexivity. Qed.
Print Assumptions C15_no_shared_mutable_state.

(* non-vacuity: on a three-generation history with ties the REGENERATED utilities return `Some` (the premise of the trend theorems) with the values the theorems describe
   (max: second best of each generation; an explicit iteration list; positions), `None` exactly on an out-of-range rank / iteration, and the last generation with its
   best member meets the premises of C15_best_trend_last *)
Theorem C15_hypotheses_satisfiable :
  gen_agent_trend Z tr_cost tr_evo MAX 1 None = Some (XFin 2 :: XFin 2 :: XFin 4 :: nil) /\
  gen_agent_trend Z tr_cost tr_evo MIN 0 (Some (2 :: 0 :: nil)) = Some (XFin 0 :: XFin 1 :: nil) /\
  gen_agent_trend Z tr_cost tr_evo MIN 3 None = None /\
  gen_agent_trend Z tr_cost tr_evo MIN 0 (Some (3 :: nil)) = None /\
  gen_best_agent_trend Z tr_cost tr_evo MAX None = Some (XFin 3 :: XFin 5 :: XFin 4 :: nil) /\
  gen_agent_position Z tr_cost Z (fun z => (10 * z)%Z) tr_evo MIN 2 None = Some (30 :: 50 :: 40 :: nil)%Z /\
  tr_evo <> nil /\ costs_ok Z tr_cost (last tr_evo nil) /\
  In 4%Z (last tr_evo nil) /\ (forall o, In o (last tr_evo nil) -> better tr_cost MAX o 4%Z = false).
Proof. exact trend_hypotheses_satisfiable. Qed.
Print Assumptions C15_hypotheses_satisfiable.
