(* C08 — A run does not depend on the optimizer instance's history. *)
From Coq Require Import String List Bool Arith.
From PV Require Import Skeleton Lifecycle Lifecycle_proofs Loop.
From PVGen Require Import Algos Expected GenSchema GenHyper.
From PVBridge Require Import AlgoBridge LifeMain LifeExample LoopBridge.

(* the per-run bookkeeping of the base class is reset by optimize() itself (regenerated schema: SResetCycle, SResetErrors, SResetDiffs) *)
Theorem C08_base_class_resets : gen_optimize_schema = optimize_schema /\
  In SResetCycle optimize_schema /\ In SResetErrors optimize_schema /\ In SResetDiffs optimize_schema.
Proof. split; [exact schema_bridge|]. cbn. intuition. Qed.

(* every exported optimizer: no instance field is read before it is assigned in the same run, hence the result does not depend
   on LState - whatever earlier runs (any number, any task, any stop criterion) left in the instance *)
Theorem C08_history_independent : forall value f_seed f_init f_step f_result sk n, In sk all_skeletons ->
  ~ In (sk_name sk) known_stale -> ~ In (sk_name sk) known_entropy ->
  forall s1 s2 : store loc value, s1 LIn = s2 LIn ->
  run_call value f_seed f_init f_step f_result sk n s1 LResult = run_call value f_seed f_init f_step f_result sk n s2 LResult.
Proof. exact result_depends_on_inputs_only. Qed.
Theorem C08_no_known_exception : known_stale = nil.
Proof. reflexivity. Qed.

Theorem C08_stale_read_allows_difference : forall value (l r : loc) (v1 v2 : value), v1 <> v2 ->
  exists (o : op loc value) (s1 s2 : store loc value), agree_on loc value nil s1 s2 /\ In l (reads o) /\
    exec_op loc loc_eqb value o s1 r <> exec_op loc loc_eqb value o s2 r.
Proof. intros value l r v1 v2 Hv. exact (stale_read_allows_difference loc loc_eqb loc_eqb_spec value l r v1 v2 Hv). Qed.

Print Assumptions C08_base_class_resets.
Print Assumptions C08_history_independent.
Print Assumptions C08_stale_read_allows_difference.

(* state shared between objects (regenerated scan of the whole package: memoising decorators, mutable class attributes of non-pydantic classes, module-level
   containers mutated by functions): there is none - nothing an earlier run (of this or of any other instance) computed is kept where a later run finds it: instance fields are the only state (the def-use facts above cover those) *)
Theorem C08_no_shared_mutable_state : gen_no_shared_mutable_state = true.
Proof. reflexivity. Qed.
Print Assumptions C08_no_shared_mutable_state.

(* non-vacuity and non-triviality: for a skeleton of the REGENERATED all_skeletons (in no known-exception list), two stores that agree on the inputs but differ in the
   instance state, in numpy's stream and in the other entropy give the same result under an oracle that adds up everything it reads, a store that differs on the INPUT
   gives another result (the model does not simply ignore its stores), and the caller's objects are what they were *)
Theorem C08_hypotheses_satisfiable :
  exists sk, In sk all_skeletons /\ ~ In (sk_name sk) known_stale /\ ~ In (sk_name sk) known_entropy /\ ~ In (sk_name sk) known_config_writes /\
    lf_s1 LIn = lf_s2 LIn /\ lf_s1 LState <> lf_s2 LState /\ lf_s1 LG <> lf_s2 LG /\ lf_s1 LE <> lf_s2 LE /\
    lf_run sk lf_s1 = lf_run sk lf_s2 /\ lf_run sk lf_s3 <> lf_run sk lf_s2 /\
    run_call nat lf_sum lf_sum lf_sum lf_sum sk 2 lf_s1 LIn = lf_s1 LIn.
Proof. exact life_hypotheses_satisfiable. Qed.
Print Assumptions C08_hypotheses_satisfiable.
