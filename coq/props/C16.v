(* C16 — Selection helpers return exactly the best / worst members asked for.
   Property theorems only: each is closed by [exact] of a lemma of bridge/C16Main.v, which is about
   the definitions regenerated from /repo's helpers.py and abstract.py. *)
From Coq Require Import List Permutation Sorted.
From PV Require Import Xnum Select PyLib Select_proofs.
From PVGen Require Import GenSelect GenHyper.
From PVBridge Require Import SelectBridge C16Main.

Theorem C16_sort_by_cost : forall A cost l d, costs_ok A cost l ->
  let r := gen_sort_by_cost A cost l d in
  Permutation l r /\ StronglySorted (Before A cost d) r /\
  forall c, filter (same_cost A cost c) r = filter (same_cost A cost c) l.
Proof. exact sort_by_cost_correct. Qed.

Theorem C16_best_agents : forall A cost l n d, costs_ok A cost l -> n <= length l ->
  let r := gen_best_agents A cost l n d in
  exists omitted,
    length r = n /\ Permutation l (r ++ omitted) /\ StronglySorted (Before A cost d) r /\
    forall x o, In x r -> In o omitted -> better cost d o x = false.
Proof. exact best_agents_correct. Qed.

Theorem C16_worst_agents : forall A cost l n d, costs_ok A cost l -> n <= length l ->
  let r := gen_worst_agents A cost l n d in
  exists omitted,
    length r = n /\ Permutation l (omitted ++ r) /\ StronglySorted (Before A cost d) r /\
    forall x o, In x r -> In o omitted -> better cost d x o = false.
Proof. exact worst_agents_correct. Qed.

Theorem C16_best_agent : forall A cost l d, costs_ok A cost l ->
  match gen_best_agent A cost l d with
  | None => l = nil
  | Some b => In b l /\ forall o, In o l -> better cost d o b = false
  end.
Proof. exact best_agent_correct. Qed.

Theorem C16_worst_agent : forall A cost l d, costs_ok A cost l ->
  match gen_worst_agent A cost l d with
  | None => l = nil
  | Some w => In w l /\ forall o, In o l -> better cost d w o = false
  end.
Proof. exact worst_agent_correct. Qed.

Theorem C16_special_agents : forall A cost l nb nw d,
  gen_special_agents A cost l nb nw d =
  match nb, nw with
  | None, None => None
  | _, _ => Some (match nb with Some n => gen_best_agents A cost l n d | None => nil end,
                  match nw with Some n => gen_worst_agents A cost l n d | None => nil end)
  end.
Proof. exact special_agents_correct. Qed.

Theorem C16_best_indexes : forall A cost l n d pi, costs_ok A cost l -> is_argsort (map cost l) pi ->
  map (nth_key (map cost l)) (gen_best_agents_indexes A l n d pi) = map cost (gen_best_agents A cost l n d).
Proof. exact best_indexes_correct. Qed.

Theorem C16_worst_indexes : forall A cost l n d pi, costs_ok A cost l -> is_argsort (map cost l) pi ->
  map (nth_key (map cost l)) (gen_worst_agents_indexes A l n d pi) = map cost (gen_worst_agents A cost l n d).
Proof. exact worst_indexes_correct. Qed.

Theorem C16_sort_and_trim : forall A cost l p, costs_ok A cost l ->
  let r := gen_sort_and_trim A cost l p in
  exists omitted,
    length r = Nat.min p (length l) /\ Permutation l (r ++ omitted) /\ StronglySorted (Before A cost MIN) r /\
    forall x o, In x r -> In o omitted -> xltb (cost o) (cost x) = false.
Proof. exact sort_and_trim_correct. Qed.

Theorem C16_greedy_agent : forall A cost copy, (forall a, cost (copy a) = cost a) -> forall a b,
  gen_greedy_select_agent A cost copy a b = if xltb (cost b) (cost a) then b else copy a.
Proof. exact greedy_agent_correct. Qed.

Theorem C16_greedy_population : forall A cost copy pool_perm,
  (forall a, cost (copy a) = cost a) -> (forall l, Permutation l (pool_perm l)) -> forall pop new m,
  match gen_greedy_select_population A cost copy pool_perm pop new m with
  | None => length new < length pop
  | Some r => length pop <= length new /\
      exists r0, Permutation r0 r /\ (m = SERIAL -> r = r0) /\ length r0 = length pop /\
        forall i d, i < length pop ->
          nth i r0 d = (let a := nth i (gen_sort_by_cost A cost pop MIN) d in
                        let b := nth i (gen_sort_by_cost A cost new MIN) d in
                        if xltb (cost b) (cost a) then b else copy a)
  end.
Proof. exact greedy_population_correct. Qed.

Theorem C16_no_mutation :
  gen_sort_by_cost_mutates_param = false /\ gen_sort_by_cost_indexes_mutates_param = false /\
  gen_sort_and_trim_mutates_param = false /\ gen_best_agents_mutates_param = false /\
  gen_worst_agents_mutates_param = false /\ gen_best_agent_mutates_param = false /\
  gen_worst_agent_mutates_param = false /\ gen_best_agents_indexes_mutates_param = false /\
  gen_worst_agents_indexes_mutates_param = false /\ gen_special_agents_mutates_param = false /\
  gen_greedy_select_agent_mutates_param = false /\ gen_greedy_select_population_mutates_param = false /\
  gen_extend_and_trim_population_mutates_param = false /\ gen_replace_and_trim_population_mutates_param = false.
Proof. exact helpers_do_not_mutate_caller_lists. Qed.

(* best_agent_index / worst_agent_index (REGENERATED): the designated index carries the cost of the best / worst agent, whatever tie-breaking the argsort chose;
   on an empty population both fail (IndexError) *)
Theorem C16_best_index : forall A cost l d pi, costs_ok A cost l -> is_argsort (map cost l) pi ->
  option_map (nth_key (map cost l)) (gen_best_agent_index A l d pi) = option_map cost (hd_error (gen_best_agents A cost l 1 d)).
Proof. exact best_index_correct. Qed.
Theorem C16_worst_index : forall A cost l d pi, costs_ok A cost l -> is_argsort (map cost l) pi ->
  option_map (nth_key (map cost l)) (gen_worst_agent_index A l d pi) = option_map cost (hd_error (gen_worst_agents A cost l 1 d)).
Proof. exact worst_index_correct. Qed.

Print Assumptions C16_sort_by_cost.
Print Assumptions C16_best_agents.
Print Assumptions C16_worst_agents.
Print Assumptions C16_best_agent.
Print Assumptions C16_worst_agent.
Print Assumptions C16_special_agents.
Print Assumptions C16_best_indexes.
Print Assumptions C16_best_index.
Print Assumptions C16_worst_index.
Print Assumptions C16_worst_indexes.
Print Assumptions C16_sort_and_trim.
Print Assumptions C16_greedy_agent.
Print Assumptions C16_greedy_population.
Print Assumptions C16_no_mutation.

(* state shared between objects (regenerated scan of the whole package: memoising decorators, mutable class attributes of non-pydantic classes, module-level
   containers mutated by functions): there is none - the helpers return fresh lists computed from their arguments: nothing memoised is handed out *)
Theorem C16_no_shared_mutable_state : gen_no_shared_mutable_state = true.
Proof. reflexivity. Qed.
Print Assumptions C16_no_shared_mutable_state.

(* no function of helpers.py edits an argument in place - directly, through a local alias, through np.asarray / reshape / ravel (which may return the SAME array)
   or through another helper (regenerated scan with transitive parameter-mutation summaries): `none of them mutates or reorders the caller's list` - for every helper, not only the selection ones *)
Theorem C16_helpers_do_not_mutate_arguments : gen_helpers_do_not_mutate_arguments = true.
Proof. reflexivity. Qed.
Print Assumptions C16_helpers_do_not_mutate_arguments.
