(* C17 — Elitist optimizers never lose their best solution. *)
From Coq Require Import String List ZArith Bool Arith.
From PV Require Import Xnum Select PyLib Select_proofs Loop Loop_proofs Skeleton Skeleton_proofs.
From PVGen Require Import Algos Expected GenSelect.
From PVBridge Require Import AlgoBridge SelectBridge C16Main ElitMain.

(* the optimizers pinned as structurally elitist are still elitist in the skeletons regenerated from the source *)
Theorem C17_pinned_set : forall n, In n pinned_elitist ->
  exists sk, In sk all_skeletons /\ sk_name sk = n /\ elitist sk = true.
Proof. exact pinned_elitist_are_elitist. Qed.

(* the base greedy selection (regenerated) keeps the incumbent unless the challenger is strictly cheaper *)
Theorem C17_greedy_regenerated : forall A cost copy, (forall a, cost (copy a) = cost a) -> forall a b,
  gen_greedy_select_agent A cost copy a b = if xltb (cost b) (cost a) then b else copy a.
Proof. exact greedy_agent_correct. Qed.

(* for every elitist skeleton and every optimizer step that edits the population only through the writes the skeleton
   lists (any numeric kernel, any seed): each generation contains an agent at least as good as every agent of the
   previous one, hence generation K contains one at least as good as every agent of every earlier generation *)
Theorem C17_monotone :
  forall A cost copy, (forall a, cost (copy a) = cost a) -> forall P, 1 <= P ->
  forall H (step : H -> nat -> list A -> H * list A), (forall l : list A, costs_ok A cost l) ->
  forall sk h0 p0, elitist sk = true -> step_conforms A cost copy P H step sk ->
  forall j K, j <= K -> keeps_best A cost (pop_at A H step h0 p0 j) (pop_at A H step h0 p0 K).
Proof. intros. eapply elitist_best_ever; eauto. Qed.

(* the same on the reported (sign-restored) costs, for minimisation and maximisation alike *)
Theorem C17_reported :
  forall A cost copy, (forall a, cost (copy a) = cost a) ->
  forall with_cost, (forall a x, cost (with_cost a x) = x) -> forall P, 1 <= P ->
  forall H (step : H -> nat -> list A -> H * list A), (forall l : list A, costs_ok A cost l) ->
  forall sk h0 p0 d, elitist sk = true -> step_conforms A cost copy P H step sk ->
  forall j K, j <= K -> forall o, In o (map (report A cost with_cost d) (pop_at A H step h0 p0 j)) ->
  exists n, In n (map (report A cost with_cost d) (pop_at A H step h0 p0 K)) /\ better cost d o n = false.
Proof. intros. eapply elitist_reported; eauto. Qed.

Print Assumptions C17_pinned_set.
Print Assumptions C17_greedy_regenerated.
Print Assumptions C17_monotone.
Print Assumptions C17_reported.
