(* C17 — Elitist optimizers never lose their best solution. *)
From Coq Require Import String List ZArith Bool Arith.
From PV Require Import Xnum Select PyLib Select_proofs Loop Loop_proofs Skeleton Skeleton_proofs ElitLang.
From PVGen Require Import Algos Expected GenSelect ElitProgs.
From PVBridge Require Import AlgoBridge SelectBridge C16Main ElitMain ElitExample ElitProgBridge.

(* the optimizers pinned as structurally elitist are still elitist in the skeletons regenerated from the source *)
Theorem C17_pinned_set : forall n, In n pinned_elitist ->
  exists sk, In sk all_skeletons /\ sk_name sk = n /\ elitist sk = true.
Proof. exact pinned_elitist_are_elitist. Qed.

(* the base greedy selection (regenerated) keeps the incumbent unless the challenger is strictly cheaper *)
Theorem C17_greedy_regenerated : forall A cost copy, (forall a, cost (copy a) = cost a) -> forall a b,
  gen_greedy_select_agent A cost copy a b = if xltb (cost b) (cost a) then b else copy a.
Proof. exact greedy_agent_correct. Qed.

(* for every elitist skeleton and every optimizer step that edits the population only through the writes the skeleton
   lists (any numeric kernel, any seed): each generation contains an agent at least as good as every agent of the
   previous one, hence generation K contains one at least as good as every agent of every earlier generation *)
Theorem C17_monotone :
  forall A cost copy, (forall a, cost (copy a) = cost a) -> forall P, 1 <= P ->
  forall H (step : H -> nat -> list A -> H * list A), (forall l : list A, costs_ok A cost l) ->
  forall sk h0 p0, elitist sk = true -> step_conforms A cost copy P H step sk ->
  forall j K, j <= K -> keeps_best A cost (pop_at A H step h0 p0 j) (pop_at A H step h0 p0 K).
Proof. intros. eapply elitist_best_ever; eauto. Qed.

(* the same on the reported (sign-restored) costs, for minimisation and maximisation alike *)
Theorem C17_reported :
  forall A cost copy, (forall a, cost (copy a) = cost a) ->
  forall with_cost, (forall a x, cost (with_cost a x) = x) -> forall P, 1 <= P ->
  forall H (step : H -> nat -> list A -> H * list A), (forall l : list A, costs_ok A cost l) ->
  forall sk h0 p0 d, elitist sk = true -> step_conforms A cost copy P H step sk ->
  forall j K, j <= K -> forall o, In o (map (report A cost with_cost d) (pop_at A H step h0 p0 j)) ->
  exists n, In n (map (report A cost with_cost d) (pop_at A H step h0 p0 K)) /\ better cost d o n = false.
Proof. intros. eapply elitist_reported; eauto. Qed.

(* the judgement behind `WMap true` ("every slot's new agent is not worse than its incumbent"), made by T-algo's own flow analysis, is RE-DERIVED INSIDE COQ:
   the element function of every map-style population write of every optimizer is extracted as a program (gen/ElitProgs.v: names, _greedy_select_agent,
   model_copy, conditional expressions, best_agent([..]), inlined local functions and own methods, assignments, if with the test `x.cost < y.cost` kept, loops,
   everything else opaque) and put through ElitLang's analysis, whose soundness is proved against a semantics in which every opaque value, test and loop
   count is arbitrary.  (i) the extracted programs are exactly the WMap writes of the regenerated skeletons, in order; (ii) every write T-algo flags as keeping
   is accepted; (iii) hence, whatever the numeric kernel does, its element function returns an agent whose internal cost is <= the incumbent's. *)
Theorem C17_wmap_judgement_rederived :
  forallb (fun sk => bl_eqb (wmap_flags (sk_step sk)) (map fst (lookup (sk_name sk) elit_programs))) all_skeletons = true /\
  forallb (fun row => forallb (fun p => implb (fst p) (judge p)) (snd row)) elit_programs = true /\
  (forall name progs e, In (name, progs) elit_programs -> In (true, Some e) progs ->
     forall (c0 : Z) (r : env) (v : Z), (r 0%nat <= c0)%Z -> eval r e v -> (v <= c0)%Z).
Proof. exact (conj programs_cover_the_skeletons (conj talgo_wmap_flags_rederived flagged_wmap_keeps_slot)). Qed.
(* the analysis itself, for every program: accepted => no execution returns a worse agent *)
Theorem C17_elit_analysis_sound : forall (c0 : Z) (fuel : nat) (e : exp) (r : env) (v : Z),
  agood fuel (0%nat :: nil) e = true -> (r 0%nat <= c0)%Z -> eval r e v -> (v <= c0)%Z.
Proof. exact accepted_program_keeps. Qed.

Print Assumptions C17_wmap_judgement_rederived.
Print Assumptions C17_elit_analysis_sound.
Print Assumptions C17_pinned_set.
Print Assumptions C17_greedy_regenerated.
Print Assumptions C17_monotone.
Print Assumptions C17_reported.

(* non-vacuity: an agent type without NaN costs, a step that improves every slot, P = 3 and a skeleton picked from the REGENERATED all_skeletons (elitist, every write
   size-known, a `WMap true` write in its step) meet EVERY hypothesis of the trajectory theorems; the trajectory from [5; 2; 2] is what the step computes *)
Theorem C17_hypotheses_satisfiable :
  (forall a, el_cost (el_copy a) = el_cost a) /\ (forall l : list elA, costs_ok elA el_cost l) /\ 1 <= 3 /\
  exists sk, In sk all_skeletons /\ elitist sk = true /\ forallb size_known (sk_step sk) = true /\
             step_conforms elA el_cost el_copy 3 unit el_step sk /\
             pop_at elA unit el_step tt (5 :: 2 :: 2 :: nil)%Z 2 = (3 :: 0 :: 0 :: nil)%Z.
Proof. exact elit_hypotheses_satisfiable. Qed.
Print Assumptions C17_hypotheses_satisfiable.
