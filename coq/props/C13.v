(* C13 — Variable types obey their domain laws.  Property theorems only. *)
From Coq Require Import List ZArith Bool Permutation.
From PV Require Import Xnum Select PyLib Argsort Labels Vars Vars_proofs.
From PVGen Require Import GenVars GenMultiVar GenLabels GenHyper.
From PVBridge Require Import VarsBridge C13Main MultiVarBridge LabelsBridge.

Theorem C13_continuous : forall lo hi x, is_fin lo = true -> is_fin hi = true -> xltb lo hi = true -> non_nan x ->
  let y := gen_cont_correct lo hi x in
  is_fin y = true /\ xleb lo y = true /\ xleb y hi = true /\
  (xleb lo x = true -> xleb x hi = true -> y = x) /\ gen_cont_correct lo hi y = y.
Proof. exact cont_laws. Qed.

Theorem C13_discrete : forall C (choices : list C) x, choices <> nil -> non_nan x ->
  exists k, gen_disc_correct C choices x = Some k /\ (0 <= k < Z.of_nat (length choices))%Z /\
    (forall j, (0 <= j < Z.of_nat (length choices))%Z -> x = xint j -> k = j) /\
    gen_disc_correct C choices (xint k) = Some k /\
    exists c, gen_disc_decode C choices (xint k) = Some c /\ nth_error choices (Z.to_nat k) = Some c.
Proof. exact disc_laws. Qed.

Theorem C13_permutation : forall (v : list xnum) (pi : list nat), valid_argsort xltb XNaN v pi ->
  let r := gen_perm_correct v pi in
  Permutation r (seq 0 (length v)) /\
  (forall p, Permutation p (seq 0 (length v)) -> v = nats_x p -> r = p) /\
  (forall pi', valid_argsort xltb XNaN (nats_x r) pi' -> gen_perm_correct (nats_x r) pi' = r).
Proof. exact perm_laws. Qed.

(* decode of a permutation variable, end to end over the REGENERATED LabelEncoder (fit, transform) and PermutationVariable (__init__'s label table, decode):
   for EVERY list of declared items - repeated ones included - and every raw value, the decoded value is a rearrangement of the declared items, entry j
   being the label whose index is correct(value)[j] *)
Theorem C13_permutation_decode : forall L (eqb leb : L -> L -> bool) (unknown : L) (items : list L) v pi,
  (forall x y, eqb x y = true <-> x = y) -> length v = length items -> valid_argsort xltb XNaN v pi ->
  exists labels out, gen_perm_labels L (fitted_transform L eqb leb items) items = Some labels /\ Permutation labels items /\
    gen_perm_decode L labels v pi = Some out /\ Permutation out items /\ length out = length v /\
    (forall j, j < length v -> nth j out unknown = nth (nth j (gen_perm_correct v pi) 0) labels unknown).
Proof. intros L eqb leb unknown items v pi H. exact (perm_decode_rearranges_gen L eqb leb unknown H items v pi). Qed.
(* for pairwise distinct items the label table is the encoder's own label list (decode returns what inverse_transform of the corrected value returns) *)
Theorem C13_permutation_labels_distinct : forall L (eqb leb : L -> L -> bool) (unknown : L) (items : list L),
  (forall x y, eqb x y = true <-> x = y) -> (forall a b, leb a b = true \/ leb b a = true) -> NoDup items ->
  gen_perm_labels L (fitted_transform L eqb leb items) items = Some (gen_le_fit_labels L eqb leb items).
Proof. intros L eqb leb unknown items H. exact (perm_labels_distinct_gen L eqb leb unknown H items). Qed.
(* why decode must not go through the encoder alone (the pinned tree did, until the fix recorded in known_findings.json): the encoder keeps one label per DISTINCT item, so with repeated
   items an index has no label and "unknown" - not a declared item - comes back *)
Theorem C13_encoder_decode_duplicates_refuted :
  exists (items : list nat) (r : list nat) (out : list nat),
    Permutation r (seq 0 (length items)) /\
    perm_decode nat Nat.eqb Nat.leb 99 items r = Some out /\ In 99 out /\ ~ In 99 items /\ ~ Permutation out items.
Proof. exact perm_decode_duplicates_refuted. Qed.
(* the rest of the encoder, pinned: both fields unset per instance by the constructor (no class-level table shared between encoders), assigned by __init__ / fit
   only; PermutationVariable's encoder and label table assigned in its __init__ only *)
Theorem C13_label_encoder_shape : gen_label_encoder_shape = true.
Proof. reflexivity. Qed.
Theorem C13_label_encoder_regenerated : forall L (eqb leb : L -> L -> bool) (unknown : L),
  (forall y, gen_le_fit_labels L eqb leb y = fit_labels L eqb leb y) /\
  (forall y labels, gen_le_fit_index L eqb y labels = fit_index L eqb labels) /\
  (forall labels index y, gen_le_transform L eqb (Some labels) index y = transform L eqb index y) /\
  (forall labels index y, gen_le_inverse_transform L unknown (Some labels) index y = inverse_transform L unknown labels index y) /\
  (forall index y, gen_le_transform L eqb None index y = None) /\ (forall index y, gen_le_inverse_transform L unknown None index y = None).
Proof.
  intros L eqb leb unknown. repeat split; intros; reflexivity.
Qed.

Theorem C13_validators :
  (forall lo hi, gen_cont_validate lo hi = None <-> xleb hi lo = true) /\
  (forall k, gen_binary_validate k = None <-> (k <= 0)%Z).
Proof. exact validators_reject. Qed.

(* the same laws for every (flattened) coordinate kind of the hand model, which is what the
   multi-variables map over their children *)
Theorem C13_correct_in_dom : forall sv c, valid_svar sv -> shape_ok sv c ->
  exists c', correct1 sv c = Some c' /\ in_domb sv c' = true.
Proof. exact correct_in_dom. Qed.
Theorem C13_correct_fix : forall sv c, in_domb sv c = true -> correct1 sv c = Some c.
Proof. exact correct_fix. Qed.
Theorem C13_correct_idem : forall sv c c', valid_svar sv -> shape_ok sv c ->
  correct1 sv c = Some c' -> correct1 sv c' = Some c'.
Proof. exact correct_idem. Qed.
Theorem C13_random_in_dom : forall sv c, draw_ok sv c -> in_domb sv c = true.
Proof. exact random_in_dom. Qed.
Theorem C13_decode_declared : forall sv c, in_domb sv c = true ->
  match sv with
  | SCont _ _ => exists x, c = CNum x /\ decode1 sv c = Some (DNum x)
  | SDisc n => exists x k, c = CNum x /\ decode1 sv c = Some (DChoice k) /\ x = xint k /\ (0 <= k < Z.of_nat n)%Z
  | SPerm n => exists v l, c = CVec v /\ decode1 sv c = Some (DItems l) /\ v = nats_x l /\ Permutation l (seq 0 n)
  end.
Proof. exact decode_declared. Qed.
Theorem C13_multi_validators :
  (forall lo hi, valid_varb (VCont lo hi) = false <-> xleb hi lo = true) /\
  (forall los his, valid_varb (VContMulti los his) = false <->
      length los <> length his \/ exists p, In p (zip los his) /\ xleb (snd p) (fst p) = true) /\
  (forall los his, valid_varb (VMultiObj los his) = false <->
      length los <> length his \/ exists p, In p (zip los his) /\ xleb (snd p) (fst p) = true) /\
  (forall k, valid_varb (VBinary k) = false <-> (k <= 0)%Z).
Proof. exact valid_varb_rejects. Qed.

Print Assumptions C13_continuous.
Print Assumptions C13_discrete.
Print Assumptions C13_permutation.
Print Assumptions C13_permutation_decode.
Print Assumptions C13_permutation_labels_distinct.
Print Assumptions C13_encoder_decode_duplicates_refuted.
Print Assumptions C13_label_encoder_regenerated.
Print Assumptions C13_label_encoder_shape.
Print Assumptions C13_validators.
Print Assumptions C13_correct_in_dom.
Print Assumptions C13_correct_fix.
Print Assumptions C13_correct_idem.
Print Assumptions C13_random_in_dom.
Print Assumptions C13_decode_declared.
Print Assumptions C13_multi_validators.

(* ---- the multi-variable classes themselves, REGENERATED from models.py (children built in __init__, correct / decode over enumerate(children),
   validators): they are the hand model's children / correct_var / decode_var / valid_varb, and the domain laws hold for a whole multi-variable *)
Theorem C13_multi_children_regenerated :
  (forall los his, gen_cmv_children los his = children (VContMulti los his)) /\
  (forall los his, gen_mov_children los his = children (VMultiObj los his)) /\
  (forall C (choices : list (list C)), gen_dmv_children C choices = Some (children (VDiscMulti (map (@length C) choices)))) /\
  (forall n, gen_bin_children n = children (VBinary (Z.of_nat n))).
Proof. exact (conj cmv_children_bridge (conj mov_children_bridge (conj dmv_children_bridge bin_children_bridge))). Qed.
Print Assumptions C13_multi_children_regenerated.
Theorem C13_multi_correct_regenerated :
  (forall los his cs, gen_cmv_correct (gen_cmv_children los his) cs = correct_var (VContMulti los his) cs) /\
  (forall los his cs, gen_mov_correct (gen_mov_children los his) cs = correct_var (VMultiObj los his) cs) /\
  (forall C (choices : list (list C)) cs, obind (gen_dmv_children C choices) (fun ch => gen_dmv_correct ch cs) = correct_var (VDiscMulti (map (@length C) choices)) cs) /\
  (forall n cs, gen_bin_correct (gen_bin_children n) cs = correct_var (VBinary (Z.of_nat n)) cs).
Proof. exact (conj cmv_correct_bridge (conj mov_correct_bridge (conj dmv_correct_bridge bin_correct_bridge))). Qed.
Print Assumptions C13_multi_correct_regenerated.
Theorem C13_multi_decode_regenerated :
  (forall los his cs, option_map DList (gen_cmv_decode (gen_cmv_children los his) cs) = decode_var (VContMulti los his) cs) /\
  (forall los his cs, option_map DList (gen_mov_decode (gen_mov_children los his) cs) = decode_var (VMultiObj los his) cs) /\
  (forall C (choices : list (list C)) cs,
      option_map DList (obind (gen_dmv_children C choices) (fun ch => gen_dmv_decode ch cs)) = decode_var (VDiscMulti (map (@length C) choices)) cs) /\
  (forall n cs, option_map DList (gen_bin_decode (gen_bin_children n) cs) = decode_var (VBinary (Z.of_nat n)) cs).
Proof. exact (conj cmv_decode_bridge (conj mov_decode_bridge (conj dmv_decode_bridge bin_decode_bridge))). Qed.
Print Assumptions C13_multi_decode_regenerated.
Theorem C13_multi_validators_regenerated :
  (forall los his, gen_cmv_validate los his = None <-> valid_varb (VContMulti los his) = false) /\
  (forall los his, gen_mov_validate los his = None <-> valid_varb (VMultiObj los his) = false).
Proof. exact (conj cmv_validate_bridge mov_validate_bridge). Qed.
Print Assumptions C13_multi_validators_regenerated.
(* correct of a whole multi-variable: defined on every value with at least one well-shaped entry per child, lands in every child's domain, is idempotent,
   and leaves members unchanged *)
Theorem C13_multi_correct_laws : forall v cs, has_children v = true -> Forall valid_svar (children v) -> length (children v) <= length cs ->
  Forall (fun p => shape_ok (fst p) (snd p)) (zip (children v) cs) ->
  exists cs', correct_var v cs = Some cs' /\ length cs' = length (children v) /\
    Forall2 (fun sv c' => in_domb sv c' = true) (children v) cs' /\ correct_var v cs' = Some cs'.
Proof. exact multi_correct_laws. Qed.
Print Assumptions C13_multi_correct_laws.
Theorem C13_multi_correct_fix : forall v cs, has_children v = true -> Forall2 (fun sv c => in_domb sv c = true) (children v) cs -> correct_var v cs = Some cs.
Proof. exact multi_correct_fix. Qed.
Print Assumptions C13_multi_correct_fix.
(* random sampling, REGENERATED: under numpy's documented ranges (premises) a scalar sample is a member of the domain, and a multi-variable draws once per child *)
Theorem C13_randomize_regenerated : forall du dc dp,
  (forall lo hi, is_fin lo = true -> is_fin hi = true -> xltb lo hi = true -> is_fin (du lo hi) = true /\ xleb lo (du lo hi) = true /\ xleb (du lo hi) hi = true) ->
  (forall n, 1 <= n -> dc n < n) -> (forall n, is_permb n (dp n) = true) ->
  (forall sv, valid_svar sv -> in_domb sv (child_randomize du dc dp sv) = true) /\
  (forall v, Forall valid_svar (children v) ->
     let s := gen_cmv_randomize (child_randomize du dc dp) (children v) in
     length s = length (children v) /\ Forall2 (fun sv c => in_domb sv c = true) (children v) s) /\
  (forall r ch, gen_mov_randomize r ch = gen_cmv_randomize r ch /\ gen_dmv_randomize r ch = gen_cmv_randomize r ch /\ gen_bin_randomize r ch = gen_cmv_randomize r ch).
Proof.
  intros du dc dp H1 H2 H3. split; [exact (child_randomize_in_dom du dc dp H1 H2 H3)|]. split; [exact (multi_randomize_in_dom du dc dp H1 H2 H3)|exact multi_randomize_same].
Qed.
Print Assumptions C13_randomize_regenerated.
Import ListNotations.
Example C13_multi_nonvacuous :
  let v := VContMulti [xint 0; xint (-1)] [xint 1; xint 1] in
  has_children v = true /\ valid_varb v = true /\
  gen_cmv_correct (gen_cmv_children [xint 0; xint (-1)] [xint 1; xint 1]) [CNum (xint 5); CNum (xint (-7))] = Some [CNum (xint 1); CNum (xint (-1))] /\
  gen_cmv_correct (gen_cmv_children [xint 0; xint (-1)] [xint 1; xint 1]) [CNum (xint 5)] = None.
Proof. vm_compute. repeat split. Qed.

(* state shared between objects (regenerated scan of the whole package: memoising decorators, mutable class attributes of non-pydantic classes, module-level
   containers mutated by functions): there is none - variables do not share tables *)
Theorem C13_no_shared_mutable_state : gen_no_shared_mutable_state = true.
Proof. reflexivity. Qed.
Print Assumptions C13_no_shared_mutable_state.
