"""Further generated groups (filled in as the development grows)."""
def regenerate(repo, status):
    return
