"""Registry of the exported optimizers with the configuration of the repository's own test fixture (the
"documented scale").  Extracted once from /repo/tests/algorithms/*.py with `ast` and committed as
pv/registry.json; `load()` resolves the classes from the live package."""
from __future__ import annotations
import ast
import json
from pathlib import Path

HERE = Path(__file__).resolve().parent
REG = HERE / "registry.json"


def _lit(node):
    try:
        return ast.literal_eval(node)
    except Exception:
        return eval(compile(ast.Expression(node), "<fixture>", "eval"), {"__builtins__": {}}, {})      # simple arithmetic such as 1 / 3


def build(repo: Path) -> list[dict]:
    out = []
    for f in sorted((repo / "tests" / "algorithms").glob("test_*.py")):
        tree = ast.parse(f.read_text())
        names = []
        for n in tree.body:
            if isinstance(n, ast.ImportFrom) and n.module == "pyvolutionary":
                names = [a.name for a in n.names]
        cfg_cls, kwargs = None, None
        for n in tree.body:
            if isinstance(n, ast.FunctionDef) and n.name == "optimization_config":
                for s in ast.walk(n):
                    if isinstance(s, ast.Return) and isinstance(s.value, ast.Call):
                        cfg_cls = ast.unparse(s.value.func)
                        kwargs = {k.arg: _lit(k.value) for k in s.value.keywords}
        opt = [x for x in names if x != "OptimizationResult" and not x.endswith("Config")]
        if cfg_cls and len(opt) == 1:
            out.append({"name": opt[0], "config": cfg_cls, "kwargs": kwargs, "fixture": f.name})
    return out


def registry(repo: Path = Path("/repo")) -> list[dict]:
    if REG.exists():
        return json.loads(REG.read_text())
    r = build(repo)
    REG.write_text(json.dumps(r, indent=1))
    return r


def load(entry: dict, **override):
    """(optimizer class, config instance)"""
    import pyvolutionary
    cls = getattr(pyvolutionary, entry["name"])
    ccls = getattr(pyvolutionary, entry["config"])
    kw = dict(entry["kwargs"]); kw.update(override)
    return cls, ccls(**kw)


def exported(repo: Path = Path("/repo")) -> list[str]:
    """optimizer classes exported by pyvolutionary/__init__.py (concrete subclasses of OptimizationAbstract)"""
    import inspect
    import pyvolutionary
    from pyvolutionary.abstract import OptimizationAbstract
    return sorted(n for n, o in vars(pyvolutionary).items()
                  if inspect.isclass(o) and issubclass(o, OptimizationAbstract) and o is not OptimizationAbstract and not inspect.isabstract(o))
