"""Scripted-optimizer correspondence: the REAL OptimizationAbstract.optimize() is driven through generated
population histories (harness.Scripted) and compared with the model's `run gen_optimize_schema` evaluated in
Coq on the same histories with PrimFloat arithmetic (bit-exact rates).  Also decides C03 / C04 directly on the
real results with independent Python oracles written from the property text."""
from __future__ import annotations
import json
import math
import re

import numpy as np

from . import coq
from .lit import xlit, flit, coqlist, coqopt

PREAMBLE = r"""
From Coq Require Import PrimFloat.
From PV Require Import Xnum Select PyLib Loop.
From PVGen Require Import GenSchema.
Definition Ag := (nat * xnum)%type.                  (* id = 1000 * generation + index, internal cost *)
Definition cost (a : Ag) : xnum := snd a.
Definition with_cost (a : Ag) (c : xnum) : Ag := (fst a, c).
Definition avg_of (avgs : list float) (p : list Ag) : float :=
  match p with (i, _) :: _ => nth (i / 1000) avgs nan | [] => nan end.
Definition run_script (c : cfg float) (d : dir) (pops : list (list Ag)) (avgs : list float) (i0 : inst Ag float nat) :=
  run Ag cost with_cost float PrimFloat.sub PrimFloat.abs PrimFloat.ltb PrimFloat.leb 0%float 1%float (avg_of avgs)
      nat (fun h => 0) (fun h => (h, nth 0 pops [])) (fun h p => (h, p)) (fun h cyc p => (S h, nth (S h) pops []))
      (max_cycles c) gen_optimize_schema {| a_dir := d; a_mode := None; a_workers := None |} i0.
Definition fresh (c : cfg float) : inst Ag float nat :=
  {| i_config := Some c; i_cycle := 1; i_errors := []; i_diffs := []; i_pop := []; i_best := None; i_worst := None;
     i_mode := SERIAL; i_workers := 4; i_hidden := 0 |}.
Definition f_eqb (a b : float) : bool := PrimFloat.eqb a b || (PrimFloat.is_nan a && PrimFloat.is_nan b).
Fixpoint fl_eqb (a b : list float) : bool :=
  match a, b with [], [] => true | x :: t, y :: u => f_eqb x y && fl_eqb t u | _, _ => false end.
Definition x_eqb (a b : xnum) : bool := match a, b with XNaN, XNaN => true | _, _ => xeqb a b end.
Definition ag_eqb (a b : Ag) : bool := Nat.eqb (fst a) (fst b) && x_eqb (snd a) (snd b).
Fixpoint pop_eqb (a b : list Ag) : bool :=
  match a, b with [], [] => true | x :: t, y :: u => ag_eqb x y && pop_eqb t u | _, _ => false end.
Fixpoint evo_eqb (a b : list (list Ag)) : bool :=
  match a, b with [], [] => true | x :: t, y :: u => pop_eqb x y && evo_eqb t u | _, _ => false end.
Inductive expect := EDone (steps : nat) (rates : list float) (evo : list (list Ag)) (best : option Ag) | EErr (steps : nat).
Definition out_eqb (o : outcome Ag float nat) (e : expect) : bool :=
  match o, e with
  | Done _ _ _ r _ k, EDone k' rs ev b => Nat.eqb k k' && fl_eqb (r_rates _ _ r) rs && evo_eqb (r_evolution _ _ r) ev
      && match r_best _ _ r, b with Some x, Some y => ag_eqb x y | None, None => true | _, _ => false end
  | ErrValue _ _ _ k, EErr k' => Nat.eqb k k'
  | _, _ => false
  end.
(* a second run on the instance left by the first one (C08, base-class part) *)
Inductive case :=
| Hist (c : cfg float) (d : dir) (pops : list (list Ag)) (avgs : list float) (e : expect)
| Reuse (c1 : cfg float) (pops1 : list (list Ag)) (avgs1 : list float)
        (c : cfg float) (d : dir) (pops : list (list Ag)) (avgs : list float) (e : expect).
Definition set_config (i : inst Ag float nat) (c : cfg float) : inst Ag float nat :=
  {| i_config := Some c; i_cycle := i_cycle _ _ _ i; i_errors := i_errors _ _ _ i; i_diffs := i_diffs _ _ _ i; i_pop := i_pop _ _ _ i;
     i_best := i_best _ _ _ i; i_worst := i_worst _ _ _ i; i_mode := i_mode _ _ _ i; i_workers := i_workers _ _ _ i; i_hidden := i_hidden _ _ _ i |}.
Definition check (k : case) : bool :=
  match k with
  | Hist c d pops avgs e => out_eqb (run_script c d pops avgs (fresh c)) e
  | Reuse c1 pops1 avgs1 c d pops avgs e =>
      match run_script c1 MIN pops1 avgs1 (fresh c1) with
      | Done _ _ _ _ i1 _ => out_eqb (run_script c d pops avgs (set_config i1 c)) e
      | _ => false
      end
  end.
"""

COSTS = [float("-inf"), -2.5, -1.0, -0.0, 0.0, 1.0, 1.0, 2.0, 3.5, float("inf")]


def gen_history(r):
    """a configuration and a population history long enough for max_cycles cycles"""
    mc = r.choice([1, 1, 2, 3, 4, 5, 6, 8, 12])
    P = r.choice([1, 2, 3, 3, 4, 6])
    pattern = r.choice(["slow", "plateau", "noisy", "up", "hit", "hit", "nan-after-decrease"])
    f = r.uniform(0.2, 0.7)
    nanfit = r.random() < 0.07
    if pattern == "nan-after-decrease":
        # small decreases of the rate, then a generation with a NaN fitness (rate NaN, change NaN), then more small decreases: a NaN change is NOT a small decrease,
        # wherever it sits in the patience window (builtin min / max skip a NaN that is not their first argument)
        mc = r.choice([4, 5, 6, 8]); P = r.choice([2, 3, 4])
    gens = []
    for g in range(mc + 1):
        if pattern == "nan-after-decrease": f = f + (1 - f) * r.uniform(0.001, 0.01)
        elif pattern == "slow": f = f + (1 - f) * r.uniform(0.001, 0.2)
        elif pattern == "plateau": f = f + (r.choice([0.0, 0.0, 1e-6, 1e-3]) if g % 3 else (1 - f) * 0.3)
        elif pattern == "noisy": f = min(1.5, max(0.01, f + r.uniform(-0.1, 0.15)))
        elif pattern == "up": f = max(0.01, f - r.uniform(0.0, 0.05))
        else: f = r.choice([1.0, 0.999, 0.95, f, 1.0 + 1e-9])
        fits = [f] * P if r.random() < (0.5 if pattern != "hit" else 0.8) else [min(2.0, max(1e-3, f + r.uniform(-0.05, 0.05))) for _ in range(P)]
        if pattern == "nan-after-decrease" and g >= 2 and g % 3 == 0: fits[r.randrange(P)] = float("nan")
        if nanfit and P >= 2 and r.random() < 0.6:      # an agent whose fitness is not a number (objective undefined there): the mean, hence the rate, is NaN
            fits[r.randrange(P)] = float("nan")
        alphabet = COSTS if r.random() < 0.7 else [r.uniform(-5, 5) for _ in range(3)]
        costs = [r.choice(alphabet) for _ in range(P)]
        if g > 0 and r.random() < 0.35:              # the previous best cost reappears on another agent (plateau objectives)
            costs[r.randrange(P)] = min(gens[-1][0])
        gens.append((costs, fits))
    rates = [abs(1 - float(np.average(fs))) for _, fs in gens[1:]]
    diffs = [rates[0]] + [rates[i] - rates[i - 1] for i in range(1, len(rates))]
    fe = None
    k = r.random()
    finite = lambda xs: [x for x in xs if not math.isnan(x)] or [0.1]
    if k < 0.55:
        base = r.choice(finite(rates))
        fe = r.choice([base, float(np.nextafter(base, -np.inf)), float(np.nextafter(base, np.inf)), base * 0.5, 0.0, 0.1, -0.0, 1e-300])
    if any(x == 0.0 for x in rates) and r.random() < 0.6:
        fe = r.choice([0.0, 0.0, -0.0])          # a zero tolerance IS a configured tolerance: a rate of exactly 0 (every agent at fitness 1) meets it
    early = None
    if pattern == "nan-after-decrease":
        fe = None
        early = (r.choice([2, 2, 3]), r.choice([0.05, 0.1, float("inf")]))
    elif r.random() < 0.55:
        md = abs(r.choice(finite(diffs)))
        md = r.choice([md, float(np.nextafter(md, np.inf)), float(np.nextafter(md, 0.0)), md * 2, 1e-4, 0.02, 0.0, 0.0, -0.0, float("inf")])
        early = (r.choice([1, 1, 2, 3, 4]), md)
    minmax = r.choice(["min", "max"])
    return {"max_cycles": mc, "P": P, "fitness_error": fe, "early": early, "minmax": minmax, "gens": gens}


def run_real(h, instance=None):
    """drive the real optimize(); returns (instance, observation dict)"""
    from .harness import Scripted, BaseOptimizationConfig, dummy_task, quiet, Agent
    from pyvolutionary import EarlyStopping
    script = [[Agent(position=[1000 * g + i], cost=c, fitness=f) for i, (c, f) in enumerate(zip(cs, fs))] for g, (cs, fs) in enumerate(h["gens"])]
    cfg = BaseOptimizationConfig(population_size=h["P"], max_cycles=h["max_cycles"], fitness_error=h["fitness_error"],
                                 early_stopping=None if h["early"] is None else EarlyStopping(patience=h["early"][0], min_delta=h["early"][1]))
    # the configuration objects must hold exactly what was passed (a validator that "fills defaults" with `or` rewrites 0 / 0.0; one that clamps or rounds changes the rule)
    echo = []
    if cfg.max_cycles != h["max_cycles"] or cfg.population_size != h["P"]: echo.append(f"max_cycles/population_size read back as {cfg.max_cycles}/{cfg.population_size}")
    fe_ = h["fitness_error"]
    if not (cfg.fitness_error == fe_ or (fe_ is not None and cfg.fitness_error is not None and math.isnan(fe_) and math.isnan(cfg.fitness_error))) or \
            (fe_ is not None and cfg.fitness_error is not None and math.copysign(1, fe_) != math.copysign(1, cfg.fitness_error)):
        echo.append(f"fitness_error={fe_!r} read back as {cfg.fitness_error!r}")
    if h["early"] is not None and (cfg.early_stopping.patience != h["early"][0] or not (cfg.early_stopping.min_delta == h["early"][1])):
        echo.append(f"EarlyStopping(patience={h['early'][0]}, min_delta={h['early'][1]!r}) read back as ({cfg.early_stopping.patience}, {cfg.early_stopping.min_delta!r})")
    if instance is None:
        o = Scripted(cfg, script)
    else:
        o = instance; o._config = cfg; o.script = script
    obs = {}
    with quiet():
        try:
            res = o.optimize(dummy_task(h["minmax"]))
            obs = {"steps": o.steps, "rates": [float(x) for x in res.rates],
                   "evolution": [[(a.position[0], a.cost) for a in p.agents] for p in res.evolution],
                   "best": None if res.best_solution is None else (res.best_solution.position[0], res.best_solution.cost), "error": None}
        except ValueError as e:
            obs = {"steps": o.steps, "error": "ErrValue"}
        except Exception as e:          # any other exception class is a disagreement by construction
            obs = {"steps": o.steps, "error": type(e).__name__}
    obs["config_echo"] = echo
    return o, obs


def cfg_lit(h):
    fe = coqopt(h["fitness_error"], flit)
    ea = "None" if h["early"] is None else f"(Some {{| patience := {h['early'][0]}; min_delta := {flit(h['early'][1])} |}})"
    return f"{{| population_size := {h['P']}; max_cycles := {h['max_cycles']}; fitness_error := {fe}; early := {ea} |}}"


def pops_lit(h):
    return coqlist([coqlist([f"({1000 * g + i}, {xlit(c)})" for i, c in enumerate(cs)]) for g, (cs, _) in enumerate(h["gens"])])


def avgs_lit(h):
    return coqlist([flit(float(np.average(fs))) if fs else "nan" for _, fs in h["gens"]])


def expect_lit(obs):
    if obs["error"]:
        return f"(EErr {obs['steps']})"
    evo = coqlist([coqlist([f"({i}, {xlit(c)})" for i, c in p]) for p in obs["evolution"]])
    best = "None" if obs["best"] is None else f"(Some ({obs['best'][0]}, {xlit(obs['best'][1])}))"
    return f"(EDone {obs['steps']} {coqlist([flit(x) for x in obs['rates']])} {evo} {best})"


def hist_meta(h):
    return {"max_cycles": h["max_cycles"], "fitness_error": None if h["fitness_error"] is None else float(h["fitness_error"]).hex(),
            "early": None if h["early"] is None else [h["early"][0], float(h["early"][1]).hex()], "minmax": h["minmax"],
            "gens": [[[float(c).hex() for c in cs], [float(f).hex() for f in fs]] for cs, fs in h["gens"]]}


def meta_hist(m):
    return {"max_cycles": m["max_cycles"], "P": len(m["gens"][0][0]), "fitness_error": None if m["fitness_error"] is None else float.fromhex(m["fitness_error"]),
            "early": None if m["early"] is None else (m["early"][0], float.fromhex(m["early"][1])), "minmax": m["minmax"],
            "gens": [([float.fromhex(c) for c in cs], [float.fromhex(f) for f in fs]) for cs, fs in m["gens"]]}


# ---------------------------------------------------------------- independent oracles (property text)
def oracle_c04(h, obs):
    """problems with the stop rule / shape of the result"""
    out = [f"the configuration does not hold what was configured: {e_}" for e_ in obs.get("config_echo", [])]
    if obs["error"]:
        if all(len(cs) > 0 for cs, _ in h["gens"]):
            out.append(f"optimize raised {obs['error']} on a populated history")
        return out
    K = obs["steps"]; rates = obs["rates"]; mc = h["max_cycles"]
    if K > mc or K < 1: out.append(f"{K} cycles executed with max_cycles={mc}")
    if len(obs["evolution"]) != K + 1: out.append(f"{len(obs['evolution'])} generations recorded for {K} cycles")
    if len(rates) != K: out.append(f"{len(rates)} rates recorded for {K} cycles")
    true_rates = [abs(1 - float(np.average(fs))) for _, fs in h["gens"][1:]]
    for k in range(min(K, len(rates))):
        if rates[k] != true_rates[k] and not (math.isnan(rates[k]) and math.isnan(true_rates[k])):
            out.append(f"rate of cycle {k + 1} is {rates[k]!r}, |1 - mean fitness| is {true_rates[k]!r}")

    def crit(k):        # k = 1-based cycle, on the true rates
        if k >= mc: return True
        fe = h["fitness_error"]
        if fe is not None and true_rates[k - 1] <= fe: return True
        if h["early"] is not None:
            p, md = h["early"]
            changes = [true_rates[j] - true_rates[j - 1] for j in range(1, k)]     # the k-1 changes seen so far
            if len(changes) >= p and all(d < 0 and abs(d) < md for d in changes[-p:]): return True
        return False
    first = next(k for k in range(1, mc + 1) if crit(k))
    if K != first:
        out.append(f"stopped after {K} cycles; the first cycle at which a configured criterion holds is {first}")
    return out


def oracle_c03(h, obs):
    out = []
    if obs["error"] or not obs["evolution"]:
        return out
    last = obs["evolution"][-1]
    b = obs["best"]
    if b is None:
        return ["best_solution is None"]
    if not any(i == b[0] and (c == b[1]) for i, c in last):
        out.append(f"best_solution (agent {b[0]}, cost {b[1]!r}) is not an agent of the last recorded generation {last!r}")
    better = (lambda x, y: x < y) if h["minmax"] == "min" else (lambda x, y: x > y)
    if any(better(c, b[1]) for _, c in last):
        out.append(f"an agent of the last generation is strictly better than best_solution (cost {b[1]!r}): {last!r}")
    return out


def oracle_c15(h, obs):
    """the recorded history IS the sequence of populations the loop went through: one generation per cycle plus the initial one, each with the scripted agents"""
    out = []
    if obs["error"]:
        return out
    K = obs["steps"]
    if len(obs["evolution"]) != K + 1:
        out.append(f"{len(obs['evolution'])} generations recorded for {K} cycles")
    sign = 1.0 if h["minmax"] == "min" else -1.0
    for g, pop in enumerate(obs["evolution"][:K + 1]):
        want = [(1000 * g + i, c) for i, c in enumerate(h["gens"][g][0])]
        got = [(i, c) for i, c in pop]
        if [i for i, _ in got] != [i for i, _ in want]:
            out.append(f"generation {g} of the history holds agents {[i for i, _ in got][:6]}, the population after cycle {g} was {[i for i, _ in want][:6]}"); break
    return out


def long_history(mc: int, P: int, seed: int) -> dict:
    """a synthetic history for a VERY long run (no tolerance, no early stopping: the budget is the only criterion); costs keep changing until the last generation"""
    import random as _random
    rr = _random.Random(seed)
    a, b = rr.choice([7919, 104729, 611953]), rr.choice([1013, 499, 2003])
    gens = [([float((g * a + i * 15485863) % b) - b / 2 for i in range(P)], [0.3 + ((g * 31 + i) % 97) / 1000.0 for i in range(P)]) for g in range(mc + 1)]
    return {"max_cycles": mc, "P": P, "fitness_error": None, "early": None, "minmax": rr.choice(["min", "max"]), "gens": gens}


def long_runs(ctx, oracles, lengths=None):
    """scripted runs of thousands of cycles through the real optimize() (cheap: no evaluation), decided by the property oracles only (too long for a Coq literal):
    anything that depends on the LENGTH of a run - caps, periodic trimming, counters that wrap, buffers - shows here"""
    r = ctx.rng
    lengths = lengths or ([1237, 5003, 20011, 100003] if ctx.quick else [1237, 5003, 20011, 65537 + 7, 100003, 400009])
    n = 0
    for mc in lengths:
        spec = {"mc": mc + r.randint(0, 5), "P": r.choice([1, 2, 3]), "seed": r.randint(0, 10**6)}
        h = long_history(spec["mc"], spec["P"], spec["seed"])
        _, obs = run_real(h)
        n += 1
        for name, orc in oracles:
            for pr in orc(h, obs):
                short = {k: (v if k not in ("evolution", "rates") else f"<{len(v)} entries>") for k, v in obs.items()}
                ctx.violation(f"{name}:long-run:" + re.sub(r"[-+]?[0-9][0-9.e+-]*", "N", pr.split(';')[0])[:60], f"run of {spec['mc']} cycles: {pr}"[:400],
                              {"kind": "long-history", "spec": spec, "observed": short})
    ctx.coverage["long_scripted_runs"] = {"runs": n, "cycles": lengths}
    ctx.coverage["evaluations"] += n
    return n


def replay_long(m, oracles):
    h = long_history(m["spec"]["mc"], m["spec"]["P"], m["spec"]["seed"])
    _, obs = run_real(h)
    probs = [p for _, orc in oracles for p in orc(h, obs)]
    print("problems:", probs[:5])
    return 1 if probs else 0


def correspondence(ctx, n_hist: int, n_reuse: int, oracles):
    """generate histories, run the real code, decide with `oracles`, compare with the model in Coq"""
    r = ctx.rng
    items, metas = [], []
    stop_kinds = {"budget": 0, "fitness_error": 0, "early": 0, "error": 0}
    for k in range(n_hist):
        h = gen_history(r)
        if r.random() < 0.03:
            g = r.randrange(len(h["gens"])); h["gens"][g] = ([], [])           # malformed stream: an empty generation
        _, obs = run_real(h)
        m = hist_meta(h)
        for name, orc in oracles:
            for pr in orc(h, obs):
                ctx.violation(f"{name}:" + re.sub(r"[-+]?[0-9][0-9.e+-]*", "N", pr.split(';')[0])[:60], pr, {"kind": "history", "history": m, "observed": obs})
        if obs["error"]: stop_kinds["error"] += 1
        elif obs["steps"] >= h["max_cycles"]: stop_kinds["budget"] += 1
        elif h["fitness_error"] is not None and obs["rates"] and obs["rates"][-1] <= h["fitness_error"]: stop_kinds["fitness_error"] += 1
        else: stop_kinds["early"] += 1
        items.append(f"Hist {cfg_lit(h)} {'MIN' if h['minmax'] == 'min' else 'MAX'} {pops_lit(h)} {avgs_lit(h)} {expect_lit(obs)}")
        metas.append({"kind": "history", "history": m})
    for k in range(n_reuse):
        h1 = gen_history(r); h1["minmax"] = "min"
        h2 = gen_history(r)
        o, obs1 = run_real(h1)
        if obs1["error"]:
            continue
        _, obs2 = run_real(h2, instance=o)
        _, fresh2 = run_real(h2)
        m = {"kind": "reuse", "first": hist_meta(h1), "second": hist_meta(h2)}
        if json.dumps(obs2, default=str) != json.dumps(fresh2, default=str):
            ctx.violation("reuse:second run differs from a fresh instance", "a second optimize() on a used instance differs from a fresh instance's run", {**m, "reused": obs2, "fresh": fresh2})
        items.append(f"Reuse {cfg_lit(h1)} {pops_lit(h1)} {avgs_lit(h1)} {cfg_lit(h2)} {'MIN' if h2['minmax'] == 'min' else 'MAX'} {pops_lit(h2)} {avgs_lit(h2)} {expect_lit(obs2)}")
        metas.append(m)
    res = coq.run_cases(ctx.pid + "s", PREAMBLE, items, "check", shard=60)
    return items, metas, res, stop_kinds
