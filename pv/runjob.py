"""python -m pv.runjob : one search job (JSON on stdin) in a FRESH interpreter, observation as JSON on stdout.  Used where the run must not share
the parent's interpreter state - e.g. two runs under different PYTHONHASHSEED values (C07)."""
import json
import sys

from . import search

if __name__ == "__main__":
    job = json.loads(sys.stdin.read())
    obs = search.run_job(job)
    sys.stdout.write("\n@@OBS@@" + json.dumps(obs, default=str))
