"""Search harness: runs REAL optimizers on generated tasks and returns plain-data observations that the
property modules decide on.  Testing only — never a proof; its jobs are (i) to produce a concrete replay
when a proof or tie breaks, (ii) to watch the hypotheses the theorems leave to the numeric kernels."""
from __future__ import annotations
import glob
import math
import os
import tempfile
import traceback
from concurrent.futures import ProcessPoolExecutor

import numpy as np

from . import harness  # noqa: F401  (puts /repo on sys.path, checks the import origin)
from .optimizers import registry, load

from pyvolutionary import (Task, ContinuousVariable, ContinuousMultiVariable, MultiObjectiveVariable, DiscreteVariable,
                           DiscreteMultiVariable, BinaryVariable, PermutationVariable)


def _flat(x):
    out = []
    for v in x:
        if isinstance(v, (list, tuple, np.ndarray)): out += [float(u) for u in v]
        else: out.append(float(v))
    return out


def objective_value(name: str, x):
    """total functions of the position (IEEE arithmetic, never raising): inf / nan propagate instead"""
    with np.errstate(all="ignore"):
        v = np.array(_flat(x), dtype=np.float64)
        n = len(v)
        if name == "sphere": return float(np.sum(v * v))
        if name == "rastrigin": return float(10 * n + np.sum(v * v - 10 * np.cos(2 * np.pi * v)))
        if name == "step": return float(np.sum(np.floor(v) * np.floor(v)))                # plateaus: many exact ties
        if name == "linear": return float(np.sum((np.arange(n) + 1) * v))                 # negative costs, optimum on the boundary
        if name == "shifted": return float(np.sum((v - 0.3) * (v - 0.3)) - 7.5)           # negative optimum
        if name == "abs": return float(np.sum(np.abs(v)))
        if name == "const": return 1.0
        if name == "zero": return 0.0                                                     # every cost exactly 0.0
        if name == "deadzone": return float(np.sum(np.maximum(0.0, np.abs(v - 1.0) - 0.5)))  # a flat region of cost exactly 0.0 around the optimum: a converged swarm ties at 0
        if name == "pyviolation":
            # total constraint violation written with Python's builtin max: max(0.0, nan) is 0.0, so a NaN coordinate contributes NOTHING - a NaN candidate looks
            # perfectly feasible and wins every comparison (the opposite of the arithmetic objectives, under which a NaN candidate loses every comparison)
            # (the constraints x_i >= 1.5 and sum(x) <= 2 are inconsistent: every real point costs >= 1, only a NaN point costs 0)
            return float(sum(max(0.0, 1.5 - float(t)) for t in v) + max(0.0, float(sum(float(t) for t in v)) - 2.0))
        if name == "deathpenalty":                                                            # the usual hard-constraint idiom: +inf outside the feasible region
            return float(np.sum(v * v)) if bool(np.all(np.abs(v) <= 6.0)) else float("inf")
        if name == "violation": return float(np.sum(np.maximum(0.0, np.abs(v) - 4.0)))        # a constraint-violation measure: exactly 0.0 on a large feasible region, positive outside
        if name == "terraces": return float(np.sum(np.floor(np.abs(v))))                      # terraced: many agents tie exactly at DIFFERENT coordinates
        if name == "flatscale": return float(1.0 + 1e-9 * np.sum(v * v))                  # a badly scaled objective: costs differ in the 9th digit only
        if name == "lognan": return float(np.log(v[0] + 5.0) + np.sum(v * v) * 0.01)        # NaN on part of the box (x0 < -5)
        if name == "multi2": return [float(np.sum(v * v)), float(np.sum((v - 1) * (v - 1)))]
        if name.startswith("global:"):
            # an objective that reads PROGRAM STATE which is not part of the task (a module-level setting, a dataset loaded elsewhere): whoever evaluates it - the
            # parent, a pool thread, a forked worker - must see the state as it is when optimize() is called
            return objective_value(name[7:], x) + GLOBAL_SHIFT[0]
        if name.startswith("neg:"):
            r = objective_value(name[4:], x)
            return [-t for t in r] if isinstance(r, list) else -r
        if name.startswith("cached:"):
            return objective_value(name[7:], x)              # the VALUE; the task classes hand out one stored list object per position (stored_objective)
    raise ValueError(name)


_STORE: dict = {}
GLOBAL_SHIFT = [0.0]


def stored_objective(name: str, x):
    """`cached:<obj>`: a memoised objective / a row of a pre-computed score table - the SAME list object is returned every time a position is evaluated (legal: the
    returned value belongs to the user; the framework must not edit it).  The stored row is checked against a private copy on every call."""
    if not name.startswith("cached:"):
        return objective_value(name, x)
    key = (name, repr(_flat(x)))
    if key not in _STORE:
        v = objective_value(name[7:], x)
        _STORE[key] = (v, list(v) if isinstance(v, list) else v)
    return _STORE[key][0]


def store_corrupted() -> list:
    """positions whose stored objective row no longer equals its private copy (somebody edited the user's list in place)"""
    return [k for k, (v, c) in _STORE.items() if isinstance(v, list) and not (v == c or (repr(v) == repr(c)))]


class SpecTask(Task):
    """objective chosen by data['obj']; optionally records every argument it is called with (per process file)"""
    def objective_function(self, x):
        rec = self.data.get("record")
        if rec:
            with open(f"{rec}.{os.getpid()}", "a") as fh:
                fh.write(repr(x) + "\n")
        where = self.data.get("record_where")           # where evaluations really run: one line (pid, thread id) per call, one file per process
        if where:
            import threading
            with open(f"{where}.{os.getpid()}", "a") as fh:
                fh.write(f"{os.getpid()} {threading.get_ident()}\n")
        if self.data.get("raise_at"):
            # an objective that fails part-way (the k-th evaluation on this task object): the call is aborted by the user's own exception
            c_ = self.data["raise_count"] = self.data.get("raise_count", 0) + 1
            if c_ == self.data["raise_at"]: raise RuntimeError("objective failed (scripted)")
        nested = self.data.get("nested")
        if nested:
            # a bi-level objective: some evaluations run ANOTHER optimizer instance (of the given class) to completion before answering
            cnt = self.data["nested_count"] = self.data.get("nested_count", 0) + 1
            if cnt in nested["at"] and not self.data.get("nested_active"):
                self.data["nested_active"] = True
                try:
                    import contextlib, io
                    st_ = np.random.get_state()
                    entry = next(e for e in registry() if e["name"] == nested["opt"])
                    icls, icfg = load(entry, **nested.get("cfg", {}))
                    with contextlib.redirect_stdout(io.StringIO()):
                        icls(icfg).optimize(build_task(nested["task"]))
                    np.random.set_state(st_)              # the inner run is invisible to the outer run's random stream
                finally:
                    self.data["nested_active"] = False
        if self.data.get("delay"):
            import time, zlib
            time.sleep((zlib.crc32(repr(x).encode()) % 7) * self.data["delay"])
        if self.data["obj"] == "decoded-tour":
            # the objective works on the DECODED solution (labels), as the library's own TSP example does: sum of label distances along the tour
            out = 0.0
            for v in self.transform_solution(x).values():
                if isinstance(v, (list, tuple, np.ndarray)) and len(v) and isinstance(v[0], str):
                    ks = [int(s_[1:]) for s_ in v]
                    out += float(sum(abs(a - b) * (i + 1) for i, (a, b) in enumerate(zip(ks, ks[1:]))))
                else:
                    out += float(np.sum(np.abs(np.array(_flat([v]) if not isinstance(v, (list, tuple, np.ndarray)) else _flat(v), dtype=float))))
            return out
        if self.data["obj"] == "helperdist":
            # the README's idiom: the objective hands rows of DATA THAT BELONGS TO THE TASK (float64 array: rows are views) to the library's own distance helper
            from pyvolutionary import helpers as H_
            c = self.data["coords"]
            v = np.array(_flat(x), dtype=float)
            pt = v[:2] if len(v) >= 2 else np.array([v[0], 0.0])
            return float(sum(H_.distance(c[k], pt) for k in range(len(c))))
        if self.data["obj"].startswith("noisy:"):
            # a measurement, not a function: the same position evaluated again gives another value (a deterministic pseudo-noise of the evaluation count, so runs
            # replay).  Legal: what an agent's cost IS is what was measured when it was built; a kept agent keeps it.
            c_ = self.data["noisy_count"] = self.data.get("noisy_count", 0) + 1
            return objective_value(self.data["obj"][6:], x) + ((c_ * 2654435761) % 1000) / 1000.0 * self.data.get("noise", 4.0)
        if self.data["obj"].startswith("mutating:"):
            # an objective that works IN PLACE on the list it is given (sorts it, rescales it): legal - the framework hands every evaluation its own corrected copy
            val = objective_value(self.data["obj"][9:], x)
            if isinstance(x, list) and all(isinstance(u, (int, float)) for u in x):
                x.sort(reverse=True)
                if x: x[0] = x[0] * 3.0 + 100.0
            return val
        val = stored_objective(self.data["obj"], x)
        return val


class SpecTaskB(SpecTask):
    pass


class SpecTaskC(SpecTask):
    pass


def build_vars(vspecs, names=None):
    vs = []
    for i, (k, s) in enumerate(vspecs):
        n = names[i] if names else f"v{i}"
        if k == "cont": vs.append(ContinuousVariable(name=n, lower_bound=s[0], upper_bound=s[1]))
        elif k == "contmulti": vs.append(ContinuousMultiVariable(name=n, lower_bounds=list(s[0]), upper_bounds=list(s[1])))
        elif k == "multiobj": vs.append(MultiObjectiveVariable(name=n, lower_bounds=list(s[0]), upper_bounds=list(s[1])))
        elif k == "disc": vs.append(DiscreteVariable(name=n, choices=list(range(s))))
        elif k == "discmulti": vs.append(DiscreteMultiVariable(name=n, choices=[list(range(m)) for m in s]))
        elif k == "binary": vs.append(BinaryVariable(name=n, n_vars=s))
        elif k == "perm": vs.append(PermutationVariable(name=n, items=list(range(s))))
        elif k == "permstr": vs.append(PermutationVariable(name=n, items=[f"c{j:02d}" for j in range(s)]))      # string labels
        elif k == "permcase": vs.append(PermutationVariable(name=n, items=[(f"c{j // 2:02d}" if j % 2 else f"C{j // 2:02d}") for j in range(s)]))      # case twins: c00 / C00 ...
        else: raise ValueError(k)
    return vs


def build_task(t: dict, record: str | None = None):
    data = {"obj": t["obj"], "record": record, "delay": t.get("delay"), "nested": t.get("nested"), "raise_at": t.get("raise_at")}
    kw = {}
    if t.get("weights") is not None: kw["objective_weights"] = t["weights"]
    if t.get("seed") is not None: kw["seed"] = t["seed"]
    if t.get("coords"):
        data["coords"] = np.arange(2 * t["coords"], dtype=float).reshape(t["coords"], 2) / 3.0
    task = SpecTask(variables=build_vars(t["vars"], t.get("names")), minmax=t.get("minmax", "min"), data=data, **kw)
    if t.get("raw_minmax"):
        # the direction written as the documented STRING after construction (`task.minmax = "max"`): a maximisation / minimisation task like any other
        task.minmax = t.get("minmax", "min")
    return task


def cont_task(dim=3, lo=-10.0, hi=10.0, obj="sphere", minmax="min", seed=None, **kw):
    return {"vars": [("contmulti", ([lo] * dim, [hi] * dim))], "obj": obj, "minmax": minmax, "seed": seed, **kw}


def task_view(task) -> dict:
    """what a caller can see of a task: its public fields and the search-space description derived from it (bounds, flattened variables)"""
    view = {"dump": task.model_dump(exclude={"data"})}
    if isinstance(getattr(task, "data", None), dict) and "coords" in task.data:
        view["user_data"] = np.asarray(task.data["coords"]).tolist()          # the part of `data` that is the user's own (the rest is this harness's bookkeeping)
    try:
        lb, ub = task.get_bounds()
        view["bounds"] = [np.asarray(lb, dtype=float).tolist(), np.asarray(ub, dtype=float).tolist()]
    except Exception as e:
        view["bounds"] = f"raises {type(e).__name__}"
    try:
        view["variables"] = [(type(v).__name__, v.model_dump()) for v in task.get_variables()]
    except Exception as e:
        view["variables"] = f"raises {type(e).__name__}"
    return view


def run_job(job: dict) -> dict:
    """run_job_inner under a wall-clock limit (SIGALRM in the worker's main thread): an optimizer that loops forever on some input (e.g. the partner draw of a
    one-agent population) becomes a failed observation instead of a hung check"""
    import signal
    limit = int(job.get("timeout", 900))

    def _alarm(sig, frm):
        raise TimeoutError(f"the run did not finish within {limit}s")
    try:
        old = signal.signal(signal.SIGALRM, _alarm)
    except ValueError:                       # not in a main thread: no limit available
        return run_job_inner(job)
    signal.alarm(limit)
    try:
        return run_job_inner(job)
    except TimeoutError as e:                # raised outside run_job_inner's own handler (e.g. while a pool shuts down)
        return {"job": job, "ok": False, "error": {"type": "TimeoutError", "where": "harness", "msg": str(e)}}
    finally:
        signal.alarm(0)
        signal.signal(signal.SIGALRM, old)


_KEEP_ALIVE: list = []


def run_job_inner(job: dict) -> dict:
    """one optimize() call (or a sequence on one instance) -> observation"""
    import contextlib, io
    obs = {"job": job, "ok": False}
    rec = None
    try:
        for pj in job.get("pre_jobs", []):                 # OTHER instances / tasks / variables used earlier in this interpreter (kept alive): they must not matter
            po = run_job_inner({k_: v_ for k_, v_ in pj.items() if k_ not in ("pre_jobs", "record", "snapshots")})
            obs.setdefault("pre_jobs_ok", []).append(bool(po.get("ok")))
            _KEEP_ALIVE.append(po)
            del _KEEP_ALIVE[:-40]
        GLOBAL_SHIFT[0] = float(job["task"].get("global_shift", 0.0))
        if job.get("switchinterval"):
            import sys as _sys
            _sys.setswitchinterval(job["switchinterval"])        # thread mode under the finest scheduling the interpreter offers: a race window of a few bytecodes gets hit
        entry = next(e for e in registry() if e["name"] == job["opt"])
        cls, cfg = load(entry, **job.get("cfg", {}))
        if job.get("record"):
            rec = tempfile.mktemp(prefix="pvrec_", dir=os.environ.get("PV_TMP", "/var/tmp"))
        task = build_task(job["task"], rec)
        obs["config_before"] = cfg.model_dump()
        obs["task_before"] = task_view(task)
        if job.get("pre_draws"):
            np.random.random(job["pre_draws"])
            import random as _stdrandom                    # whatever else the process drew from before: none of it may reach a seeded run
            for _ in range(job["pre_draws"]): _stdrandom.random()
        snaps = None
        if job.get("snapshots"):
            import copy
            snaps = []

            class Snap(cls):            # an independent deep snapshot after _init_population and after every cycle
                def _init_population(self):
                    super()._init_population()
                    snaps.append([(copy.deepcopy(a.position), a.cost, a.fitness) for a in self._population])

                def optimization_step(self):
                    super().optimization_step()
                    snaps.append([(copy.deepcopy(a.position), a.cost, a.fitness) for a in self._population])
            Snap.__name__ = cls.__name__
            Snap.__qualname__ = "_Snap_" + cls.__name__; Snap.__module__ = __name__     # picklable by reference: process mode ships bound methods to the
            globals()[Snap.__qualname__] = Snap                                         # forked workers, which inherit this module's globals
            cls = Snap
        init_log = None
        if job.get("trace_init"):
            init_log = set()
            _base = cls

            class Traced(_base):        # trace conformance: every agent ever reported must be (field-equal to) a product of _init_agent
                def _init_agent(self, *a, **k):
                    ag = super()._init_agent(*a, **k)
                    init_log.add((repr(ag.position), repr(ag.cost)))
                    return ag
            Traced.__name__ = _base.__name__
            cls = Traced
        if job.get("first_cfg") is not None:                      # earlier runs under another configuration, then reconfigure
            fc = dict(job["first_cfg"])
            while True:                                        # drop perturbed parameters the config validators reject
                try:
                    _, cfg0 = load(entry, **fc); break
                except Exception as ve:
                    bad = [k for k in fc if k in str(ve) and k not in ("max_cycles", "fitness_error")]
                    if not bad: raise
                    for k in bad: fc.pop(k)
            obs["first_cfg_used"] = fc
            o = cls(cfg0)
        elif job.get("via_set_config"):
            o = cls()
            if job.get("refused_first") is not None:          # a call made before the instance has a configuration is refused - and must leave nothing behind
                try:
                    o.optimize(task, **job["refused_first"]); obs["refused_first"] = "accepted"
                except Exception as e0:
                    obs["refused_first"] = type(e0).__name__
            full = dict(entry["kwargs"]); full.update(job.get("cfg", {}))
            o.set_config_parameters(full)
            cfg = o.configuration
            obs["config_before"] = cfg.model_dump()
        else:
            o = cls(cfg)
        with contextlib.redirect_stdout(io.StringIO()):
            kw = {}
            if job.get("mode"): kw["mode"] = job["mode"]
            if job.get("workers"): kw["workers"] = job["workers"]
            for t0 in job.get("sequence", []):          # earlier runs on the same instance
                try:
                    o.optimize(build_task(t0["task"]), **({"mode": t0["mode"]} if t0.get("mode") else {}), **t0.get("kw", {}))
                except Exception as e0:
                    obs.setdefault("sequence_errors", []).append(type(e0).__name__)
                if t0.get("cfg"):                        # a different configuration for the next run (HyperTuner style)
                    full = dict(entry["kwargs"]); full.update(t0["cfg"]); o.set_config_parameters(full)
            if job.get("first_cfg") is not None:
                full = dict(entry["kwargs"]); full.update(job.get("cfg", {})); o.set_config_parameters(full); cfg = o.configuration
            if job.get("retask_vars"):
                # the task object has been used before (by another optimizer instance) and its variables are then replaced: the run must see the NEW search space
                cls(cfg).optimize(task)
                task.variables = build_vars(job["retask_vars"], job["task"].get("names"))
                if rec:
                    for f_ in glob.glob(rec + ".*"): os.unlink(f_)
            if job.get("used_task"):
                # the SAME task object has a history: samples drawn from it, earlier runs (of another optimizer instance) on it.  An equal task is an equal task.
                ut = job["used_task"]
                for _ in range(ut.get("draws", 0)): task.empty_solution()
                for _ in range(ut.get("runs", 0)):
                    try: cls(cfg).optimize(task)
                    except Exception as e0: obs.setdefault("sequence_errors", []).append(type(e0).__name__)
                if rec:
                    for f_ in glob.glob(rec + ".*"): os.unlink(f_)
            if snaps is not None: del snaps[:]                # snapshots of earlier runs on this instance do not count
            res = o.optimize(task, **kw)
        if job.get("privates"):
            obs["privates"] = {nm_: int(getattr(o, f"_{job['opt']}{nm_}")) for nm_ in job["privates"]}
        obs["ok"] = True
        obs["store_corrupted"] = [k[1] for k in store_corrupted()][:3]
        obs["evolution"] = [[(a.position, a.cost, a.fitness) for a in p.agents] for p in res.evolution]
        obs["rates"] = [float(x) for x in res.rates]
        obs["best"] = None if res.best_solution is None else (res.best_solution.position, res.best_solution.cost, res.best_solution.fitness)
        obs["config_after"] = cfg.model_dump()
        obs["task_after"] = task_view(task)
        if init_log is not None:
            mm_ = job["task"].get("minmax", "min")
            bad_ = []
            for g_, p_ in enumerate(res.evolution):
                for a_ in p_.agents:
                    internal = a_.cost if mm_ == "min" else -a_.cost
                    if (repr(a_.position), repr(internal)) not in init_log and (repr(a_.position), repr(float(internal))) not in init_log:
                        bad_.append((g_, a_.position, a_.cost)); break
                if bad_: break
            obs["untraced_agents"] = bad_
        if snaps is not None:
            obs["snapshots"] = snaps
        if job.get("trends"):
            from pyvolutionary import utils as U
            obs["best_trend"] = [float(x) for x in U.best_agent_trend(res)]
            obs["best_positions"] = U.best_agent_position(res)
            U.agent_trend(res, 0); U.agent_position(res, len(res.evolution[0].agents) - 1, iters=list(range(len(res.evolution))))
            # the utilities are read-only: the recorded history must be what it was before they were called (same agents, same ORDER)
            obs["evolution_after_utilities"] = [[(a.position, a.cost, a.fitness) for a in p.agents] for p in res.evolution]
        if job.get("decode"):
            obs["decoded_best"] = repr(task.transform_solution(res.best_solution.position))
    except Exception as e:
        tb = traceback.extract_tb(e.__traceback__)
        where = next((f"{os.path.basename(fr.filename)}:{fr.name}" for fr in reversed(tb) if "/pyvolutionary/" in fr.filename), "harness")
        obs["error"] = {"type": type(e).__name__, "where": where, "msg": str(e)[:200]}
        try:
            obs["config_after"] = cfg.model_dump(); obs["task_after"] = task_view(task)
        except Exception:
            pass
    finally:
        if rec:
            calls = []
            for f in glob.glob(rec + ".*"):
                with open(f) as fh:
                    calls += [l.rstrip("\n") for l in fh]
                os.unlink(f)
            obs["calls"] = calls
    return obs


def run_job_any(job: dict) -> dict:
    """run_job here, or - when the job carries "hashseed" - in a fresh interpreter started with that PYTHONHASHSEED"""
    if "hashseed" not in job:
        return run_job(job)
    import json as _json, subprocess, sys
    env = dict(os.environ); env["PYTHONHASHSEED"] = str(job["hashseed"])
    j2 = {k: v for k, v in job.items() if k != "hashseed"}
    try:
        r = subprocess.run([sys.executable, "-m", "pv.runjob"], input=_json.dumps(j2), capture_output=True, text=True, env=env, timeout=600)
        obs = _json.loads(r.stdout.split("@@OBS@@")[-1])
        obs["job"] = job
        return obs
    except Exception as e:
        return {"job": job, "ok": False, "error": {"type": type(e).__name__, "where": "harness", "msg": str(e)[:200]}}


def run_jobs(jobs: list[dict], procs: int = 14) -> list[dict]:
    if not jobs:
        return []
    # jobs that themselves use process pools are fine inside pool workers (fork); keep the pool modest
    with ProcessPoolExecutor(max_workers=min(procs, len(jobs))) as ex:
        return list(ex.map(run_job_any, jobs, chunksize=1))


def fixture_scale(name: str) -> dict:
    e = next(e for e in registry() if e["name"] == name)
    return e["kwargs"]


def all_names() -> list[str]:
    return [e["name"] for e in registry()]
