"""Source-directed search: optimizers whose package changed since the pinned tree get a campaign aimed at what short sampled runs almost never reach - degenerate
populations that arise late in a run (everybody on one point, every cost tied or exactly 0, agents sitting on a bound, exact twins, a converged swarm whose costs differ
in the 9th digit), integer-coded spaces, dimension 1 - under every per-run property's own oracle.  A numeric change inside one optimizer breaks no proof (the numeric
kernels are oracles of the theorems); this is the part of "search for a failing input" that looks where the change is.  Testing only.

The thorough tier runs the campaign for ALL optimizers (so the unchanged tree is known to pass it: anything it finds there is fixed or listed as a known finding)."""
from __future__ import annotations

from . import search


def changed_sources(info) -> list:
    from .expected import load_expectations
    base = load_expectations().get("src_fingerprints", {})
    sks = (info or {}).get("regen", {}).get("_skeletons", {})
    return sorted(n for n, s in sks.items() if base.get(n) != s.get("src_fingerprint"))


def jobs(ctx, names, reps=1, record=False, snapshots=False, grid_for=None):
    r = ctx.rng
    out = []

    def add(family, nm, cfg, task, **kw):
        j = {"opt": nm, "family": "hot:" + family, "cfg": {"fitness_error": None, **cfg}, "task": task, "timeout": 120 if ctx.quick else 600, **kw}
        if record: j["record"] = True
        if snapshots: j["snapshots"] = True
        out.append(j)
    from .expected import load_expectations
    works = {}
    for w in load_expectations().get("c06_int_works", []):
        a, b = w.split("|"); works.setdefault(a, []).append(b)
    for nm in names:
        P0 = search.fixture_scale(nm)["population_size"]
        for _ in range(reps):
            sd = lambda: r.randint(0, 10**6)
            mm = lambda: r.choice(["min", "max"])
            cyc = r.choice([40, 80])
            add("zero-plateau", nm, {"max_cycles": cyc, "population_size": P0}, search.cont_task(obj="deadzone", minmax="min", seed=sd(), dim=3))
            add("corner", nm, {"max_cycles": cyc, "population_size": P0}, search.cont_task(obj="linear", minmax=mm(), seed=sd(), dim=3, lo=0.0, hi=1.0))
            add("zero-corner", nm, {"max_cycles": cyc, "population_size": P0}, search.cont_task(obj="sphere", minmax="min", seed=sd(), dim=3, lo=0.0, hi=5.0))
            add("all-zero", nm, {"max_cycles": 10, "population_size": P0}, search.cont_task(obj="zero", minmax=mm(), seed=sd(), dim=2))
            add("feasible-region", nm, {"max_cycles": 30, "population_size": P0}, search.cont_task(obj="violation", minmax=mm(), seed=sd(), dim=r.choice([2, 3])))
            add("terraces", nm, {"max_cycles": 30, "population_size": P0}, search.cont_task(obj="terraces", minmax="min", seed=sd(), dim=3, lo=-4.0, hi=4.0))
            if "discmulti" in works.get(nm, []):
                add("small-discrete", nm, {"max_cycles": 60, "population_size": P0}, {"vars": [("discmulti", [5, 5, 5, 5])], "obj": r.choice(["sphere", "abs"]), "minmax": mm(), "seed": sd()})
            add("nan-swallowing", nm, {"max_cycles": 40, "population_size": P0}, search.cont_task(obj="pyviolation", minmax="min", seed=sd(), dim=3, lo=-5.0, hi=5.0))
            add("plateaus", nm, {"max_cycles": cyc, "population_size": P0}, search.cont_task(obj="step", minmax="min", seed=sd(), dim=2, lo=-3.0, hi=3.0))
            add("flat-scale", nm, {"max_cycles": 30, "population_size": P0}, search.cont_task(obj="flatscale", minmax=mm(), seed=sd(), dim=3))
            add("converged", nm, {"max_cycles": r.choice([300, 450]), "population_size": P0}, search.cont_task(obj="sphere", minmax="min", seed=sd(), dim=2, lo=-5.0, hi=5.0))
            add("dim1", nm, {"max_cycles": 30, "population_size": P0}, search.cont_task(obj="shifted", minmax=mm(), seed=sd(), dim=1))
            add("thread-plateau", nm, {"max_cycles": 25, "population_size": P0}, search.cont_task(obj="deadzone", minmax="min", seed=sd(), dim=2), mode="thread", workers=3)
            if "binary" in works.get(nm, []):
                add("onemax", nm, {"max_cycles": 40, "population_size": P0}, {"vars": [("binary", 8)], "obj": "abs", "minmax": "max", "seed": sd()})
            if "perm" in works.get(nm, []):
                add("perm", nm, {"max_cycles": 40, "population_size": P0}, {"vars": [("perm", 5)], "obj": "linear", "minmax": mm(), "seed": sd()})
            add("pop-equals-dim", nm, {"max_cycles": 20, "population_size": P0}, search.cont_task(obj="sphere", minmax=mm(), seed=sd(), dim=P0 if P0 <= 12 else 12))
        # a fine grid of every float parameter x populations at the documented scale (1x, 1.5x, 2x, 3x): arithmetic on `fraction * population_size`
        # (int / floor / ceil / round of products that are exact integers, or one ulp short of one, at decimal-looking values)
        from . import validators
        grid = validators.param_grid(nm) if (grid_for is None or nm in grid_for) else []
        for mv in grid:
            for mult in (1, 1.5, 2, 3):
                add("param-grid", nm, {**mv, "max_cycles": 3, "population_size": int(P0 * mult)}, search.cont_task(obj="sphere", minmax="min", seed=r.randint(0, 10**6), dim=3))
    return out
