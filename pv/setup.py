"""setup_cmd: regenerate coq/gen from /repo and build the whole development (full .vo build)."""
import sys
from pathlib import Path
from . import coq, regen
from .driver import REPO


def main():
    with coq.build_lock():
        st = regen.regenerate(REPO)
        bad = {k: v for k, v in st.items() if v != "regenerated" and not str(v).startswith("ok")}
        if bad:
            print("not regenerated:", bad)
        hits = coq.forbidden_scan()
        if hits:
            print("FORBIDDEN constructs:", hits)
            return 1
        targets = [str(p.relative_to(coq.COQ)) + "o" for p in coq.all_sources()]
        ok, log = coq.make(targets, timeout=3000)
        print(log[-3000:])
        if ok:
            return 0
        # the static theories must build; a failing regenerated / bridged file is for the checks to report
        ok2, log2 = coq.make([t for t in targets if t.startswith("theories/")], timeout=3000)
        print("WARNING: not everything built; theories ok =", ok2)
        return 0 if ok2 else 1


if __name__ == "__main__":
    sys.exit(main())
