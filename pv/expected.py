"""gen/Expected.v: the pinned classification of the unchanged tree (expectations.json) and the known
non-conformances (known_findings.json), as Coq lists that bridge/AlgoBridge.v checks against gen/Algos.v."""
from __future__ import annotations
import json
from pathlib import Path

VERIF = Path(__file__).resolve().parent.parent


def load_expectations() -> dict:
    return json.loads((VERIF / "expectations.json").read_text())


def emit_expected() -> str:
    e = load_expectations()
    kf = json.loads((VERIF / "known_findings.json").read_text())["findings"]
    ls = lambda xs: "[" + "; ".join('"' + x + '"' for x in xs) + "]"
    known = {}
    for f in kf:
        if f.get("status") == "known" and f.get("skeleton_family"):
            known.setdefault(f["skeleton_family"], []).append(f["optimizer"])
    out = ["(* GENERATED from /verif/expectations.json and /verif/known_findings.json by pv/expected.py — do not edit. *)",
           "From Coq Require Import String List.", "Import ListNotations.", "Open Scope string_scope.", ""]
    for fam in ("prov", "config_writes", "stale", "entropy", "ctor_deref"):
        out.append(f"Definition known_{fam} : list string := {ls(sorted(set(known.get(fam, []))))}.")
    for key in ("exported", "elitist", "size_regular", "variable_by_design", "fitness_blind"):
        out.append(f"Definition pinned_{key} : list string := {ls(e[key])}.")
    return "\n".join(out) + "\n"
