"""C06's search half: the keyed failure census.  Runs REAL optimizers over generated valid problems and keys
every failure by (optimizer, exception type, raising pyvolutionary function).  Testing only."""
from __future__ import annotations

from . import search

CONT_OBJS = ["sphere", "rastrigin", "step", "linear", "shifted", "abs", "const"]


def cont_families(r):
    """(family name, task-spec builder) — all valid tasks over continuous variables"""
    def sym(dim, b): return [("contmulti", ([-b] * dim, [b] * dim))]
    fams = {
        "dim1": lambda: [("cont", (-r.choice([1.0, 10.0, 100.0]), r.choice([1.0, 10.0, 100.0])))],
        "dim1multi": lambda: [("contmulti", ([-5.0], [5.0]))],
        "dim2": lambda: sym(2, 10.0),
        "dim3": lambda: sym(3, 10.0),
        "dim6": lambda: sym(6, r.choice([1.0, 10.0])),
        "huge": lambda: sym(r.choice([2, 3]), 1e6),
        "tiny": lambda: sym(r.choice([2, 3]), 1e-6),
        "zero-lo": lambda: [("contmulti", ([0.0] * 3, [5.0] * 3))],
        "zero-hi": lambda: [("contmulti", ([-3.0] * 3, [0.0] * 3))],
        "offset": lambda: [("contmulti", ([100.0, 200.0], [101.0, 250.0]))],
        "mixcont": lambda: [("cont", (-1.0, 2.0)), ("contmulti", ([-4.0, 0.0], [4.0, 1.0])), ("cont", (5.0, 6.0))],
    }
    return fams


INT_ENCODINGS = {
    "disc1": lambda: [("disc", 5)],
    "disc3": lambda: [("disc", 4), ("disc", 3), ("disc", 6)],
    "discmulti": lambda: [("discmulti", [3, 4, 5])],
    "binary": lambda: [("binary", 5)],
    "perm": lambda: [("perm", 5)],
    "mixed": lambda: [("cont", (-2.0, 2.0)), ("disc", 4), ("binary", 2), ("contmulti", ([0.0, 0.0], [1.0, 3.0]))],
}

SCHED = [(1, 1), (2, 1.5), (3, 1), (5, 2), (10, 1)]          # (max_cycles, population multiple of the documented scale)


def key_of(o) -> tuple:
    e = o.get("error") or {}
    return (o["job"]["opt"], e.get("type", "?"), e.get("where", "?"))


def cont_jobs(r, names, per_opt: int, modes=True):
    fams = cont_families(r)
    fnames = sorted(fams)
    jobs = []
    for nm in names:
        P0 = search.fixture_scale(nm)["population_size"]
        picks = []
        # every family at least once over the schedule, the rest random
        for i in range(per_opt):
            fam = fnames[i % len(fnames)] if i < len(fnames) else r.choice(fnames)
            picks.append(fam)
        for i, fam in enumerate(picks):
            cyc, mult = SCHED[i % len(SCHED)] if i < 2 * len(SCHED) else r.choice(SCHED)
            cfg = {"max_cycles": cyc, "population_size": int(P0 * mult), "fitness_error": r.choice([None, None, 0.01, 1e-9])}
            if r.random() < 0.2:
                cfg["early_stopping"] = {"patience": r.choice([1, 2, 5]), "min_delta": r.choice([1e-3, 1e-1])}
            t = {"vars": fams[fam](), "obj": r.choice(CONT_OBJS), "minmax": r.choice(["min", "max"]), "seed": r.randint(0, 10**6)}
            j = {"opt": nm, "cfg": cfg, "task": t, "family": fam}
            if modes and r.random() < 0.12:
                j["mode"] = r.choice(["thread", "process"]); j["workers"] = r.choice([1, 2, 4])
            jobs.append(j)
        # population sizes at and above the documented scale that are NOT round multiples of it
        for off in ([1, 3] if per_opt < 10 else [1, 3, 7, 11, P0 + 1, 2 * P0 - 1]):
            jobs.append({"opt": nm, "family": "odd-size", "cfg": {"max_cycles": r.choice([2, 5]), "population_size": P0 + off, "fitness_error": None},
                         "task": {"vars": fams["dim3"](), "obj": r.choice(["sphere", "rastrigin"]), "minmax": r.choice(["min", "max"]), "seed": r.randint(0, 10**6)}})
        # more workers than agents to create, in both pooled modes (sampled: a pool of 16 processes per run is slow)
        if nm in names[:2] or r.random() < (0.05 if per_opt < 10 else 0.5):
            for mode in ("process", "thread"):
                jobs.append({"opt": nm, "family": "many-workers", "mode": mode, "workers": P0 + 4, "cfg": {"max_cycles": 2, "population_size": P0, "fitness_error": None},
                             "task": {"vars": fams["dim3"](), "obj": "sphere", "minmax": r.choice(["min", "max"]), "seed": r.randint(0, 10**6)}})
        # an enormous cycle budget that a generous fitness_error ends after one cycle, and a narrow box far from the origin
        jobs.append({"opt": nm, "family": "huge-budget", "cfg": {"max_cycles": r.choice([100000, 1000000]), "population_size": P0, "fitness_error": 1e9},
                     "task": {"vars": fams["dim3"](), "obj": "sphere", "minmax": r.choice(["min", "max"]), "seed": r.randint(0, 10**6)}})
        # the optional stop options left as None (accepted by the validators): the run must complete
        if nm in names[:3] or r.random() < 0.05:
            jobs.append({"opt": nm, "family": "none-stop-options", "cfg": {"max_cycles": 3, "population_size": P0, "fitness_error": None,
                                                                          "early_stopping": r.choice([{"patience": None, "min_delta": 0.01}, {"patience": 2, "min_delta": None}, {"patience": None, "min_delta": None}])},
                         "task": {"vars": fams["dim3"](), "obj": "sphere", "minmax": "min", "seed": r.randint(0, 10**6)}})
        # multi-objective (weights), both directions
        for mm in (["min", "max"] if per_opt >= 4 else [r.choice(["min", "max"])]):
            jobs.append({"opt": nm, "family": "multiobj", "cfg": {"max_cycles": r.choice([1, 3]), "population_size": P0, "fitness_error": None},
                         "task": {"vars": [("multiobj", ([-5.0] * 3, [5.0] * 3))], "obj": "multi2", "minmax": mm, "weights": [0.4, 0.6], "seed": r.randint(0, 10**6)}})
    return jobs


def int_jobs(r, names, per_pair: int):
    jobs = []
    for nm in names:
        P0 = search.fixture_scale(nm)["population_size"]
        for enc in sorted(INT_ENCODINGS):
            for i in range(per_pair):
                cyc, mult = SCHED[(i + 1) % len(SCHED)]
                jobs.append({"opt": nm, "family": enc, "encoding": enc,
                             "cfg": {"max_cycles": cyc, "population_size": int(P0 * mult), "fitness_error": None},
                             "task": {"vars": INT_ENCODINGS[enc](), "obj": r.choice(["sphere", "linear", "abs"]), "minmax": r.choice(["min", "max"]),
                                      "seed": r.randint(0, 10**6)}})
    return jobs


def result_problems(o) -> list[str]:
    """a run that returned: is the OptimizationResult complete?"""
    out = []
    if not o["evolution"] or any(len(g) == 0 for g in o["evolution"]): out.append("an empty generation / empty evolution")
    if o["best"] is None: out.append("best_solution is None")
    if len(o["rates"]) + 1 != len(o["evolution"]): out.append(f"{len(o['rates'])} rates for {len(o['evolution'])} generations")
    if len(o["rates"]) > o["job"]["cfg"]["max_cycles"]: out.append("more cycles than max_cycles")
    return out
