"""T-core: fail-closed translator Python `ast` -> Gallina for the framework's small functions.

Only a fixed, small expression / statement language is understood (DESIGN.md §5.1).  Anything
outside it raises Unsupported: the function is then not emitted, its bridge lemma cannot be stated
and the dependent property check goes to its search fall-back.  Types are tracked so that `<` on
costs becomes [xltb], `<` on naturals [Nat.ltb], `==` on directions [dir_eqb], etc.
"""
from __future__ import annotations
import ast
import re
from dataclasses import dataclass, field
from pathlib import Path


class Unsupported(Exception):
    pass


# ---- types -------------------------------------------------------------------------------------
NAT, X, F, BOOL, AGENT, DIR, INTLIT, UNIT, ZT = "nat", "xnum", "F", "bool", "A", "dir", "intlit", "unit", "Z"
def OPT(t): return ("option", t)
def RES(t): return ("result", t)          # a computation that may raise: rendered as option, bound monadically
def LIST(t): return ("list", t)
def TUP(*ts): return ("tuple",) + tuple(ts)
def DICT(k, v): return ("dict", k, v)     # a Python dict in insertion order: an association list updated with PyLib.dict_set (keys are naturals)


def coqty(t) -> str:
    if isinstance(t, tuple):
        if t[0] in ("option", "result"): return f"(option {coqty(t[1])})"
        if t[0] == "list": return f"(list {coqty(t[1])})"
        if t[0] == "tuple": return "(" + " * ".join(coqty(x) for x in t[1:]) + ")"
        if t[0] == "dict": return f"(list ({coqty(t[1])} * {coqty(t[2])}))"
    return {"intlit": "nat"}.get(t, t)


@dataclass
class Spec:
    out: str                       # Coq name of the generated definition
    module: str                    # file under pyvolutionary/
    cls: str | None
    func: str
    params: list                   # [(python name, coq name, type)] ; python name may be dotted (self._x)
    ret: object
    fallible: bool = False         # raise / failed unpack  ->  option
    state: str | None = None       # dotted python name of the mutable state the function updates and "returns"
    attrs: dict = field(default_factory=dict)
    skip_params: tuple = ("self",)
    floats: dict = field(default_factory=dict)     # float ops table for type F: fsub, fabs, ...


def dotted(n):
    if isinstance(n, ast.Name): return n.id
    if isinstance(n, ast.Attribute):
        b = dotted(n.value); return None if b is None else b + "." + n.attr
    return None


class Translator:
    def __init__(self, repo: Path, specs: list[Spec]):
        self.repo = repo
        self.specs = {(s.module, s.cls, s.func): s for s in specs}
        self.by_call: dict[str, Spec] = {}
        for s in specs:
            self.by_call[s.func if s.cls is None else f"{s.cls}::self." + s.func] = s
        self.trees: dict[str, ast.Module] = {}
        self.fresh = 0
        self.mutates_param = False

    # -- source access -------------------------------------------------------------------------
    def tree(self, module: str) -> ast.Module:
        if module not in self.trees:
            self.trees[module] = ast.parse((self.repo / "pyvolutionary" / module).read_text())
        return self.trees[module]

    def find(self, module, cls, fn) -> ast.FunctionDef:
        if ">" in fn:                                  # nested function: outer>inner
            outer, inner = fn.split(">", 1)
            for m in self.find(module, cls, outer).body:
                if isinstance(m, ast.FunctionDef) and m.name == inner: return m
            raise Unsupported(f"{module}:{cls}.{fn} not found")
        for n in self.tree(module).body:
            if cls is None and isinstance(n, ast.FunctionDef) and n.name == fn: return n
            if isinstance(n, ast.ClassDef) and n.name == cls:
                for m in n.body:
                    if isinstance(m, ast.FunctionDef) and m.name == fn: return m
        raise Unsupported(f"{module}:{cls}.{fn} not found")

    def gensym(self, base):
        self.fresh += 1; return f"{base}_v{self.fresh}"

    # -- entry ---------------------------------------------------------------------------------
    def translate(self, spec: Spec) -> str:
        fn = self.find(spec.module, spec.cls, spec.func)
        self.spec = spec
        self.fresh = 0
        self.mutates_param = False
        env = dict(CONSTS)
        owned = set()
        for py, cq, ty in spec.params:
            env[py] = (cq, ty)
        # every python parameter must be accounted for (a new parameter changes the meaning)
        pyparams = [a.arg for a in fn.args.args if a.arg not in spec.skip_params]
        declared = [p for p, _, _ in spec.params if "." not in p and not p.endswith("!")]
        if spec.attrs.get("extract_assign"): pyparams = declared
        if pyparams != declared:
            raise Unsupported(f"{spec.func}: parameters {pyparams} != expected {declared}")
        if (fn.args.vararg or fn.args.kwarg or fn.args.kwonlyargs) and not spec.attrs.get("extract_assign") and not spec.attrs.get("allow_kwargs"):
            raise Unsupported("varargs")
        self.owned = owned
        if spec.attrs.get("extract_assign"):
            # only ONE assignment of the function is given a meaning: `<target> = <expr>`; locals assigned before it by `name = kwargs.get('name')` are the parameters
            tgt = spec.attrs["extract_assign"]
            hits = [st for st in fn.body if isinstance(st, ast.Assign) and len(st.targets) == 1 and ast.unparse(st.targets[0]) == tgt]
            if len(hits) != 1: raise Unsupported(f"{spec.func}: expected exactly one assignment to {tgt}")
            before = fn.body[:fn.body.index(hits[0])]
            if "stmts_before" in spec.attrs:         # pinned: exactly these statements (docstrings apart) precede the assignment, in this order
                got = [" ".join(ast.unparse(st).split()) for st in before if not (isinstance(st, ast.Expr) and isinstance(st.value, ast.Constant))]
                if got != list(spec.attrs["stmts_before"]): raise Unsupported(f"{spec.func}: statements before {tgt} changed: {got}")
                before = []
            for st in before:
                ok = isinstance(st, ast.Expr) and isinstance(st.value, ast.Constant) or (
                    isinstance(st, ast.Assign) and len(st.targets) == 1 and isinstance(st.targets[0], ast.Name)
                    and ast.unparse(st.value) == f"kwargs.get('{st.targets[0].id}')" and st.targets[0].id in env) or (
                    # an earlier field of the same object, declared as a parameter of this spec: its own meaning is given by its own spec, this one reads its NEW value
                    isinstance(st, ast.Assign) and len(st.targets) == 1 and ast.unparse(st.targets[0]) in spec.attrs.get("assigned_before", ()))
                if not ok: raise Unsupported(f"{spec.func}: unexpected statement before {tgt}: {ast.unparse(st)[:50]}")
            if "only_after" in spec.attrs:           # strict: nothing but the listed statements may follow (a later in-place edit of the field would change its meaning)
                after = [" ".join(ast.unparse(st).split()) for st in fn.body[fn.body.index(hits[0]) + 1:]]
                allowed = spec.attrs["only_after"]
                bad = [a_ for a_ in after if not any(a_ == w or (w.endswith("=") and a_.startswith(w)) for w in allowed)]
                if bad: raise Unsupported(f"{spec.func}: unexpected statement after {tgt}: {bad[0][:50]}")
            t, ty = self.tr(hits[0].value, env)
            if not self.compatible(ty, spec.ret): raise Unsupported(f"{spec.func}: {tgt} has type {ty}, expected {spec.ret}")
            ps = " ".join(f"({cq} : {coqty(tt)})" for _, cq, tt in spec.params)
            return f"Definition {spec.out} {ps} : {coqty(spec.ret)} :=\n  {t}."
        body, ty = self.tr_body(list(fn.body), env)
        rty = RES(spec.ret) if spec.fallible else spec.ret
        if not self.compatible(ty, rty):
            raise Unsupported(f"{spec.func}: returns {ty}, expected {rty}")
        ps = " ".join(f"({cq} : {coqty(t)})" for _, cq, t in spec.params)
        return f"Definition {spec.out} {ps} : {coqty(rty)} :=\n  {body}."

    @staticmethod
    def compatible(a, b):
        if a == b: return True
        if a == INTLIT and b == NAT: return True
        if isinstance(a, tuple) and isinstance(b, tuple) and a[0] == b[0] and len(a) == len(b):
            return all(Translator.compatible(x, y) or x is None for x, y in zip(a[1:], b[1:]))
        return False

    def signature_defaults(self, spec: Spec):
        fn = self.find(spec.module, spec.cls, spec.func)
        args = [a.arg for a in fn.args.args if a.arg not in spec.skip_params]
        defaults = [None] * (len(args) - len(fn.args.defaults)) + list(fn.args.defaults)
        return args, dict(zip(args, defaults))

    # -- expressions ---------------------------------------------------------------------------
    def tr(self, n, env):
        sp = self.spec
        idi = sp.attrs.get("idioms")
        if idi:
            key = " ".join(ast.unparse(n).split())
            if key in idi:
                tmpl, ty = idi[key]
                names = {nm: (env[nm][0] if nm in env else None) for nm in _names_in(tmpl)}
                if any(v is None for v in names.values()): raise Unsupported(f"idiom {key[:40]}: unbound name")
                return (_fill(tmpl, names), ty)
        if isinstance(n, ast.Name):
            if n.id in env: return env[n.id]
            if n.id == "self" and "self_value" in sp.attrs: return sp.attrs["self_value"]
            raise Unsupported(f"name {n.id}")
        if isinstance(n, ast.Attribute):
            d = dotted(n)
            if d in env: return env[d]
            if d in sp.attrs: return sp.attrs[d]
            if d:
                head, _, attr = d.rpartition(".")
                if head in env and (env[head][1], attr) in sp.attrs:
                    txt, ty = sp.attrs[(env[head][1], attr)]
                    return (f"({txt} {env[head][0]})", ty)
            raise Unsupported(f"attr {ast.unparse(n)}")
        if isinstance(n, ast.Constant):
            if n.value is None: return ("None", OPT(None))
            if isinstance(n.value, bool): return ("true" if n.value else "false", BOOL)
            if isinstance(n.value, str) and n.value in sp.attrs.get("str_consts", {}): return sp.attrs["str_consts"][n.value]
            if isinstance(n.value, int) and sp.attrs.get("len_as_Z"): return (f"({n.value})%Z", ZT)
            if isinstance(n.value, int) and n.value >= 0: return (str(n.value), INTLIT)
            raise Unsupported(f"const {n.value!r}")
        if isinstance(n, ast.List) and not n.elts:
            return ("[]", ("fresh",) + LIST(None))            # a list created here is owned by the function: mutating it is not a mutation of a caller's list
        if isinstance(n, ast.Dict) and not n.keys:
            return ("[]", DICT(None, None))
        if isinstance(n, ast.UnaryOp) and isinstance(n.op, ast.Not):
            t, ty = self.tr(n.operand, env); self.need(ty, BOOL); return (f"(negb {t})", BOOL)
        if isinstance(n, ast.UnaryOp) and isinstance(n.op, ast.USub):
            t, ty = self.tr(n.operand, env)
            if ty == X: return (f"(xneg {t})", X)
            if ty == F: return (f"({sp.floats['opp']} {t})", F)
            raise Unsupported(f"usub at {ty}")
        if isinstance(n, ast.BoolOp):
            parts = [self.tr(v, env) for v in n.values]
            for _, ty in parts: self.need(ty, BOOL)
            op = "andb" if isinstance(n.op, ast.And) else "orb"
            txt = parts[0][0]
            for p, _ in parts[1:]: txt = f"({op} {txt} {p})"
            return (txt, BOOL)
        if isinstance(n, ast.BinOp):
            a, ta = self.tr(n.left, env); b, tb = self.tr(n.right, env)
            a, b, ty = self.unify(a, ta, b, tb)
            fo = sp.floats
            if ty == F:
                m = {ast.Sub: "sub", ast.Add: "add", ast.Div: "div", ast.Mult: "mul"}
                if type(n.op) in m and m[type(n.op)] in fo: return (f"({fo[m[type(n.op)]]} {a} {b})", F)
            if ty == ZT and isinstance(n.op, ast.Sub): return (f"({a} - {b})%Z", ZT)
            if ty == ZT and isinstance(n.op, ast.Add): return (f"({a} + {b})%Z", ZT)
            if ty == NAT and isinstance(n.op, ast.Sub): return (f"({a} - {b})", NAT)     # truncated: see DESIGN §8
            if ty == NAT and isinstance(n.op, ast.Add): return (f"({a} + {b})", NAT)
            if ty == NAT and isinstance(n.op, ast.Mult): return (f"({a} * {b})", NAT)
            if ty == NAT and isinstance(n.op, ast.Mod): return (f"(Nat.modulo {a} {b})", NAT)
            raise Unsupported(f"binop {ast.unparse(n)} at {ty}")
        if isinstance(n, ast.Compare) and len(n.ops) == 1:
            op = n.ops[0]; rhs = n.comparators[0]
            if isinstance(op, (ast.Is, ast.IsNot)) and isinstance(rhs, ast.Constant) and rhs.value is None:
                a, ta = self.tr(n.left, env)
                if not (isinstance(ta, tuple) and ta[0] == "option"): raise Unsupported("is None on non-option")
                return (f"(is_some {a})" if isinstance(op, ast.IsNot) else f"(negb (is_some {a}))", BOOL)
            if isinstance(op, (ast.In, ast.NotIn)) and isinstance(rhs, ast.Call) and isinstance(rhs.func, ast.Attribute) and rhs.func.attr == "values" \
                    and not rhs.args and not rhs.keywords:
                dct, td = self.tr(rhs.func.value, env)
                a, ta = self.tr(n.left, env)
                if isinstance(td, tuple) and td[0] == "dict" and td[2] == NAT and ta in (NAT, INTLIT):
                    t = f"(existsb (Nat.eqb {a}) (map snd {dct}))"
                    return (t if isinstance(op, ast.In) else f"(negb {t})", BOOL)
                raise Unsupported(f"membership in values() at {td} / {ta}")
            a, ta = self.tr(n.left, env); b, tb = self.tr(rhs, env)
            a, b, ty = self.unify(a, ta, b, tb)
            if ty == X:
                m = {ast.Lt: f"(xltb {a} {b})", ast.LtE: f"(xleb {a} {b})", ast.Gt: f"(xltb {b} {a})",
                     ast.GtE: f"(xleb {b} {a})", ast.Eq: f"(xeqb {a} {b})"}
            elif ty == F:
                fo = sp.floats
                m = {ast.Lt: f"({fo['ltb']} {a} {b})", ast.LtE: f"({fo['leb']} {a} {b})",
                     ast.Gt: f"({fo['ltb']} {b} {a})", ast.GtE: f"({fo['leb']} {b} {a})"}
            elif ty == NAT:
                m = {ast.Lt: f"(Nat.ltb {a} {b})", ast.LtE: f"(Nat.leb {a} {b})", ast.Gt: f"(Nat.ltb {b} {a})",
                     ast.GtE: f"(Nat.leb {b} {a})", ast.Eq: f"(Nat.eqb {a} {b})", ast.NotEq: f"(negb (Nat.eqb {a} {b}))"}
            elif ty == ZT:
                m = {ast.Lt: f"(Z.ltb {a} {b})", ast.LtE: f"(Z.leb {a} {b})", ast.Gt: f"(Z.ltb {b} {a})",
                     ast.GtE: f"(Z.leb {b} {a})", ast.Eq: f"(Z.eqb {a} {b})"}
            elif ty == DIR:
                m = {ast.Eq: f"(dir_eqb {a} {b})", ast.NotEq: f"(negb (dir_eqb {a} {b}))"}
            elif ty == "mode":
                m = {ast.Eq: f"(mode_eqb {a} {b})", ast.NotEq: f"(negb (mode_eqb {a} {b}))"}
            else:
                raise Unsupported(f"compare at {ty}")
            if type(op) not in m: raise Unsupported(f"cmp {ast.unparse(n)}")
            return (m[type(op)], BOOL)
        if isinstance(n, ast.IfExp) and isinstance(n.body, ast.Subscript) and ast.unparse(n.body.slice) == "-1" \
                and ast.unparse(n.test) == f"len({ast.unparse(n.body.value)}) > 0":
            v, tv = self.tr(n.body.value, env)
            if isinstance(tv, tuple) and tv[0] == "list":
                d, td = self.tr(n.orelse, env)
                if td == INTLIT and tv[1] == F: d, td = self.flit(d), F
                self.need(td, tv[1])
                return (f"(last {v} {d})", tv[1])
        if isinstance(n, ast.IfExp):
            c, tc = self.tr(n.test, env); self.need(tc, BOOL)
            a, ta = self.tr(n.body, env); b, tb = self.tr(n.orelse, env)
            isres = lambda t: isinstance(t, tuple) and t[0] == "result"
            if isres(ta) and not isres(tb) and self.compatible(tb, ta[1]): b, tb = f"(Some {b})", ta          # one branch may raise (IndexError ...), the other is a value
            elif isres(tb) and not isres(ta) and self.compatible(ta, tb[1]): a, ta = f"(Some {a})", tb
            a, b, ty = self.unify(a, ta, b, tb)
            return (f"(if {c} then {a} else {b})", ty)
        if isinstance(n, ast.Subscript):
            return self.tr_subscript(n, env)
        if isinstance(n, ast.ListComp):
            return self.tr_listcomp(n, env)
        if isinstance(n, ast.DictComp) and len(n.generators) == 1 and not n.generators[0].ifs and not n.generators[0].is_async:
            # {k: i for i, k in enumerate(E)} over label keys: a fold of ldict_set in iteration order (a repeated key overwrites in place), compared with the section's eqb
            g = n.generators[0]
            if isinstance(g.iter, ast.Call) and ast.unparse(g.iter.func) == "enumerate" and len(g.iter.args) == 1 and isinstance(g.target, ast.Tuple) \
                    and len(g.target.elts) == 2 and all(isinstance(e, ast.Name) for e in g.target.elts) \
                    and isinstance(n.key, ast.Name) and isinstance(n.value, ast.Name) and n.key.id == g.target.elts[1].id and n.value.id == g.target.elts[0].id \
                    and "label_eqb" in sp.attrs:
                L, tL = self.tr(g.iter.args[0], env)
                if isinstance(tL, tuple) and tL[0] == "list" and tL[1] == sp.attrs["label_eqb"][1]:
                    eqb = sp.attrs["label_eqb"][0]
                    return (f"(fold_left (fun d_ p_ => ldict_set {tL[1]} {eqb} (snd p_) (fst p_) d_) (combine (seq 0 (length {L})) {L}) [])", DICT(tL[1], NAT))
            raise Unsupported(f"dict comprehension {ast.unparse(n)[:60]}")
        if isinstance(n, ast.Tuple):
            parts = [self.tr(e, env) for e in n.elts]
            unfresh = lambda t: t[1:] if isinstance(t, tuple) and t and t[0] == "fresh" else t
            return ("(" + ", ".join(p for p, _ in parts) + ")", TUP(*[unfresh(t) for _, t in parts]))
        if isinstance(n, ast.Call):
            return self.tr_call(n, env)
        raise Unsupported(f"expr {type(n).__name__}: {ast.unparse(n)[:60]}")

    def need(self, ty, want):
        if not self.compatible(ty, want): raise Unsupported(f"type {ty}, wanted {want}")

    def unify(self, a, ta, b, tb):
        sp = self.spec
        if ta == INTLIT and tb == F: return (self.flit(a), b, F)
        if tb == INTLIT and ta == F: return (a, self.flit(b), F)
        if ta == INTLIT and tb == X: return (f"(xint {a})", b, X)
        if tb == INTLIT and ta == X: return (a, f"(xint {b})", X)
        if ta == INTLIT and tb == ZT: return (f"({a})%Z", b, ZT)
        if tb == INTLIT and ta == ZT: return (a, f"({b})%Z", ZT)
        if ta == INTLIT and tb in (NAT, INTLIT): return (a, b, NAT)
        if tb == INTLIT and ta == NAT: return (a, b, NAT)
        if ta == tb: return (a, b, ta)
        if isinstance(ta, tuple) and isinstance(tb, tuple) and ta[0] == tb[0] == "list":
            if ta[1] is None: return (a, b, tb)
            if tb[1] is None: return (a, b, ta)
        if isinstance(ta, tuple) and isinstance(tb, tuple) and ta[0] == tb[0] == "option":
            if ta[1] is None: return (a, b, tb)
            if tb[1] is None: return (a, b, ta)
        raise Unsupported(f"unify {ta} {tb}")

    def flit(self, a):
        fo = self.spec.floats
        if a == "0" and "zero" in fo: return fo["zero"]
        if a == "1" and "one" in fo: return fo["one"]
        raise Unsupported(f"float literal {a}")

    def tr_subscript(self, n, env):
        v, tv = self.tr(n.value, env)
        sl = n.slice
        if isinstance(tv, tuple) and tv[0] == "list":
            if isinstance(sl, ast.Slice):
                lo, hi, st = sl.lower, sl.upper, sl.step
                for b_ in (lo, hi):
                    # a bound that is a DIFFERENCE may be negative, and a negative bound wraps around in Python (l[c - p:] with c < p is l[-(p - c):]); the natural-number
                    # model truncates it to 0 - not the same list.  Only `-e` (handled below as lastn) and differences of the form `len(l) - e` ... are given a meaning.
                    def _len_minus(x_):        # len(<list>) - e : non-negative under the theorems' own hypothesis e <= size (C16: 0 <= n <= size)
                        return isinstance(x_, ast.BinOp) and isinstance(x_.op, ast.Sub) and isinstance(x_.left, ast.Call) and ast.unparse(x_.left.func) == "len"
                    if b_ is not None and not (isinstance(b_, ast.UnaryOp) and isinstance(b_.op, ast.USub)) \
                            and any(isinstance(x_, ast.BinOp) and isinstance(x_.op, ast.Sub) and not _len_minus(x_) for x_ in ast.walk(b_)):
                        raise Unsupported(f"slice bound with a subtraction: {ast.unparse(b_)[:40]}")
                if st is not None:
                    if lo is None and hi is None and ast.unparse(st) == "-1": return (f"(rev {v})", tv)   # l[::-1]
                    raise Unsupported("slice step")
                if lo is None and hi is not None:
                    h, th = self.tr(hi, env); self.need(th, NAT); return (f"(firstn {h} {v})", tv)        # l[:n]
                if hi is None and isinstance(lo, ast.UnaryOp) and isinstance(lo.op, ast.USub):
                    k, tk = self.tr(lo.operand, env); self.need(tk, NAT); return (f"(lastn {k} {v})", tv)  # l[-p:]
                if hi is None and lo is not None:
                    k, tk = self.tr(lo, env); self.need(tk, NAT); return (f"(skipn {k} {v})", tv)          # l[k:]
                if lo is not None and hi is not None:
                    k, tk = self.tr(lo, env); h, th = self.tr(hi, env); self.need(tk, NAT); self.need(th, NAT)
                    return (f"(firstn ({h} - {k}) (skipn {k} {v}))", tv)                                  # l[k:h]
            if ast.unparse(sl) == "-1":
                return (f"(last_opt {v})", OPT(tv[1]))
            if isinstance(sl, ast.Call) and ast.unparse(sl.func) == "int":
                k, tk = self.tr(sl, env)                 # option Z
                return (f"(obind {k} (py_getitem {v}))", RES(tv[1]))
            if isinstance(sl, ast.Constant) and isinstance(sl.value, int) and sl.value >= 0:
                return (f"(nth_error {v} {sl.value})", OPT(tv[1]))
            if isinstance(sl, ast.Name) and sl.id in env and env[sl.id][1] == NAT:            # l[i], i a natural number: IndexError beyond
                return (f"(nth_error {v} {env[sl.id][0]})", RES(tv[1]))
        if isinstance(tv, tuple) and tv[0] == "dict" and tv[2] == NAT and "label_eqb" in self.spec.attrs and tv[1] == self.spec.attrs["label_eqb"][1] \
                and isinstance(sl, ast.Name) and sl.id in env and env[sl.id][1] == tv[1]:                      # D[label]: KeyError when missing
            return (f"(ldict_get {tv[1]} {self.spec.attrs['label_eqb'][0]} {env[sl.id][0]} {v})", RES(NAT))
        if isinstance(tv, tuple) and tv[0] == "result" and isinstance(tv[1], tuple) and tv[1][0] == "list" \
                and isinstance(sl, ast.Name) and sl.id in env and env[sl.id][1] == NAT:           # l[i][j]
            return (f"(obind {v} (fun r_ => nth_error r_ {env[sl.id][0]}))", RES(tv[1][1]))
        raise Unsupported(f"subscript {ast.unparse(n)}")

    def tr_listcomp(self, n, env):
        if len(n.generators) == 2 and not any(g.ifs or g.is_async for g in n.generators) and all(isinstance(g.target, ast.Name) for g in n.generators):
            # [E for v in L for item in M(v)]  ->  flat_map (fun v => map (fun item => E) M(v)) L
            g1, g2 = n.generators
            L, tL = self.tr(g1.iter, env)
            if isinstance(tL, tuple) and tL and tL[0] == "fresh": tL = tL[1:]
            if not (isinstance(tL, tuple) and tL[0] == "list"): raise Unsupported("comprehension over non-list")
            env1 = dict(env); env1[g1.target.id] = (g1.target.id, tL[1])
            M, tM = self.tr(g2.iter, env1)
            if not (isinstance(tM, tuple) and tM[0] == "list"): raise Unsupported("inner comprehension over non-list")
            env2 = dict(env1); env2[g2.target.id] = (g2.target.id, tM[1])
            body, tb = self.tr(n.elt, env2)
            return (f"(flat_map (fun {g1.target.id} => map (fun {g2.target.id} => {body}) {M}) {L})", LIST(tb))
        if len(n.generators) != 1 or n.generators[0].ifs or n.generators[0].is_async:
            raise Unsupported("comprehension shape")
        g = n.generators[0]
        # [E for idx, a in enumerate(L)] where E mentions M[idx]
        if isinstance(g.iter, ast.Call) and ast.unparse(g.iter.func) == "enumerate" and len(g.iter.args) == 1 \
                and isinstance(g.target, ast.Tuple) and len(g.target.elts) == 2 \
                and all(isinstance(e, ast.Name) for e in g.target.elts):
            idx, var = g.target.elts[0].id, g.target.elts[1].id
            L, tL = self.tr(g.iter.args[0], env)
            if not (isinstance(tL, tuple) and tL[0] == "list"): raise Unsupported("enumerate over non-list")
            subs = [s for s in ast.walk(n.elt) if isinstance(s, ast.Subscript) and isinstance(s.slice, ast.Name) and s.slice.id == idx]
            uses_idx = [s for s in ast.walk(n.elt) if isinstance(s, ast.Name) and s.id == idx]
            if len(subs) != 1 or len(uses_idx) != 1:
                raise Unsupported("enumerate comprehension must use M[idx] exactly once")
            M, tM = self.tr(subs[0].value, env)
            if not (isinstance(tM, tuple) and tM[0] == "list"): raise Unsupported("M[idx] on non-list")
            other = self.gensym("m")
            env2 = dict(env); env2[var] = (var, tL[1]); env2[other] = (other, tM[1])
            elt = _Replace(subs[0], ast.Name(id=other, ctx=ast.Load())).visit(_clone(n.elt))
            body, tb = self.tr(elt, env2)
            if isinstance(tb, tuple) and tb[0] in ("result", "option"):        # E itself may raise: the first failure is the failure of the comprehension
                return (f"(obind (py_enum_zip (fun {var} {other} => {body}) {L} {M}) sequence)", RES(LIST(tb[1])))
            return (f"(py_enum_zip (fun {var} {other} => {body}) {L} {M})", RES(LIST(tb)))
        # [E for i, (a, b) in enumerate(zip(L1, L2))] where the translated E does not depend on i (i only names the child)
        if isinstance(g.iter, ast.Call) and ast.unparse(g.iter.func) == "enumerate" and len(g.iter.args) == 1 \
                and isinstance(g.target, ast.Tuple) and len(g.target.elts) == 2 and isinstance(g.target.elts[0], ast.Name) \
                and isinstance(g.target.elts[1], ast.Tuple) and len(g.target.elts[1].elts) == 2 and all(isinstance(e, ast.Name) for e in g.target.elts[1].elts) \
                and isinstance(g.iter.args[0], ast.Call) and ast.unparse(g.iter.args[0].func) == "zip" and len(g.iter.args[0].args) == 2 and not g.iter.args[0].keywords:
            z = g.iter.args[0]
            (L1, t1), (L2, t2) = self.tr(z.args[0], env), self.tr(z.args[1], env)
            if not all(isinstance(t, tuple) and t[0] == "list" for t in (t1, t2)): raise Unsupported("zip of non-lists")
            i = g.target.elts[0].id; a, b = (e.id for e in g.target.elts[1].elts)
            iv = self.gensym("unused_index")
            env2 = dict(env); env2[i] = (iv, NAT); env2[a] = (a, t1[1]); env2[b] = (b, t2[1])
            body, tb = self.tr(n.elt, env2)
            if iv in body: raise Unsupported("enumerate(zip): the element depends on the index")
            if isinstance(tb, tuple) and tb[0] in ("option", "result"): raise Unsupported("enumerate(zip): failing element")
            return (f"(map (fun p_ => let '({a}, {b}) := p_ in {body}) (zip {L1} {L2}))", LIST(tb))
        # [E for a, b in L], L a list of pairs ( `_` allowed )
        if isinstance(g.target, ast.Tuple) and len(g.target.elts) == 2 and all(isinstance(e, ast.Name) for e in g.target.elts) \
                and not (isinstance(g.iter, ast.Call) and ast.unparse(g.iter.func) in ("zip", "enumerate")):
            L, tL = self.tr(g.iter, env)
            if isinstance(tL, tuple) and tL and tL[0] == "fresh": tL = tL[1:]
            if not (isinstance(tL, tuple) and tL[0] == "list" and isinstance(tL[1], tuple) and tL[1][0] == "tuple" and len(tL[1]) == 3):
                raise Unsupported("pair comprehension over a non-list-of-pairs")
            names = [e.id if e.id != "_" else self.gensym("w") for e in g.target.elts]
            env2 = dict(env)
            for e, nm, t in zip(g.target.elts, names, tL[1][1:]):
                if e.id != "_": env2[e.id] = (nm, t)
            body, tb = self.tr(n.elt, env2)
            if isinstance(tb, tuple) and tb[0] in ("option", "result"): raise Unsupported("pair comprehension: failing element")
            return (f"(map (fun p_ => let '({names[0]}, {names[1]}) := p_ in {body}) {L})", LIST(tb))
        if isinstance(g.target, ast.Tuple) and len(g.target.elts) == 2 and all(isinstance(e, ast.Name) for e in g.target.elts) \
                and isinstance(g.iter, ast.Call) and ast.unparse(g.iter.func) == "zip" and len(g.iter.args) == 2 and not g.iter.keywords:
            (L1, t1), (L2, t2) = self.tr(g.iter.args[0], env), self.tr(g.iter.args[1], env)
            if not all(isinstance(t, tuple) and t[0] == "list" for t in (t1, t2)): raise Unsupported("zip of non-lists")
            a, b = g.target.elts[0].id, g.target.elts[1].id
            env2 = dict(env); env2[a] = (a, t1[1]); env2[b] = (b, t2[1])
            body, tb = self.tr(n.elt, env2)
            fn = f"(fun p_ => let '({a}, {b}) := p_ in {body})"
            if isinstance(tb, tuple) and tb[0] in ("option", "result"):
                return (f"(map_opt {fn} (zip {L1} {L2}))", RES(LIST(tb[1])))
            return (f"(map {fn} (zip {L1} {L2}))", LIST(tb))
        if isinstance(g.target, ast.Name) and isinstance(g.iter, ast.Call) and ast.unparse(g.iter.func) == "range" and not g.iter.keywords \
                and (len(g.iter.args) == 1 or (len(g.iter.args) == 2 and ast.unparse(g.iter.args[0]) == "0")):
            nn, tn = self.tr(g.iter.args[-1], env); self.need(tn, NAT)
            v = g.target.id if g.target.id != "_" else "i_"
            env2 = dict(env); env2[g.target.id] = (v, NAT)
            body, tb = self.tr(n.elt, env2)
            if isinstance(tb, tuple) and tb[0] == "result":
                return (f"(map_opt (fun {v} => {body}) (seq 0 {nn}))", RES(LIST(tb[1])))
            return (f"(map (fun {v} => {body}) (seq 0 {nn}))", LIST(tb))
        if isinstance(g.target, ast.Name):
            L, tL = self.tr(g.iter, env)
            if not (isinstance(tL, tuple) and tL[0] == "list"): raise Unsupported("comprehension over non-list")
            env2 = dict(env); env2[g.target.id] = (g.target.id, tL[1])
            body, tb = self.tr(n.elt, env2)
            if isinstance(tb, tuple) and tb[0] == "result":
                return (f"(map_opt (fun {g.target.id} => {body}) {L})", RES(LIST(tb[1])))
            return (f"(map (fun {g.target.id} => {body}) {L})", LIST(tb))
        raise Unsupported(f"comprehension {ast.unparse(n)[:60]}")

    def tr_call(self, n, env):
        sp = self.spec
        f = ast.unparse(n.func)
        if f == "all" and len(n.args) == 1 and isinstance(n.args[0], ast.ListComp):
            t, ty = self.tr(n.args[0], env)
            if ty == LIST(BOOL) and t.startswith("(map "):
                return ("(forallb " + t[len("(map "):], BOOL)
            raise Unsupported("all(...)")
        if f == "np.any" and len(n.args) == 1 and not n.keywords and isinstance(n.args[0], ast.Call) and ast.unparse(n.args[0].func) == "np.array" \
                and len(n.args[0].args) == 1 and not n.args[0].keywords and isinstance(n.args[0].args[0], ast.ListComp):
            t, ty = self.tr(n.args[0].args[0], env)
            if ty == LIST(BOOL): return (f"(existsb (fun b_ => b_) {t})", BOOL)
            raise Unsupported("np.any(np.array(...)) of non-booleans")
        if f in sp.attrs.get("kwcalls", {}) and not n.args:
            kws = {k.arg: k.value for k in n.keywords}
            if None in kws: raise Unsupported("**kwargs in constructor call")
            return sp.attrs["kwcalls"][f](kws, lambda node: self.tr(node, env))
        if f == "range" and not n.keywords and (len(n.args) == 1 or (len(n.args) == 2 and ast.unparse(n.args[0]) == "0")):
            nn, tn = self.tr(n.args[-1], env); self.need(tn, NAT)
            return (f"(seq 0 {nn})", LIST(NAT))
        if f in sp.attrs.get("calls", {}) and f not in ("len",):
            return sp.attrs["calls"][f](lambda k: self.tr(n.args[k], env))
        if f == "sum" and len(n.args) == 1 and not n.keywords:
            v, tv = self.tr(n.args[0], env)
            if tv in (LIST(NAT), LIST(INTLIT)): return (f"(list_sum {v})", NAT)
            raise Unsupported("sum of non-nat list")
        if f == "len" and len(n.args) == 1:
            v, tv = self.tr(n.args[0], env)
            if not (isinstance(tv, tuple) and tv[0] == "list"): raise Unsupported("len of non-list")
            if sp.attrs.get("len_as_Z"): return (f"(Z.of_nat (length {v}))", ZT)
            return (f"(length {v})", NAT)
        if f == "abs" and len(n.args) == 1:
            v, tv = self.tr(n.args[0], env)
            if tv == F: return (f"({sp.floats['abs']} {v})", F)
            if tv == X: return (f"(xabs {v})", X)
            raise Unsupported("abs")
        if f == "list" and len(n.args) == 1 and not n.keywords:                  # list(l): a copy of a list
            v, tv = self.tr(n.args[0], env)
            if isinstance(tv, tuple) and tv[0] == "fresh": tv = tv[1:]
            if not (isinstance(tv, tuple) and tv[0] == "list"): raise Unsupported("list() of non-list")
            return (v, tv)
        if f == "float" and len(n.args) == 1:
            v, tv = self.tr(n.args[0], env); self.need(tv, X); return (v, X)
        if f == "np.clip" and len(n.args) == 3 and not n.keywords:
            a = [self.tr(x, env) for x in n.args]
            txt = []
            for t, ty in a:
                if ty == INTLIT: t = f"(xint {t})"
                elif ty == NAT: t = f"(xint (Z.of_nat {t}))"
                elif ty == "Z": t = f"(xint {t})"
                elif ty != X: raise Unsupported(f"np.clip arg {ty}")
                txt.append(t)
            return (f"(xclip {txt[0]} {txt[1]} {txt[2]})", X)
        if f == "int" and len(n.args) == 1:
            v, tv = self.tr(n.args[0], env); self.need(tv, X)
            return (f"(xtrunc {v})", RES("Z"))
        if f == "np.argsort" and len(n.args) == 1 and not n.keywords and not (
                "argsort_of" in sp.attrs and isinstance(n.args[0], ast.Name) and n.args[0].id == sp.attrs["argsort_of"][0]):
            arg, ta = self.tr(n.args[0], env)
            if ta == LIST(NAT): return (f"(argsort_nat {arg})", LIST(NAT))
            raise Unsupported("np.argsort of a non-index list")
        if f == "np.argsort":
            # only np.argsort([a.cost for a in population], axis=0): the oracle permutation `pi`
            if len(n.args) == 1 and [k.arg for k in n.keywords] in ([], ["axis"]) and "argsort_of" in sp.attrs:
                arg, ta = self.tr(n.args[0], env)
                want, pi = sp.attrs["argsort_of"]
                if arg == want and all(ast.unparse(k.value) == "0" for k in n.keywords):
                    return (pi, LIST(NAT))
            raise Unsupported("np.argsort shape")
        if f.endswith(".tolist") and not n.args:
            return self.tr(n.func.value, env)
        if f.endswith(".model_copy") and not n.args and not n.keywords:
            v, tv = self.tr(n.func.value, env); self.need(tv, AGENT)
            return (f"(copy {v})", AGENT)
        if f.endswith(".model_copy") and not n.args and len(n.keywords) == 1 and n.keywords[0].arg == "update" \
                and isinstance(n.keywords[0].value, ast.Dict) and len(n.keywords[0].value.keys) == 1 \
                and isinstance(n.keywords[0].value.keys[0], ast.Constant) and n.keywords[0].value.keys[0].value == "cost":
            v, tv = self.tr(n.func.value, env); self.need(tv, AGENT)
            e, te = self.tr(n.keywords[0].value.values[0], env); self.need(te, X)
            return (f"(with_cost {v} {e})", AGENT)
        if f.endswith(".copy") and not n.args:
            v, tv = self.tr(n.func.value, env)
            if isinstance(tv, tuple) and tv[0] == "list": return (v, ("fresh",) + tv)
            raise Unsupported("copy of non-list")
        if f == "get_pool_results" and len(n.args) == 1 and "pool_perm" in sp.attrs:
            v, tv = self.tr(n.args[0], env)
            if isinstance(tv, tuple) and tv[0] == "result" and isinstance(tv[1], tuple) and tv[1][0] == "list":
                return (f"(option_map {sp.attrs['pool_perm']} {v})", tv)
            if isinstance(tv, tuple) and tv[0] == "list":
                return (f"({sp.attrs['pool_perm']} {v})", tv)
            raise Unsupported("get_pool_results arg")
        if f == "executor.submit" and n.args and not n.keywords:
            # a future of f(args): its value is what .result() later yields
            call = ast.Call(func=n.args[0], args=list(n.args[1:]), keywords=[])
            return self.tr_call(call, env)
        if f in sp.attrs.get("calls", {}):
            return sp.attrs["calls"][f](lambda k: self.tr(n.args[k], env))
        if f.startswith("self.") and f"{sp.cls}::{f}" in self.by_call:
            f = f"{sp.cls}::{f}"
        if f.startswith("self._task.") and "Task::self." + f[len("self._task."):] in self.by_call:
            f = "Task::self." + f[len("self._task."):]
        if f in self.by_call:
            callee = self.by_call[f]
            argnames, defaults = self.signature_defaults(callee)
            given = {}
            args_ = list(n.args)
            extra_skipped = [p_ for p_ in callee.skip_params if p_ not in ("self", "cls")]
            if len(args_) > len(argnames) and len(args_) - len(argnames) <= len(extra_skipped):
                args_ = args_[len(args_) - len(argnames):]
            if len(args_) > len(argnames): raise Unsupported("too many args")
            for name, a in zip(argnames, args_): given[name] = a
            for k in n.keywords:
                if k.arg not in argnames or k.arg in given: raise Unsupported("kwarg")
                given[k.arg] = k.value
            txt = [callee.out]
            for py, cq, ty in callee.params:
                if py.endswith("!"):
                    if py not in env: raise Unsupported(f"oracle parameter {py} not available in caller")
                    v, tv = env[py]
                elif "." in py:
                    v, tv = self.tr(ast.parse(py, mode="eval").body, env)
                else:
                    node = given.get(py, defaults.get(py))
                    if node is None: raise Unsupported(f"missing arg {py} in call to {f}")
                    v, tv = self.tr(node, {**env, **CONSTS})
                if isinstance(tv, tuple) and tv and tv[0] == "fresh": tv = tv[1:]
                if isinstance(ty, tuple) and ty[0] == "option" and not (isinstance(tv, tuple) and tv[0] == "option"):
                    v, tv = f"(Some {v})", OPT(tv)
                if tv == INTLIT and ty == NAT: tv = NAT
                if tv == OPT(None) and isinstance(ty, tuple) and ty[0] == "option": tv = ty
                self.need(tv, ty)
                txt.append(v)
            rty = RES(callee.ret) if callee.fallible else callee.ret
            return ("(" + " ".join(txt) + ")", rty)
        raise Unsupported(f"call {f}")

    # -- statements ----------------------------------------------------------------------------
    def ret_wrap(self, txt, ty):
        """wrap a returned value for a fallible function"""
        if self.spec.fallible:
            if isinstance(ty, tuple) and ty[0] == "result" and self.compatible(ty, RES(self.spec.ret)):
                return txt, ty          # a failing computation of the right type (propagated failure)
            r = self.spec.ret
            if isinstance(ty, tuple) and ty[0] == "option" and not (isinstance(r, tuple) and r[0] == "option") and ty[1] is not None and self.compatible(ty[1], r):
                return txt, RES(ty[1])   # `l[0]` (nth_error) returned from a function that does not return an Optional: the None case is the IndexError
            if isinstance(r, tuple) and r[0] == "option" and not (isinstance(ty, tuple) and ty[0] == "option") and self.compatible(ty, r[1]):
                return f"(Some (Some {txt}))", RES(r)        # a function returning `None | T`: a T result is Some
            if ty == OPT(None) and isinstance(r, tuple) and r[0] == "option": ty = r
            return f"(Some {txt})", RES(ty)
        return txt, ty

    def tr_body(self, stmts, env):
        sp = self.spec
        if not stmts:
            if sp.state is not None:
                return self.ret_wrap(*env[sp.state])
            if sp.ret == "unit": return self.ret_wrap("tt", "unit")          # a procedure: falling off the end returns None
            raise Unsupported("fell off the end")
        st, rest = stmts[0], stmts[1:]
        if isinstance(st, ast.Expr) and isinstance(st.value, ast.Constant):
            return self.tr_body(rest, env)                                         # docstring
        if isinstance(st, ast.Expr) and isinstance(st.value, ast.Call):
            f = ast.unparse(st.value.func)
            if f == "print": return self.tr_body(rest, env)                        # pure output
            if " ".join(ast.unparse(st).split()) in sp.attrs.get("skip_stmts", ()): return self.tr_body(rest, env)   # e.g. super().__init__(**kwargs): pydantic's own construction
            tgt = dotted(st.value.func.value) if isinstance(st.value.func, ast.Attribute) else None
            meth = st.value.func.attr if isinstance(st.value.func, ast.Attribute) else None
            if tgt in env and meth in ("sort", "extend", "append", "reverse", "insert", "pop", "remove", "clear"):
                cur, ty = env[tgt]
                fresh = isinstance(ty, tuple) and ty[0] == "fresh"
                lty = ty[1:] if fresh else ty
                if not fresh and tgt != sp.state and tgt not in sp.attrs.get("mutable", ()):
                    self.mutates_param = True      # in-place mutation of a caller-owned list
                if meth == "sort":
                    kws = {k.arg: k.value for k in st.value.keywords}
                    if st.value.args or set(kws) - {"key", "reverse"} or "key" not in kws: raise Unsupported("sort shape")
                    k = kws["key"]
                    if not (isinstance(k, ast.Lambda) and len(k.args.args) == 1 and isinstance(k.body, ast.Attribute)
                            and isinstance(k.body.value, ast.Name) and k.body.value.id == k.args.args[0].arg and k.body.attr == "cost"):
                        raise Unsupported("sort key")
                    self.need(lty, LIST(AGENT))
                    rev = "false"
                    if "reverse" in kws:
                        rev, tr_ = self.tr(kws["reverse"], env); self.need(tr_, BOOL)
                    new = f"(py_sort cost {rev} {cur})"
                elif meth == "extend" and len(st.value.args) == 1:
                    o, to = self.tr(st.value.args[0], env)
                    if isinstance(to, tuple) and to[0] == "fresh": to = to[1:]
                    if isinstance(lty, tuple) and lty[0] == "list" and lty[1] is None and isinstance(to, tuple) and to[0] == "list":
                        lty = to; ty = (("fresh",) + to) if fresh else to           # the first extend fixes the element type of a list created empty
                    self.need(to, lty)
                    new = f"({cur} ++ {o})"
                elif meth == "append" and len(st.value.args) == 1:
                    o, to = self.tr(st.value.args[0], env)
                    if to == INTLIT and lty[1] == F: o = self.flit(o); to = F
                    if isinstance(to, tuple) and to and to[0] == "fresh": to = to[1:]
                    if lty[1] is None:
                        lty = LIST(to); ty = (("fresh",) + lty) if fresh else lty
                    self.need(to, lty[1])
                    new = f"({cur} ++ [{o}])"
                else:
                    raise Unsupported(f"method {meth}")
                v = self.gensym(tgt.replace(".", "_").strip("_"))
                env2 = dict(env); env2[tgt] = (v, ty)
                b, tb = self.tr_body(rest, env2)
                return (f"let {v} := {new} in\n  {b}", tb)
            raise Unsupported(f"expression statement {ast.unparse(st)[:60]}")
        if isinstance(st, ast.Return):
            if st.value is None:
                if sp.state is None and sp.ret == "unit": return self.ret_wrap("tt", "unit")
                if sp.state is None: raise Unsupported("bare return")
                return self.ret_wrap(*env[sp.state])
            t, ty = self.tr(st.value, env)
            if isinstance(ty, tuple) and ty and ty[0] == "fresh": ty = ty[1:]
            rs = sp.attrs.get("return_states")
            if rs:
                if not (isinstance(ty, tuple) and ty[0] == "tuple"): raise Unsupported("return_states needs a tuple return")
                extra = [env[x] for x in rs]
                t = t[:-1] + ", " + ", ".join(e for e, _ in extra) + ")"
                ty = ty + tuple(et for _, et in extra)
            return self.ret_wrap(t, ty)
        if isinstance(st, ast.Raise):
            if not sp.fallible: raise Unsupported("raise in total function")
            return ("None", RES(sp.ret))
        if isinstance(st, ast.Try) and sp.fallible and not st.orelse and not st.finalbody and len(st.handlers) == 1 \
                and len(st.handlers[0].body) == 1 and isinstance(st.handlers[0].body[0], ast.Raise) \
                and ast.unparse(st.handlers[0].type) == "ValueError" and ast.unparse(st.handlers[0].body[0].exc).startswith("ValueError("):
            return self.tr_body(list(st.body) + rest, env)       # a ValueError of the body is re-raised as ValueError: same failure
        if isinstance(st, ast.With) and len(st.items) == 1 and ast.unparse(st.items[0].context_expr) == "get_pool_executor(self._mode, self._workers)":
            return self.tr_body(list(st.body) + rest, env)
        if isinstance(st, ast.Assign) and len(st.targets) == 1:
            tg = st.targets[0]
            d = dotted(tg)
            if d is not None and (isinstance(tg, ast.Name) or d == sp.state or d in sp.attrs.get("assignable", ())):
                t, ty = self.tr(st.value, env)
                v = d if isinstance(tg, ast.Name) else self.gensym(d.replace(".", "_").strip("_"))
                if isinstance(tg, ast.Name) and d in env: v = self.gensym(d)
                # a computation that may raise binds through the option monad
                if isinstance(ty, tuple) and ty[0] == "result":
                    if not sp.fallible: raise Unsupported("failing computation in total function")
                    env2 = dict(env); env2[d] = (v, ty[1])
                    b, tb = self.tr_body(rest, env2)
                    return (f"match {t} with None => None | Some {v} =>\n  {b} end", tb)
                if ty == INTLIT: ty = NAT
                env2 = dict(env); env2[d] = (v, ty)
                b, tb = self.tr_body(rest, env2)
                return (f"let {v} := {t} in\n  {b}", tb)
            if isinstance(tg, ast.Tuple) and len(tg.elts) == 1 and isinstance(tg.elts[0], ast.Name):
                if not sp.fallible: raise Unsupported("unpack in total function")
                t, ty = self.tr(st.value, env)
                if not (isinstance(ty, tuple) and ty[0] == "list"): raise Unsupported("unpack of non-list")
                x = tg.elts[0].id
                env2 = dict(env); env2[x] = (x, ty[1])
                b, tb = self.tr_body(rest, env2)
                return (f"match single {t} with None => None | Some {x} =>\n  {b} end", tb)
            if isinstance(tg, ast.Tuple) and len(tg.elts) >= 2 and all(isinstance(e, ast.Name) for e in tg.elts) \
                    and not isinstance(st.value, ast.Tuple):
                t, ty = self.tr(st.value, env)
                if not (isinstance(ty, tuple) and ty[0] == "tuple" and len(ty) - 1 == len(tg.elts)): raise Unsupported("tuple unpack shape")
                env2 = dict(env)
                for e, et in zip(tg.elts, ty[1:]): env2[e.id] = (e.id, NAT if et == INTLIT else et)
                b, tb = self.tr_body(rest, env2)
                return (f"let '({', '.join(e.id for e in tg.elts)}) := {t} in\n  {b}", tb)
            if isinstance(tg, ast.Tuple) and isinstance(st.value, ast.Tuple) and len(tg.elts) == len(st.value.elts) \
                    and all(isinstance(e, ast.Name) for e in tg.elts):
                vals = [self.tr(v, env) for v in st.value.elts]
                env2 = dict(env); lets = ""
                for e, (t, ty) in zip(tg.elts, vals):
                    env2[e.id] = (e.id, NAT if ty == INTLIT else ty); lets += f"let {e.id} := {t} in\n  "
                b, tb = self.tr_body(rest, env2)
                return (lets + b, tb)
        if isinstance(st, ast.AugAssign) and isinstance(st.op, ast.BitOr) and isinstance(st.target, ast.Name):
            t, ty = self.tr(st.value, env); self.need(ty, BOOL); self.need(env[st.target.id][1], BOOL)
            cur = env[st.target.id][0]
            v = self.gensym(st.target.id)
            env2 = dict(env); env2[st.target.id] = (v, BOOL)
            b, tb = self.tr_body(rest, env2)
            return (f"let {v} := orb {cur} {t} in\n  {b}", tb)
        if isinstance(st, ast.AugAssign) and isinstance(st.op, ast.Add) and isinstance(st.target, ast.Name) and st.target.id in env \
                and env[st.target.id][1] in (NAT, INTLIT):
            t, ty = self.tr(st.value, env); self.need(ty, NAT)
            v = self.gensym(st.target.id)
            env2 = dict(env); env2[st.target.id] = (v, NAT)
            b, tb = self.tr_body(rest, env2)
            return (f"let {v} := ({env[st.target.id][0]} + {t}) in\n  {b}", tb)
        if isinstance(st, ast.Assign) and len(st.targets) == 1 and isinstance(st.targets[0], ast.Subscript) and isinstance(st.targets[0].value, ast.Name) \
                and st.targets[0].value.id in env and isinstance(env[st.targets[0].value.id][1], tuple) and env[st.targets[0].value.id][1][0] == "dict":
            d = st.targets[0].value.id
            cur, dty = env[d]
            k, tk = self.tr(st.targets[0].slice, env); self.need(tk, NAT)
            val, tv = self.tr(st.value, env)
            nv = self.gensym(d)
            if isinstance(tv, tuple) and tv[0] == "result":
                if not sp.fallible: raise Unsupported("failing computation in total function")
                x_ = self.gensym("item")
                env2 = dict(env); env2[d] = (nv, DICT(NAT, tv[1]))
                b, tb = self.tr_body(rest, env2)
                return (f"match {val} with None => None | Some {x_} =>\n  let {nv} := (dict_set {k} {x_} {cur}) in\n  {b} end", tb)
            env2 = dict(env); env2[d] = (nv, DICT(NAT, tv))
            b, tb = self.tr_body(rest, env2)
            return (f"let {nv} := (dict_set {k} {val} {cur}) in\n  {b}", tb)
        if isinstance(st, ast.For) and not st.orelse:
            return self.tr_for(st, rest, env)
        if isinstance(st, ast.If):
            return self.tr_if(st, rest, env)
        raise Unsupported(f"stmt {ast.unparse(st)[:80]}")

    def tr_for(self, st, rest, env):
        """`for x in L: <body that only rebinds outer names>`  ->  a fold over L whose state is the tuple of the rebound names"""
        sp = self.spec
        it, tit = self.tr(st.iter, env)
        if isinstance(tit, tuple) and tit and tit[0] == "fresh": tit = tit[1:]
        if not (isinstance(tit, tuple) and tit[0] == "list"): raise Unsupported("for over non-list")
        if not isinstance(st.target, ast.Name): raise Unsupported("for target")
        x = st.target.id
        state = []
        for s2 in ast.walk(ast.Module(body=list(st.body), type_ignores=[])):
            nm = None
            if isinstance(s2, ast.Assign):
                for t in s2.targets:
                    for tt in (t.elts if isinstance(t, (ast.Tuple, ast.List)) else [t]):
                        if isinstance(tt, ast.Name) and tt.id in env and tt.id not in state: state.append(tt.id)
                        if isinstance(tt, ast.Subscript) and isinstance(tt.value, ast.Name) and tt.value.id in env and tt.value.id not in state: state.append(tt.value.id)
            elif isinstance(s2, ast.AugAssign) and isinstance(s2.target, ast.Name) and s2.target.id in env: nm = s2.target.id
            elif isinstance(s2, ast.Expr) and isinstance(s2.value, ast.Call) and isinstance(s2.value.func, ast.Attribute) \
                    and s2.value.func.attr in ("append", "extend") and isinstance(s2.value.func.value, ast.Name) and s2.value.func.value.id in env:
                nm = s2.value.func.value.id
            if nm is not None and nm not in state: state.append(nm)
        state = [n for n in state if n != x]
        if not state: raise Unsupported("for loop without effect on outer names")
        svars = [self.gensym(n) for n in state]
        env_in = dict(env); env_in[x] = (x if x not in env else self.gensym(x), tit[1])
        for n, v in zip(state, svars): env_in[n] = (v, env[n][1])
        ret = ast.Return(value=ast.Tuple(elts=[ast.Name(id=n, ctx=ast.Load()) for n in state], ctx=ast.Load()) if len(state) > 1 else ast.Name(id=state[0], ctx=ast.Load()))
        saved = (sp.state, sp.fallible, sp.ret, sp.attrs.get("return_states"))
        sp.attrs.pop("return_states", None)
        failing = False
        try:
            sp.state, sp.fallible = None, False
            try:
                body, tb = self.tr_body(list(st.body) + [ret], env_in)
            except Unsupported as e:
                if not (saved[1] and ("failing computation" in str(e) or "in total function" in str(e))): raise
                failing = True
                sp.fallible = True; sp.ret = None
                body, tb = self.tr_body(list(st.body) + [ret], env_in)
                if not (isinstance(tb, tuple) and tb[0] == "result"): raise Unsupported("for: failing body type")
                tb = tb[1]
        finally:
            sp.state, sp.fallible, sp.ret = saved[0], saved[1], saved[2]
            if saved[3] is not None: sp.attrs["return_states"] = saved[3]
        tys = list(tb[1:]) if (isinstance(tb, tuple) and tb[0] == "tuple" and len(state) > 1) else [tb]
        was_fresh = [isinstance(env[n][1], tuple) and env[n][1] and env[n][1][0] == "fresh" for n in state]
        tys = [t[1:] if isinstance(t, tuple) and t and t[0] == "fresh" else t for t in tys]
        tys = [(("fresh",) + t) if (wf and isinstance(t, tuple) and t[0] == "list") else t for t, wf in zip(tys, was_fresh)]
        pat = "'(" + ", ".join(svars) + ")" if len(state) > 1 else svars[0]
        init = "(" + ", ".join(env[n][0] for n in state) + ")" if len(state) > 1 else env[state[0]][0]
        outs = [self.gensym(n) for n in state]
        opat = "'(" + ", ".join(outs) + ")" if len(state) > 1 else outs[0]
        env2 = dict(env)
        for n, v, t in zip(state, outs, tys): env2[n] = (v, NAT if t == INTLIT else t)
        b, tb2 = self.tr_body(rest, env2)
        xv = env_in[x][0]
        if not failing:
            fold = f"(fold_left (fun st_ {xv} => let {pat} := st_ in\n    {body}) {it} {init})"
            return (f"let {opat} := {fold} in\n  {b}", tb2)
        fold = (f"(fold_left (fun acc_ {xv} => match acc_ with None => None | Some st_ => let {pat} := st_ in\n    {body} end) {it} (Some {init}))")
        some_pat = "(" + ", ".join(outs) + ")" if len(state) > 1 else outs[0]
        return (f"match {fold} with None => None | Some {some_pat} =>\n  {b} end", tb2)

    def tr_if(self, st, rest, env):
        sp = self.spec
        # `if o is not None: <rebinding body>`  with o an option-typed local: a match that rebinds
        test = st.test
        is_not_none = (isinstance(test, ast.Compare) and isinstance(test.ops[0], ast.IsNot)
                       and isinstance(test.comparators[0], ast.Constant) and test.comparators[0].value is None
                       and dotted(test.left) in env and isinstance(env[dotted(test.left)][1], tuple)
                       and env[dotted(test.left)][1][0] == "option")
        if (isinstance(test, ast.Compare) and isinstance(test.ops[0], ast.Is) and isinstance(test.comparators[0], ast.Constant)
                and test.comparators[0].value is None and isinstance(test.left, ast.Name) and test.left.id in env and not st.orelse
                and len(st.body) == 1 and isinstance(st.body[0], ast.Assign) and len(st.body[0].targets) == 1
                and isinstance(st.body[0].targets[0], ast.Name) and st.body[0].targets[0].id == test.left.id
                and isinstance(env[test.left.id][1], tuple) and env[test.left.id][1][0] == "option"):
            x = test.left.id; xcur, xty = env[x]
            e, te = self.tr(st.body[0].value, env); self.need(te, xty[1])
            nv = self.gensym(x)
            env2 = dict(env); env2[x] = (nv, xty[1])
            b, tb = self.tr_body(rest, env2)
            return (f"let {nv} := match {xcur} with Some v_ => v_ | None => {e} end in\n  {b}", tb)
        terminal = lambda body: body and isinstance(body[-1], (ast.Return, ast.Raise))
        # `if x is None: <return / raise>` with x an option-typed name: the rest sees x at its inner type (narrowing)
        if (terminal(st.body) and not st.orelse and isinstance(test, ast.Compare) and len(test.ops) == 1 and isinstance(test.ops[0], ast.Is)
                and isinstance(test.comparators[0], ast.Constant) and test.comparators[0].value is None
                and dotted(test.left) in env and isinstance(env[dotted(test.left)][1], tuple) and env[dotted(test.left)][1][0] == "option"
                and env[dotted(test.left)][1][1] is not None):
            x = dotted(test.left); xcur, xty = env[x]
            a, ta = self.tr_body(list(st.body), env)
            nv = self.gensym(x.replace(".", "_").strip("_"))
            env2 = dict(env); env2[x] = (nv, xty[1])
            b, tb = self.tr_body(rest, env2)
            a, b, ty = self.unify(a, ta, b, tb)
            return (f"match {xcur} with None => {a} | Some {nv} =>\n  {b} end", ty)
        if terminal(st.body) and not st.orelse:
            c, tc = self.tr(test, env); self.need(tc, BOOL)
            a, ta = self.tr_body(list(st.body), env)
            b, tb = self.tr_body(rest, env)
            a, b, ty = self.unify(a, ta, b, tb)
            return (f"if {c} then {a} else\n  {b}", ty)
        if st.orelse:
            raise Unsupported("if/else with fall-through")
        # `if o is not None: x = E` where E may fail (IndexError ...): the failure propagates, otherwise x is rebound (rest duplicated)
        if is_not_none and sp.fallible and len(st.body) == 1 and isinstance(st.body[0], ast.Assign) and len(st.body[0].targets) == 1 \
                and isinstance(st.body[0].targets[0], ast.Name) and st.body[0].targets[0].id in env:
            x = st.body[0].targets[0].id
            o = dotted(test.left); otxt, oty = env[o]
            v = self.gensym(o.replace(".", "_").strip("_"))
            env_in = dict(env); env_in[o] = (v, oty[1])
            e, te = self.tr(st.body[0].value, env_in)
            if isinstance(te, tuple) and te[0] == "result":
                self.need(te[1], env[x][1])
                nv = self.gensym(x)
                env2 = dict(env_in); env2[x] = (nv, te[1])
                b1, t1 = self.tr_body(rest, env2)
                b0, t0 = self.tr_body(rest, env)
                b1, b0, ty = self.unify(b1, t1, b0, t0)
                return (f"match {otxt} with\n  | Some {v} => match {e} with None => None | Some {nv} =>\n  {b1} end\n  | None =>\n  {b0} end", ty)
        # body may only rebind already-bound names (simple or augmented-or assignments, prints)
        assigned = []
        for s2 in st.body:
            if isinstance(s2, ast.Assign) and len(s2.targets) == 1 and dotted(s2.targets[0]) in env: assigned.append(dotted(s2.targets[0]))
            elif isinstance(s2, ast.AugAssign) and isinstance(s2.target, ast.Name) and s2.target.id in env: assigned.append(s2.target.id)
            elif isinstance(s2, ast.Assign) and len(s2.targets) == 1 and isinstance(s2.targets[0], (ast.Name, ast.Tuple)): pass   # new locals inside
            elif isinstance(s2, ast.Expr) and isinstance(s2.value, ast.Call) and ast.unparse(s2.value.func) == "print": pass
            elif isinstance(s2, ast.Expr) and isinstance(s2.value, ast.Call) and isinstance(s2.value.func, ast.Attribute) and s2.value.func.attr in ("append", "extend") \
                    and isinstance(s2.value.func.value, ast.Name) and s2.value.func.value.id in env: assigned.append(s2.value.func.value.id)
            else: raise Unsupported(f"if body stmt {ast.unparse(s2)[:60]}")
        assigned = list(dict.fromkeys(assigned))
        if len(assigned) != 1: raise Unsupported("if body must rebind exactly one outer name")
        x = assigned[0]
        xcur, xty = env[x]
        saved_spec_state, saved_fallible = sp.state, sp.fallible
        inner_ret = ast.Return(value=ast.parse(x, mode="eval").body)
        # translate the body as an expression yielding the new value of x (not wrapped)
        sp.fallible = False; sp.state = None
        try:
            if is_not_none:
                o = dotted(test.left); otxt, oty = env[o]
                v = self.gensym(o.replace(".", "_"))
                env_in = dict(env); env_in[o] = (v, oty[1])
                inner, ity = self.tr_body(list(st.body) + [inner_ret], env_in)
                newval = f"match {otxt} with Some {v} =>\n      {inner}\n    | None => {xcur} end"
            else:
                c, tc = self.tr(test, env); self.need(tc, BOOL)
                inner, ity = self.tr_body(list(st.body) + [inner_ret], env)
                newval = f"if {c} then {inner} else {xcur}"
        finally:
            sp.state, sp.fallible = saved_spec_state, saved_fallible
        if isinstance(ity, tuple) and ity and ity[0] == "fresh": ity = ity[1:]
        _, _, nty = self.unify("_", xty if not (isinstance(xty, tuple) and xty and xty[0] == "fresh") else xty[1:], "_", ity)
        nv = self.gensym(x.replace(".", "_").strip("_"))
        env2 = dict(env); env2[x] = (nv, nty)
        b, tb = self.tr_body(rest, env2)
        return (f"let {nv} := {newval} in\n  {b}", tb)


_PLACEHOLDER = re.compile(r"\{([A-Za-z_][A-Za-z0-9_.]*)\}")


def _names_in(tmpl: str):
    """placeholders {name} / {self.field} of an idiom template ({{ and }} are literal braces)"""
    return _PLACEHOLDER.findall(tmpl.replace("{{", "").replace("}}", ""))


def _fill(tmpl: str, names: dict) -> str:
    out = _PLACEHOLDER.sub(lambda m: names[m.group(1)] if m.group(1) in names else m.group(0), tmpl.replace("{{", "\x00").replace("}}", "\x01"))
    return out.replace("\x00", "{").replace("\x01", "}")


CONSTS = {"TaskType.MIN": ("MIN", DIR), "TaskType.MAX": ("MAX", DIR)}


class _Replace(ast.NodeTransformer):
    def __init__(self, old, new): self.old_dump, self.new = ast.dump(old), new
    def generic_visit(self, node):
        if ast.dump(node) == self.old_dump: return self.new
        return super().generic_visit(node)
    def visit(self, node):
        if ast.dump(node) == self.old_dump: return self.new
        return super().visit(node)


def _clone(n):
    return ast.parse(ast.unparse(n), mode="eval").body
