"""check driver:  check <ID> [--tier quick|thorough] [--replay file]

One run = regenerate coq/gen from /repo's working tree, rebuild the property's theorems (full .vo
build), run the property's correspondence / search drivers, classify, write the evidence, exit.
"""
from __future__ import annotations
import argparse
import hashlib
import importlib
import json
import os
import random
import sys
import time
import traceback
from pathlib import Path

from . import coq

VERIF = Path(__file__).resolve().parent.parent
REPO = Path(os.environ.get("PV_REPO", "/repo"))
PROPS = [f"C{i:02d}" for i in range(1, 21)]


class Ctx:
    def __init__(self, pid: str, tier: str, seed: int):
        self.pid, self.tier, self.seed = pid, tier, seed
        self.rng = random.Random(seed * 1000003 + int(pid[1:]))
        self.t0 = time.time()
        self.violations: list[dict] = []     # concrete failing inputs
        self.broken: list[dict] = []         # proof / bridge / correspondence that no longer checks
        self.notes: list[str] = []
        self.coverage: dict = {"evaluations": 0, "distinct_nontrivial": 0, "samples": [], "rule": ""}
        self.assumptions: list[str] = []
        self.trusted: list[str] = []
        self.ties: dict = {}
        self.observations: list[str] = []
        self.boost = 1

    @property
    def quick(self) -> bool:
        return self.tier == "quick"

    def violation(self, key: str, what: str, replay: dict):
        """A concrete input / history on which the property fails on the real code."""
        if any(v["key"] == key for v in self.violations):
            return
        self.violations.append({"key": key, "what": what, "replay": replay})

    def broke(self, name: str, detail: str = ""):
        """A theorem, bridge lemma or correspondence that no longer checks."""
        self.broken.append({"name": name, "detail": detail[-3000:]})

    def add_cover(self, evaluations: int, nontrivial: int, rule: str, samples: list):
        c = self.coverage
        c["evaluations"] += int(evaluations)
        c["distinct_nontrivial"] += int(nontrivial)
        c["rule"] = (c["rule"] + " | " if c["rule"] else "") + rule
        c["samples"] += samples[:3]

    def note(self, s: str):
        self.notes.append(s)


def load_findings() -> list[dict]:
    p = VERIF / "known_findings.json"
    if not p.exists():
        return []
    return json.loads(p.read_text()).get("findings", [])


def build_property(ctx: Ctx, extra_targets: list[str] | None = None) -> dict:
    """Regenerate gen/, build props/<ID>.vo with everything it depends on, collect proof evidence."""
    from . import regen
    pid = ctx.pid
    info: dict = {}
    with coq.build_lock():
        status = regen.regenerate(REPO)
        info["regen"] = status
        hits = coq.forbidden_scan()
        if hits:
            ctx.broke("forbidden-construct", "; ".join(hits))
        targets = [f"props/{pid}.vo"] + (extra_targets or [])
        ok, log = coq.make(targets)
        info["make_ok"] = ok
        if not ok:
            info["make_log"] = log[-4000:]
        ob = coq.count_obligations(f"props/{pid}.v", log if not ok else "")
        info["obligations"] = ob
        if ok:
            pa_ok, pa = coq.print_assumptions(f"props/{pid}.v")
            info["assumptions"] = pa
            if not pa_ok:
                ok = False
                info["make_ok"] = False
                info["make_log"] = pa.get("error", "")
            elif ctx.tier == "thorough":
                ck_ok, ck = coq.coqchk(pid)
                info["coqchk"] = ck
                if not ck_ok:
                    ctx.broke("coqchk", json.dumps(ck)[:1500])
    if not info["make_ok"]:
        # name the first failing file / lemma from the log
        import re
        m = re.findall(r'File "\./([^"]+)", line (\d+)', info.get("make_log", ""))
        where = ", ".join(f"{f}:{l}" for f, l in m[:3]) or "build"
        ctx.broke(f"proof-build:{where}", info.get("make_log", ""))
    return info


def finish(ctx: Ctx, info: dict, level: str = "proof") -> int:
    pid = ctx.pid
    findings = [f for f in load_findings() if f.get("property") == pid]
    known = {f["key"]: f for f in findings if f.get("status") == "known"}
    rc = 0
    out_lines = []
    rdir = VERIF / "replays"
    rdir.mkdir(exist_ok=True)
    new_violations = []
    for v in ctx.violations:
        if v["key"] in known:
            out_lines.append(f"KNOWN-FINDING: property={pid} {known[v['key']]['what']} [{v['key']}]")
        else:
            new_violations.append(v)
    for v in new_violations:
        h = hashlib.sha1(v["key"].encode()).hexdigest()[:10]
        path = rdir / f"{pid}_{h}.json"
        path.write_text(json.dumps({"property": pid, "key": v["key"], "what": v["what"], "replay": v["replay"]},
                                   indent=1, default=str))
        out_lines.append(f"VIOLATION property={pid} replay={path}")
        rc = 1
    if ctx.broken:
        path = rdir / f"{pid}_broken.json"
        path.write_text(json.dumps({"property": pid, "no_longer_checks": ctx.broken,
                                    "failing_inputs_found": [v["key"] for v in new_violations]}, indent=1))
        if not new_violations:
            out_lines.append(f"VIOLATION property={pid} replay={path} no-failing-input-found")
        else:
            out_lines.append(f"NOTE property={pid} broken proof/tie recorded in {path}")
        rc = 1
    ob = info.get("obligations", {})
    pa = info.get("assumptions", {})
    cov = dict(ctx.coverage)
    if not cov["samples"]:
        cov["samples"] = ["(no dynamic cases in this run)"]
    cov.update({
        "obligations": int(ob.get("statements", 0)),
        "discharged": int(ob.get("statements", 0)) if info.get("make_ok") else min(int(ob.get("closed", 0)), max(int(ob.get("statements", 0)) - 1, 0)),
        "checker_cmd": f"cd /verif/coq && make props/{pid}.vo   (coqc 8.16.1, full .vo build) ; coqc props/{pid}.v (Print Assumptions)",
        "trusted_base": ["Coq 8.16.1 kernel + vm_compute"] + ctx.trusted,
        "property_theorems": ob.get("property_theorems", []),
        "proof_files": ob.get("files", []),
        "print_assumptions": {"closed": pa.get("closed"), "with_axioms": pa.get("with_axioms", [])},
        "coqchk": info.get("coqchk", "(thorough tier only)"),
        "ties": ctx.ties,
        "regen": info.get("regen", {}),
        "observations": ctx.observations,
        "known_findings_reported": [l for l in out_lines if l.startswith("KNOWN-FINDING")],
        "broken": ctx.broken,
        "notes": ctx.notes,
    })
    ev = {
        "property_id": pid, "tier": ctx.tier, "seed": ctx.seed, "level": level,
        "coverage": cov, "assumptions": ctx.assumptions, "wall_s": round(time.time() - ctx.t0, 2),
        "violations": len(new_violations) + (1 if ctx.broken and not new_violations else 0),
    }
    (VERIF / "evidence").mkdir(exist_ok=True)
    (VERIF / "evidence" / f"{pid}.json").write_text(json.dumps(ev, indent=1, default=str))
    shown = 0
    for l in out_lines:
        if l.startswith("VIOLATION"):
            shown += 1
            if shown == 13:
                print(f"NOTE property={pid} {sum(1 for x in out_lines if x.startswith('VIOLATION')) - 12} further VIOLATION lines suppressed (all replays are under /verif/replays)")
            if shown > 12:
                continue
        print(l)
    print(f"[{pid}] tier={ctx.tier} seed={ctx.seed} obligations={cov['obligations']} discharged={cov['discharged']} "
          f"evaluations={cov['evaluations']} violations={ev['violations']} wall={ev['wall_s']}s")
    return rc


def main(argv=None) -> int:
    ap = argparse.ArgumentParser()
    ap.add_argument("pid")
    ap.add_argument("--tier", default=os.environ.get("VERIF_TIER", "quick"), choices=["quick", "thorough"])
    ap.add_argument("--replay")
    a = ap.parse_args(argv)
    seed = int(os.environ.get("VERIF_SEED", "1") or 1)
    pid = a.pid.upper()
    if pid not in PROPS:
        print(f"unknown property {pid}", file=sys.stderr)
        return 2
    mod = importlib.import_module(f"pv.props.{pid.lower()}")
    if a.replay:
        return mod.replay(json.loads(Path(a.replay).read_text()))
    ctx = Ctx(pid, a.tier, seed)
    for old in (VERIF / "replays").glob(f"{pid}_*.json"):
        old.unlink()
    info: dict = {}
    try:
        info = build_property(ctx, getattr(mod, "EXTRA_TARGETS", None))
        ctx.boost = 1 if info.get("make_ok") else 3          # something of this property no longer checks: the searches repeat more to find the failing input
        mod.run(ctx, info)
    except Exception:
        ctx.broke("harness-exception", traceback.format_exc())
    return finish(ctx, info)


if __name__ == "__main__":
    sys.exit(main())
