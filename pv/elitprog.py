"""Extraction of the element function of every `self._population = [f(.., a) for .., a in ..self._population]` write as a program of coq/theories/ElitLang.v.
Syntax to syntax: the JUDGEMENT (can the result be worse than the slot's incumbent?) is made inside Coq by a proved-sound analysis (ElitLang.agood_sound); what is
trusted here is that the program says what the Python says - names resolved by Python's scoping rules (a name assigned in a function is local to it; other names
are the enclosing function's), local functions / own methods inlined as blocks, everything that is not one of the understood forms rendered as EOpaque / SKill."""
from __future__ import annotations
import ast


def unparse(n): return ast.unparse(n)


def is_self_attr(n, name=None):
    return isinstance(n, ast.Attribute) and isinstance(n.value, ast.Name) and n.value.id == "self" and (name is None or n.attr == name)


def names_in_target(t):
    if isinstance(t, ast.Name): return [t.id]
    if isinstance(t, (ast.Tuple, ast.List)): return [x for e in t.elts for x in names_in_target(e)]
    if isinstance(t, ast.Starred): return names_in_target(t.value)
    return []


def own_nodes(fn):
    """nodes of fn's body, not descending into nested function definitions / lambdas / comprehensions' own scopes (but yielding the nested defs themselves)"""
    stack = list(fn.body)
    while stack:
        n = stack.pop()
        yield n
        if isinstance(n, (ast.FunctionDef, ast.AsyncFunctionDef, ast.Lambda, ast.ClassDef)): continue
        for c in ast.iter_child_nodes(n):
            if isinstance(c, (ast.ListComp, ast.SetComp, ast.DictComp, ast.GeneratorExp)): continue
            stack.append(c)


def local_names(fn) -> set:
    out = {a.arg for a in fn.args.posonlyargs + fn.args.args + fn.args.kwonlyargs}
    if fn.args.vararg: out.add(fn.args.vararg.arg)
    if fn.args.kwarg: out.add(fn.args.kwarg.arg)
    for n in own_nodes(fn):
        if isinstance(n, ast.Assign):
            for t in n.targets: out.update(names_in_target(t))
        elif isinstance(n, (ast.AugAssign, ast.AnnAssign)): out.update(names_in_target(n.target))
        elif isinstance(n, ast.For): out.update(names_in_target(n.target))
        elif isinstance(n, ast.With):
            for it in n.items:
                if it.optional_vars is not None: out.update(names_in_target(it.optional_vars))
        elif isinstance(n, ast.NamedExpr): out.add(n.target.id)
        elif isinstance(n, (ast.FunctionDef, ast.AsyncFunctionDef)): out.add(n.name)
        elif isinstance(n, (ast.Import, ast.ImportFrom)):
            for a in n.names: out.add((a.asname or a.name).split(".")[0])
        elif isinstance(n, ast.ExceptHandler) and n.name: out.add(n.name)
    return out


class Extract:
    def __init__(self, methods: dict, gk: str):
        self.methods, self.gk = methods, gk
        self.next = 1                      # 0 is the slot

    def fresh(self):
        self.next += 1
        return self.next - 1

    # scope: list of dicts (innermost last) python name -> id ; fns: name -> (FunctionDef, scope at definition)
    def resolve(self, name, scope):
        for d in reversed(scope):
            if name in d: return d[name]
        return None

    def lst(self, items): return "[" + "; ".join(items) + "]"

    def expr(self, e, scope, fns, depth) -> str:
        if depth > 7: return "EOpaque"
        if isinstance(e, ast.Name):
            i = self.resolve(e.id, scope)
            return f"(EName {i})" if i is not None else "EOpaque"
        if isinstance(e, ast.IfExp):
            return f"(EIfExp {self.expr(e.body, scope, fns, depth)} {self.expr(e.orelse, scope, fns, depth)})"
        if isinstance(e, ast.Call):
            f = e.func
            if isinstance(f, ast.Attribute) and f.attr in ("model_copy", "copy") and isinstance(f.value, ast.Name) and not e.args and self.resolve(f.value.id, scope) is not None:
                return f"(ECopy (EName {self.resolve(f.value.id, scope)}))"
            if is_self_attr(f, "_greedy_select_agent") and len(e.args) == 2 and not e.keywords and self.gk in ("GMin", "GGuarded"):
                a, b = self.expr(e.args[0], scope, fns, depth), self.expr(e.args[1], scope, fns, depth)
                return f"(EGreedy {a} {b})" if self.gk == "GMin" else f"(EIfExp (EGreedy {a} {b}) {a})"      # guarded: the challenger wins only if cheaper AND the guard holds
            if isinstance(f, ast.Name) and f.id in fns and self.resolve(f.id, scope) is not None:
                fn, fscope = fns[f.id]
                return self.block_of_call(fn, e, scope, fscope, fns, depth)
            if is_self_attr(f) and f.attr in self.methods and f.attr not in ("_init_agent", "_greedy_select_agent", "optimize"):
                return self.block_of_call(self.methods[f.attr], e, scope, [], {}, depth, skip_self=True)
            if isinstance(f, ast.Name) and f.id == "best_agent" and len(e.args) == 1 and isinstance(e.args[0], ast.List) and not e.keywords and e.args[0].elts:
                return f"(EBestOf {self.lst([self.expr(x, scope, fns, depth) for x in e.args[0].elts])})"
        return "EOpaque"

    def block_of_call(self, fn, call, scope, fscope, fns, depth, skip_self=False, proj=None) -> str:
        params = [a.arg for a in fn.args.posonlyargs + fn.args.args]
        if skip_self and params and params[0] == "self": params = params[1:]
        if fn.args.vararg or fn.args.kwarg or fn.args.kwonlyargs or len(call.args) > len(params) or any(k.arg is None for k in call.keywords):
            return "EOpaque"
        loc = {nm: self.fresh() for nm in sorted(local_names(fn))}
        inner = list(fscope) + [loc]
        pre = []
        given = set()
        for p, a in zip(params, call.args):
            pre.append(f"SAssign {loc[p]} {self.expr(a, scope, fns, depth + 1)}"); given.add(p)
        for k in call.keywords:
            if k.arg in params and k.arg not in given:
                pre.append(f"SAssign {loc[k.arg]} {self.expr(k.value, scope, fns, depth + 1)}"); given.add(k.arg)
        for p in params:
            if p not in given: pre.append(f"SKill [{loc[p]}]")        # a default value: not an agent of interest
        body = self.stmts(fn.body, inner, {k: v for k, v in fns.items()} if fscope else {}, depth + 1, proj)
        return f"(EBlock {self.lst(pre + body)})"

    def ids(self, names, scope):
        out = [self.resolve(n, scope) for n in names]
        return "[" + "; ".join(str(i) for i in out if i is not None) + "]"

    def bound_in(self, stmts):
        out = []
        for st in stmts:
            for n in ast.walk(st):
                if isinstance(n, ast.Assign):
                    for t in n.targets: out += names_in_target(t)
                elif isinstance(n, (ast.AugAssign, ast.AnnAssign, ast.For)): out += names_in_target(n.target)
                elif isinstance(n, ast.NamedExpr): out.append(n.target.id)
                elif isinstance(n, ast.With):
                    for it in n.items:
                        if it.optional_vars is not None: out += names_in_target(it.optional_vars)
        return out

    def cond(self, t, scope):
        if isinstance(t, ast.Compare) and len(t.ops) == 1 and all(isinstance(z, ast.Attribute) and z.attr == "cost" and isinstance(z.value, ast.Name) for z in (t.left, t.comparators[0])):
            l, r = self.resolve(t.left.value.id, scope), self.resolve(t.comparators[0].value.id, scope)
            if l is None or r is None: return "None"
            op = t.ops[0]
            if isinstance(op, ast.Lt): return f"(Some (true, {l}, {r}))"
            if isinstance(op, ast.LtE): return f"(Some (false, {l}, {r}))"
            if isinstance(op, ast.Gt): return f"(Some (true, {r}, {l}))"
            if isinstance(op, ast.GtE): return f"(Some (false, {r}, {l}))"
        return "None"

    def stmts(self, body, scope, fns, depth, proj=None) -> list:
        out = []
        fns = dict(fns)
        for st in body:
            if isinstance(st, ast.Expr) and isinstance(st.value, ast.Constant): continue
            if isinstance(st, (ast.FunctionDef, ast.AsyncFunctionDef)):
                fns[st.name] = (st, list(scope)); continue
            if isinstance(st, ast.Return):
                v = st.value
                if proj is not None:
                    v = v.elts[proj] if isinstance(v, ast.Tuple) and len(v.elts) > proj else None
                out.append("SReturn " + (self.expr(v, scope, fns, depth) if v is not None else "EOpaque"))
                continue
            if isinstance(st, ast.Raise):
                return out + ["SLoop_DIVERGE"]                 # a path that raises yields no agent at all: rendered as a statement no execution gets past (see emit)
            if isinstance(st, ast.Assign):
                if len(st.targets) == 1 and isinstance(st.targets[0], ast.Name) and self.resolve(st.targets[0].id, scope) is not None:
                    out.append(f"SAssign {self.resolve(st.targets[0].id, scope)} {self.expr(st.value, scope, fns, depth)}")
                elif len(st.targets) == 1 and isinstance(st.targets[0], ast.Tuple) and all(isinstance(e, ast.Name) for e in st.targets[0].elts) \
                        and isinstance(st.value, ast.Call) and isinstance(st.value.func, ast.Name) and st.value.func.id in fns and self.resolve(st.value.func.id, scope) is not None:
                    fn, fscope = fns[st.value.func.id]
                    for i, e in enumerate(st.targets[0].elts):
                        tid = self.resolve(e.id, scope)
                        if tid is not None: out.append(f"SAssign {tid} {self.block_of_call(fn, st.value, scope, fscope, fns, depth, proj=i)}")
                else:
                    out.append(f"SKill {self.ids([x for t in st.targets for x in names_in_target(t)], scope)}")
                continue
            if isinstance(st, ast.AnnAssign):
                if isinstance(st.target, ast.Name) and st.value is not None and self.resolve(st.target.id, scope) is not None:
                    out.append(f"SAssign {self.resolve(st.target.id, scope)} {self.expr(st.value, scope, fns, depth)}")
                else: out.append(f"SKill {self.ids(names_in_target(st.target), scope)}")
                continue
            if isinstance(st, ast.AugAssign):
                out.append(f"SKill {self.ids(names_in_target(st.target), scope)}"); continue
            if isinstance(st, ast.If):
                s1 = self.stmts(st.body, scope, fns, depth, proj); s2 = self.stmts(st.orelse, scope, fns, depth, proj)
                out.append(f"SIf {self.cond(st.test, scope)} {self.lst(s1)} {self.lst(s2)}"); continue
            if isinstance(st, (ast.For, ast.While)):
                tgt = names_in_target(st.target) if isinstance(st, ast.For) else []
                b = [f"SKill {self.ids(tgt, scope)}"] + self.stmts(st.body, scope, fns, depth, proj)
                out.append(f"SLoop {self.lst(b)}")
                out += self.stmts(st.orelse, scope, fns, depth, proj)
                continue
            if isinstance(st, (ast.With, ast.Try)):
                raise Unsupported("with / try in an element function")
            if isinstance(st, (ast.Pass, ast.Import, ast.ImportFrom, ast.Global, ast.Nonlocal, ast.Assert, ast.Delete, ast.Break, ast.Continue)):
                if isinstance(st, (ast.Break, ast.Continue, ast.Nonlocal, ast.Global)): raise Unsupported(type(st).__name__)
                continue
            out.append(f"SKill {self.ids(self.bound_in([st]), scope)}")
        return out


class Unsupported(Exception):
    pass


def element_program(methods, gk, method_fn, comp: ast.ListComp, slot: str) -> str | None:
    """the program of `[<elt> for .. slot .. in self._population]` inside method_fn: EBlock [SReturn <elt>] with the slot bound to name 0"""
    ex = Extract(methods, gk)
    loc = {nm: ex.fresh() for nm in sorted(local_names(method_fn)) if nm != slot}
    scope = [loc, {slot: 0}]
    fns = {}
    for n in ast.walk(method_fn):
        if isinstance(n, ast.FunctionDef) and n is not method_fn: fns[n.name] = (n, [loc])
    try:
        body = ex.expr(comp.elt, scope, fns, 0)
    except Unsupported:
        return None
    txt = f"(EBlock [SReturn {body}])"
    # `raise`: no value is produced on that path; ElitLang has no such statement, `SIf None [] []` followed by nothing would fall through - use an infinite
    # loop-free encoding instead: a return of the slot itself is NOT what happens, so such programs are simply not extracted
    if "SLoop_DIVERGE" in txt: return None
    return txt
