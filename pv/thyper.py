"""Structural extraction of the selection step of HyperTuner.execute and of the plan loop (C19) and of
Multitask's mode broadcasting / export loop (C20): the statements the models give a meaning to must have
exactly the expected shape; otherwise the generated flag is false and the bridge lemma fails (fail closed)."""
from __future__ import annotations
import ast
from pathlib import Path

from . import coq

HEADER = "(* GENERATED from /repo/pyvolutionary/hypertuner.py and multitask.py by pv/thyper.py on every run — do not edit. *)\n"

EXPECT_HYPER = {
    "ascending": "ascending = True if self._problem.minmax == TaskType.MIN else False",
    "grid": "list_params_grid = list(ParameterGrid(self._param_grid))",
    "mean": "self._df_fit['trial_mean'] = self._df_fit[trial_columns].mean(axis=1)",
    "std": "self._df_fit['trial_std'] = self._df_fit[trial_columns].std(axis=1)",
    "rank_mean": "self._df_fit['rank_mean'] = self._df_fit['trial_mean'].rank(ascending=ascending)",
    "rank_std": "self._df_fit['rank_std'] = self._df_fit['trial_std'].rank(ascending=ascending)",
    "rank_tuple": "self._df_fit['rank_mean_std'] = self._df_fit[['rank_mean', 'rank_std']].apply(tuple, axis=1).rank(method='dense', ascending=True)",
    "best_row": "self._best_row = self._df_fit[self._df_fit['rank_mean_std'] == self._df_fit['rank_mean_std'].min()]",
    "best_params": "self._best_params = self._best_row['params'].values[0]",
    "best_score": "self._best_score = self._best_row['trial_mean'].values[0]",
    "set_config": "self._algorithm.set_config_parameters(params)",
    "loop": "for id_params, params in enumerate(list_params_grid):",
    "map": "list_results = executor.map(partial(self.__run__, n_workers=n_workers, mode=mode), list(range(0, n_trials)))",
    "cell": "best_fit_results[-1][trial_columns[idx]] = g_best.cost",
}
EXPECT_RESOLVE = ["self._algorithm.set_config_parameters(self.best_parameters)",
                  "return self._algorithm.optimize(task=self._problem, mode=mode, workers=n_workers)"]


def method(tree, cls, name):
    for c in tree.body:
        if isinstance(c, ast.ClassDef) and c.name == cls:
            for m in c.body:
                if isinstance(m, ast.FunctionDef) and m.name == name: return m
    return None


def stmts_text(fn):
    out = []
    for n in ast.walk(fn):
        if isinstance(n, ast.stmt) and not isinstance(n, (ast.FunctionDef,)):
            t = ast.unparse(n)
            out.append(t.split("\n")[0] if isinstance(n, (ast.For, ast.With, ast.If, ast.Try, ast.While)) else " ".join(t.split()))
    return out


EXPECT_MULTI = {
    "__run__": [
        "result = optimizer.optimize(task, mode=str(mode), workers=self._n_workers)",
        "return {'id_trial': id_trial, 'solution': result, 'problem_name': task.name}"],
    "execute": [
        "self._debug = debug",
        "n_cpus = np.clip(n_jobs, 2, os.cpu_count() - 1, dtype=int)",
        "trial_list = list(range(1, n_trials + 1))",
        "for id_optimizer, optimizer in enumerate(self._algorithms): best_fit_optimizer_results = {} for id_task, task in enumerate(self._tasks): mode = self.__get_mode__(id_optimizer, id_task) best_fit_trials = self.__parallelize__(optimizer, task, mode, n_cpus, trial_list) best_fit_optimizer_results[f'{optimizer.name}_{task.name}'] = best_fit_trials self._df2.append(pd.DataFrame(best_fit_optimizer_results))"],
    "__parallelize__": [
        "best_fit_trials = []",
        "with parallel.ProcessPoolExecutor(n_cpus) as executor: list_results = executor.map(partial(self.__run__, optimizer=optimizer, task=task, mode=mode), trial_list) for result in list_results: best_fit_trials.append(result) self.__debug_results__(result, optimizer.name)",
        "return best_fit_trials"],
    "export_results": [
        "if save_as not in ExportType: raise ValueError(f'Export type {save_as} is not supported')",
        "export_function = getattr(self, f'export_to_{save_as}')",
        "save_path = save_path if save_path is not None else 'multitask'",
        "for id_optimizer, optimizer in enumerate(self._algorithms): optimizer_path = f'{save_path}/{optimizer.name}' Path(optimizer_path).mkdir(parents=True, exist_ok=True) filename = f'tuning_best_fit_{optimizer.name}_{datetime.now().strftime('%Y%m%d%H%M%S')}' export_function(self._df2[id_optimizer], f'{optimizer_path}/{filename}')"],
    "__init__": [
        "self.__set_keyword_arguments__(kwargs)", "self._algorithms = algorithms", "self._tasks = tasks", "self._n_algorithms = len(self._algorithms)",
        "self._m_tasks = len(self._tasks)", "self._modes = self.__check_input__('modes', 'str (thread, process, serial)', modes)", "self._n_workers = n_workers",
        "self._debug: bool | None = None", "self._df2: list[pd.DataFrame] = []", "self.__check_modes__()"],
}


def body_text(fn):
    return [" ".join(ast.unparse(s).split()) for s in fn.body if not (isinstance(s, ast.Expr) and isinstance(s.value, ast.Constant))]


def emit_multi(repo: Path, status: dict, flags: dict) -> None:
    try:
        tree = ast.parse((repo / "pyvolutionary" / "multitask.py").read_text())
        changed = []
        for name, want in EXPECT_MULTI.items():
            fn = method(tree, "Multitask", name)
            if fn is None or body_text(fn) != want: changed.append(name)
        flags["gen_multitask_shape"] = not changed
        status["gen_multitask_shape"] = "regenerated" if not changed else "UNSUPPORTED: methods changed: " + ", ".join(changed)
    except Exception as e:
        flags["gen_multitask_shape"] = False
        status["gen_multitask_shape"] = f"ERROR: {e}"


EXPECT_POOL = {
    "get_pool_executor": ["return parallel.ThreadPoolExecutor(n_workers) if mode == ModeSolver.THREAD else parallel.ProcessPoolExecutor(n_workers)"],
    "get_pool_results": ["res = []", "for i in parallel.as_completed(executors): res.append(i.result())", "return res"],
}


def emit_pool(repo: Path, status: dict, flags: dict) -> None:
    try:
        tree = ast.parse((repo / "pyvolutionary" / "helpers.py").read_text())
        fns = {n.name: n for n in tree.body if isinstance(n, ast.FunctionDef)}
        changed = [k for k, want in EXPECT_POOL.items() if k not in fns or body_text(fns[k]) != want]
        # the two call sites in abstract.py
        at = (repo / "pyvolutionary" / "abstract.py").read_text()
        if at.count("with get_pool_executor(self._mode, self._workers) as executor:") != 2 or at.count("get_pool_executor(") != 2:
            changed.append("call sites of get_pool_executor")
        flags["gen_pool_shape"] = not changed
        status["gen_pool_shape"] = "regenerated" if not changed else "UNSUPPORTED: changed: " + ", ".join(changed)
    except Exception as e:
        flags["gen_pool_shape"] = False; status["gen_pool_shape"] = f"ERROR: {e}"


EXPECT_ENUM = {"MetaEnum.__contains__": ["try: cls(item) except ValueError: return False", "return True"],
               "ModeSolver": ["SERIAL = 'serial'", "THREAD = 'thread'", "PROCESS = 'process'"]}


def emit_enum(repo: Path, status: dict, flags: dict) -> None:
    """`x in ModeSolver` is exactly `ModeSolver(x) succeeds` (the model uses ONE predicate `valid` for the membership test of the constructor and for the
    conversion in __get_mode__ / optimize), and the enum has exactly the three documented values"""
    try:
        tree = ast.parse((repo / "pyvolutionary" / "enums.py").read_text())
        cl = {c.name: c for c in tree.body if isinstance(c, ast.ClassDef)}
        changed = []
        m = method(tree, "MetaEnum", "__contains__")
        if m is None or body_text(m) != EXPECT_ENUM["MetaEnum.__contains__"]: changed.append("MetaEnum.__contains__")
        ms = cl.get("ModeSolver")
        if ms is None or body_text(ms) != EXPECT_ENUM["ModeSolver"] or [ast.unparse(b) for b in ms.bases] != ["Enum"]: changed.append("ModeSolver")
        en = cl.get("Enum")
        if en is None or not any(k.arg == "metaclass" and ast.unparse(k.value) == "MetaEnum" for k in en.keywords): changed.append("Enum metaclass")
        flags["gen_enum_shape"] = not changed
        status["gen_enum_shape"] = "regenerated" if not changed else "UNSUPPORTED: changed: " + ", ".join(changed)
    except Exception as e:
        flags["gen_enum_shape"] = False; status["gen_enum_shape"] = f"ERROR: {e}"


def emit_bounds_fresh(repo: Path, status: dict, flags: dict) -> None:
    """Task.get_bounds() returns freshly built arrays on every path: each `return` is a tuple of np.array(<list built in this call>) - never an attribute, a
    cached object or np.asarray(...) of something obtained elsewhere (optimizers edit the returned bounds in place: Ant Lion)"""
    try:
        tree = ast.parse((repo / "pyvolutionary" / "models.py").read_text())
        fn = method(tree, "Task", "get_bounds")
        bad = []
        if fn is None: bad.append("Task.get_bounds not found")
        else:
            fresh_lists = {t.id for st in ast.walk(fn) if isinstance(st, ast.Assign) and isinstance(st.value, ast.List) and not st.value.elts
                           for t in st.targets if isinstance(t, ast.Name)}
            rets = [n for n in ast.walk(fn) if isinstance(n, ast.Return)]
            if not rets: bad.append("no return")
            for rt in rets:
                ok = isinstance(rt.value, ast.Tuple) and len(rt.value.elts) == 2 and all(
                    isinstance(e, ast.Call) and ast.unparse(e.func) == "np.array" and len(e.args) == 1 and not e.keywords
                    and isinstance(e.args[0], ast.Name) and e.args[0].id in fresh_lists for e in rt.value.elts)
                if not ok: bad.append("return " + ast.unparse(rt.value)[:60])
        flags["gen_task_bounds_fresh"] = not bad
        status["gen_task_bounds_fresh"] = "regenerated" if not bad else "UNSUPPORTED: " + "; ".join(bad)
    except Exception as e:
        flags["gen_task_bounds_fresh"] = False; status["gen_task_bounds_fresh"] = f"ERROR: {e}"


def hash_order_sites(repo: Path) -> list[str]:
    """set / frozenset values whose ITERATION ORDER is observed (list(), tuple(), a for loop, a comprehension, np.array, join, enumerate, zip, unpacking ...) without
    sorted(): the order of a set of strings depends on the interpreter's per-process hash seed.  Sets of integers derived from range(...) by difference /
    intersection iterate in a hash-seed independent order and are accepted."""
    def is_setexpr(n):
        return (isinstance(n, ast.Call) and isinstance(n.func, ast.Name) and n.func.id in ("set", "frozenset")) or isinstance(n, (ast.Set, ast.SetComp)) \
            or (isinstance(n, ast.BinOp) and isinstance(n.op, (ast.Sub, ast.BitOr, ast.BitAnd, ast.BitXor)) and (is_setexpr(n.left) or is_setexpr(n.right)))

    def int_range_set(n):
        if isinstance(n, ast.Call) and isinstance(n.func, ast.Name) and n.func.id == "set" and len(n.args) == 1 \
                and isinstance(n.args[0], ast.Call) and ast.unparse(n.args[0].func) == "range":
            return True
        if isinstance(n, ast.BinOp) and isinstance(n.op, (ast.Sub, ast.BitAnd)):      # a subset of an integer range
            return int_range_set(n.left)
        return False
    sites = []
    for f in sorted((repo / "pyvolutionary").rglob("*.py")):
        try: tree = ast.parse(f.read_text())
        except SyntaxError: continue
        parents = {}
        for n in ast.walk(tree):
            for c in ast.iter_child_nodes(n): parents[c] = n
        for n in ast.walk(tree):
            if not is_setexpr(n) or (n in parents and is_setexpr(parents[n]) and isinstance(parents[n], ast.BinOp)): continue       # maximal set expressions only
            if int_range_set(n): continue
            par = parents.get(n)
            ordered = False
            if isinstance(par, ast.Call) and n in par.args:
                fn = ast.unparse(par.func)
                if fn == "sorted" or fn in ("len", "set", "frozenset", "any", "all", "min", "max", "sum", "isinstance"): continue
                ordered = True                                      # list(s), tuple(s), np.array(s), enumerate(s), zip(s), ''.join(s), f(s) ...
            elif isinstance(par, (ast.For, ast.comprehension)) and par.iter is n: ordered = True
            elif isinstance(par, ast.Starred): ordered = True
            elif isinstance(par, ast.Assign) and isinstance(par.targets[0], (ast.Tuple, ast.List)): ordered = True
            elif isinstance(par, ast.Compare) or isinstance(par, (ast.Assign, ast.AugAssign, ast.Return, ast.keyword, ast.Expr, ast.BoolOp, ast.UnaryOp, ast.IfExp, ast.If, ast.While)):
                continue                                            # membership tests, stored / returned sets: no order observed here
            if ordered: sites.append(f"{f.relative_to(repo)}:{n.lineno}: {ast.unparse(par)[:70]}")
    return sites


MUTATORS = {"append", "extend", "insert", "pop", "remove", "clear", "sort", "reverse", "update", "setdefault", "popitem", "add", "discard", "appendleft", "popleft", "fill", "put", "resize"}
MEMO_DECORATORS = {"lru_cache", "cache", "cached_property", "functools.lru_cache", "functools.cache", "functools.cached_property", "memoize"}


def shared_state_sites(repo: Path) -> list[str]:
    """state that outlives an object and is shared by every instance in the interpreter: (1) memoising decorators (the cache sits on the function object, keyed by
    the arguments - `self` included - and is never invalidated); (2) mutable values bound in the body of a class that is not a pydantic model (pydantic copies field
    defaults per instance; a plain class attribute is ONE object for all instances), or declared ClassVar anywhere; (3) module-level mutable containers that some
    function of the module mutates, and `global` rebinding.  Constants (tuples, strings, numbers, containers nobody mutates) are not state."""
    def mutable_value(v):
        if isinstance(v, (ast.List, ast.Dict, ast.Set, ast.ListComp, ast.DictComp, ast.SetComp)): return True
        if isinstance(v, ast.Call):
            f = ast.unparse(v.func)
            return f in ("list", "dict", "set", "defaultdict", "collections.defaultdict", "OrderedDict", "collections.OrderedDict", "deque", "collections.deque",
                         "Counter", "collections.Counter", "bytearray", "np.array", "np.zeros", "np.ones", "np.empty", "np.full", "WeakValueDictionary", "weakref.WeakValueDictionary",
                         "WeakKeyDictionary", "weakref.WeakKeyDictionary")
        return False
    sites = []
    trees = {}
    for f in sorted((repo / "pyvolutionary").rglob("*.py")):
        try: trees[f] = ast.parse(f.read_text())
        except SyntaxError: continue
    # which classes are pydantic models (transitively, by base-class name across the package)
    bases = {}
    for t in trees.values():
        for c in ast.walk(t):
            if isinstance(c, ast.ClassDef): bases[c.name] = [ast.unparse(b).split(".")[-1].split("[")[0] for b in c.bases]
    def is_model(name, seen=()):
        if name == "BaseModel": return True
        return any(is_model(b, seen + (name,)) for b in bases.get(name, []) if b not in seen)
    for f, t in trees.items():
        rel = f.relative_to(repo)
        for n in ast.walk(t):
            if isinstance(n, (ast.FunctionDef, ast.AsyncFunctionDef)):
                for d in n.decorator_list:
                    dn = ast.unparse(d.func if isinstance(d, ast.Call) else d)
                    if dn in MEMO_DECORATORS or dn.split(".")[-1] in MEMO_DECORATORS: sites.append(f"{rel}:{n.lineno}: @{dn} on {n.name}")
            if isinstance(n, ast.ClassDef):
                model = is_model(n.name)
                for st in n.body:
                    tgt = val = ann = None
                    if isinstance(st, ast.Assign) and len(st.targets) == 1: tgt, val = st.targets[0], st.value
                    elif isinstance(st, ast.AnnAssign) and st.value is not None: tgt, val, ann = st.target, st.value, ast.unparse(st.annotation)
                    if tgt is None or not isinstance(tgt, ast.Name): continue
                    classvar = ann is not None and "ClassVar" in ann
                    if tgt.id in ("model_config", "__slots__", "__all__"): continue
                    if mutable_value(val) and (classvar or not model):
                        # ... that somebody edits in place through an attribute access (x.name.append / x.name[k] = / x.name += ...); a container nobody edits is a constant
                        def edited(nm):
                            for m_ in (x_ for tt_ in trees.values() for x_ in ast.walk(tt_)):          # anywhere in the package (a subclass in another module)
                                if isinstance(m_, ast.Call) and isinstance(m_.func, ast.Attribute) and m_.func.attr in MUTATORS and isinstance(m_.func.value, ast.Attribute) and m_.func.value.attr == nm: return True
                                if isinstance(m_, ast.Subscript) and isinstance(m_.ctx, (ast.Store, ast.Del)) and isinstance(m_.value, ast.Attribute) and m_.value.attr == nm: return True
                                if isinstance(m_, ast.AugAssign) and isinstance(m_.target, ast.Attribute) and m_.target.attr == nm: return True
                                if isinstance(m_, ast.Call) and ast.unparse(m_.func) in ("setattr",) and len(m_.args) >= 2 and isinstance(m_.args[1], ast.Constant) and m_.args[1].value == nm: return True
                            return False
                        if edited(tgt.id):
                            sites.append(f"{rel}:{st.lineno}: class attribute {n.name}.{tgt.id} = {ast.unparse(val)[:40]} (edited in place)")
        # module level
        top = {}
        for st in t.body:
            if isinstance(st, ast.Assign) and len(st.targets) == 1 and isinstance(st.targets[0], ast.Name) and mutable_value(st.value): top[st.targets[0].id] = st.lineno
            elif isinstance(st, ast.AnnAssign) and isinstance(st.target, ast.Name) and st.value is not None and mutable_value(st.value): top[st.target.id] = st.lineno
        top.pop("__all__", None)
        for fn in ast.walk(t):
            if not isinstance(fn, (ast.FunctionDef, ast.AsyncFunctionDef, ast.Lambda)): continue
            for n in ast.walk(fn):
                if isinstance(n, ast.Global): sites.append(f"{rel}:{n.lineno}: global {', '.join(n.names)}")
                hit = None
                if isinstance(n, (ast.Subscript, ast.Attribute)) and isinstance(n.ctx, (ast.Store, ast.Del)) and isinstance(n.value, ast.Name) and n.value.id in top: hit = n.value.id
                if isinstance(n, ast.AugAssign) and isinstance(n.target, ast.Name) and n.target.id in top: hit = n.target.id
                if isinstance(n, ast.Call) and isinstance(n.func, ast.Attribute) and n.func.attr in MUTATORS and isinstance(n.func.value, ast.Name) and n.func.value.id in top: hit = n.func.value.id
                if hit: sites.append(f"{rel}:{n.lineno}: module-level {hit} (line {top[hit]}) mutated in a function")
    return sorted(set(sites))


def emit_shared_state(repo: Path, status: dict, flags: dict) -> None:
    try:
        sites = shared_state_sites(repo)
        flags["gen_no_shared_mutable_state"] = not sites
        status["gen_no_shared_mutable_state"] = "regenerated" if not sites else "UNSUPPORTED: state shared between instances at " + " | ".join(sites[:4])
    except Exception as e:
        flags["gen_no_shared_mutable_state"] = False; status["gen_no_shared_mutable_state"] = f"ERROR: {e}"


def emit_helpers_pure(repo: Path, status: dict, flags: dict) -> None:
    """no function of helpers.py edits an argument in place (a mutating method, an element / slice store, an augmented assignment, an in-place numpy function -
    directly, through a local alias, through np.asarray / reshape / ravel ... which may return the SAME array, or through another helper).  The helpers are called
    by the optimizers with their own objects and - documented in the README - by users' objective functions with data that belongs to the caller's task."""
    try:
        from . import talgo
        hm, _ = talgo.param_mutations(repo)
        bad = {k: v for k, v in hm.items() if v}
        flags["gen_helpers_do_not_mutate_arguments"] = not bad
        status["gen_helpers_do_not_mutate_arguments"] = "regenerated" if not bad else "UNSUPPORTED: helpers editing a parameter in place: " + ", ".join(f"{k}{v}" for k, v in sorted(bad.items()))
    except Exception as e:
        flags["gen_helpers_do_not_mutate_arguments"] = False; status["gen_helpers_do_not_mutate_arguments"] = f"ERROR: {e}"


def emit_hash_order(repo: Path, status: dict, flags: dict) -> None:
    try:
        sites = hash_order_sites(repo)
        flags["gen_no_hash_ordered_iteration"] = not sites
        status["gen_no_hash_ordered_iteration"] = "regenerated" if not sites else "UNSUPPORTED: hash-ordered iteration at " + " | ".join(sites[:4])
    except Exception as e:
        flags["gen_no_hash_ordered_iteration"] = False; status["gen_no_hash_ordered_iteration"] = f"ERROR: {e}"


EXPECT_TASK = {
    "__init__": ["variables = kwargs.get('variables')", "kwargs['space_dimension'] = sum([v.size() for v in variables])", "super().__init__(**kwargs)", "self._EPS = np.finfo(float).eps"],
    "empty_solution": ["solution = [item for v in self.variables for item in (v.randomize() if v.has_children() else [v.randomize()])]", "return solution"],
}


def emit_task_shape(repo: Path, status: dict, flags: dict) -> None:
    """the parts of Task that T-core does not translate: the statements of __init__ around the dimension, and empty_solution (random draws): exactly the modelled text.
    (get_variables, get_bounds, transform_solution and the dimension expression are REGENERATED: gen/GenTask.v, bridge/TaskBridge.v)"""
    try:
        tree = ast.parse((repo / "pyvolutionary" / "models.py").read_text())
        changed = []
        for name, want in EXPECT_TASK.items():
            fn = method(tree, "Task", name)
            if fn is None or body_text(fn) != want: changed.append(name)
        flags["gen_task_methods_shape"] = not changed
        status["gen_task_methods_shape"] = "regenerated" if not changed else "UNSUPPORTED: Task methods changed: " + ", ".join(changed)
    except Exception as e:
        flags["gen_task_methods_shape"] = False; status["gen_task_methods_shape"] = f"ERROR: {e}"


EXPECT_ENCODER = {
    ("LabelEncoder", "__init__"): ["self.__unique_labels__ = None", "self.__label_to_index__ = {}"],
    ("LabelEncoder", "__set_y__"): ["if type(y) not in (list, tuple, np.ndarray): y = (y,)", "return y"],
    ("LabelEncoder", "fit_transform"): ["y = self.__set_y__(y)", "self.fit(y)", "return self.transform(y)"],
}


def emit_encoder_shape(repo: Path, status: dict, flags: dict) -> None:
    """what T-core does not translate of LabelEncoder: the constructor leaves both fields unset PER INSTANCE (no class-level table), __set_y__ leaves a list a list;
    the two fields are assigned in __init__ and fit only, and PermutationVariable's encoder / label table in its __init__ only (fit, transform, inverse_transform, the
    label table and decode are REGENERATED: gen/GenLabels.v, gen/GenVars.v)"""
    try:
        tree = ast.parse((repo / "pyvolutionary" / "models.py").read_text())
        changed = []
        for (cls, name), want in EXPECT_ENCODER.items():
            fn = method(tree, cls, name)
            if fn is None or body_text(fn) != want: changed.append(f"{cls}.{name}")
        for c in tree.body:
            if isinstance(c, ast.ClassDef) and c.name == "LabelEncoder":
                extra = [ast.unparse(st)[:40] for st in c.body if not isinstance(st, ast.FunctionDef) and not (isinstance(st, ast.Expr) and isinstance(st.value, ast.Constant))]
                if extra: changed.append("LabelEncoder class body: " + "; ".join(extra))
        stores = {}
        for c in tree.body:
            if not isinstance(c, ast.ClassDef): continue
            for m in c.body:
                if not isinstance(m, ast.FunctionDef): continue
                for n in ast.walk(m):
                    if isinstance(n, ast.Attribute) and isinstance(n.ctx, (ast.Store, ast.Del)) and n.attr in ("__unique_labels__", "__label_to_index__", "_label_encoder", "_labels"):
                        stores.setdefault(n.attr, set()).add(f"{c.name}.{m.name}")
        want_stores = {"__unique_labels__": {"LabelEncoder.__init__", "LabelEncoder.fit"}, "__label_to_index__": {"LabelEncoder.__init__", "LabelEncoder.fit"},
                       "_label_encoder": {"PermutationVariable.__init__"}, "_labels": {"PermutationVariable.__init__"}}
        if stores != want_stores: changed.append(f"assignments to the encoder fields: {sorted((k, sorted(v)) for k, v in stores.items())}")
        flags["gen_label_encoder_shape"] = not changed
        status["gen_label_encoder_shape"] = "regenerated" if not changed else "UNSUPPORTED: changed: " + ", ".join(changed)
    except Exception as e:
        flags["gen_label_encoder_shape"] = False; status["gen_label_encoder_shape"] = f"ERROR: {e}"


def class_text(tree, name):
    for c in tree.body:
        if isinstance(c, ast.ClassDef) and c.name == name:
            return [" ".join(ast.unparse(s_).split()) for s_ in c.body if not (isinstance(s_, ast.Expr) and isinstance(s_.value, ast.Constant))]
    return None


EXPECT_CONFIG = {
    "EarlyStopping": ['patience: int | None = 1', 'min_delta: float | None = 0.0001', '@field_validator(\'patience\') def validate_patience(cls, v): if v is None: return cls.model_fields[\'patience\'].default if v < 1: raise ValueError(f\'"patience" must be greater than or equal to one. Got {v}\') return v', "@field_validator('min_delta') def validate_min_delta(cls, v): return cls.model_fields['min_delta'].default if v is None else v"],
    "BaseOptimizationConfig": ['population_size: int', 'fitness_error: float | None = 0.1', 'max_cycles: int', 'early_stopping: EarlyStopping | None = None'],
}


def emit_config_shape(repo: Path, status: dict, flags: dict) -> None:
    """the stop options reach __should_stop__ exactly as configured: EarlyStopping / BaseOptimizationConfig have exactly these fields and validators (the only rewriting is
    None -> the field's default; nothing touches a number, e.g. no "default filling" `or` that would turn min_delta = 0.0 into 1e-4)"""
    try:
        tree = ast.parse((repo / "pyvolutionary" / "models.py").read_text())
        changed = [k for k, want in EXPECT_CONFIG.items() if class_text(tree, k) != want]
        flags["gen_stop_config_shape"] = not changed
        status["gen_stop_config_shape"] = "regenerated" if not changed else "UNSUPPORTED: changed: " + ", ".join(changed)
    except Exception as e:
        flags["gen_stop_config_shape"] = False; status["gen_stop_config_shape"] = f"ERROR: {e}"


def emit(repo: Path, status: dict) -> None:
    flags = {}
    emit_config_shape(repo, status, flags)
    emit_task_shape(repo, status, flags)
    emit_encoder_shape(repo, status, flags)
    emit_hash_order(repo, status, flags)
    emit_shared_state(repo, status, flags)
    emit_helpers_pure(repo, status, flags)
    emit_bounds_fresh(repo, status, flags)
    emit_multi(repo, status, flags)
    emit_enum(repo, status, flags)
    emit_pool(repo, status, flags)
    try:
        tree = ast.parse((repo / "pyvolutionary" / "hypertuner.py").read_text())
        ex = method(tree, "HyperTuner", "execute")
        texts = stmts_text(ex) if ex else []
        missing = [k for k, v in EXPECT_HYPER.items() if v not in texts]
        flags["gen_hypertuner_selection_shape"] = not missing
        rs = method(tree, "HyperTuner", "resolve")
        rtexts = [t for t in (stmts_text(rs) if rs else []) if not t.startswith('"""') and not t.startswith("'")]
        flags["gen_hypertuner_resolve_shape"] = [t for t in rtexts if not (t.startswith('"') or t.startswith("'"))][-2:] == EXPECT_RESOLVE
        status["gen_hypertuner_selection_shape"] = "regenerated" if not missing else "UNSUPPORTED: statements changed: " + ", ".join(missing)
        status["gen_hypertuner_resolve_shape"] = "regenerated" if flags["gen_hypertuner_resolve_shape"] else "UNSUPPORTED: resolve() changed"
    except Exception as e:
        flags["gen_hypertuner_selection_shape"] = flags["gen_hypertuner_resolve_shape"] = False
        status["gen_hypertuner_selection_shape"] = f"ERROR: {e}"
    body = HEADER + "".join(f"Definition {k} : bool := {'true' if v else 'false'}.\n" for k, v in flags.items())
    coq.write_if_changed(coq.COQ / "gen" / "GenHyper.v", body)
