"""Exact embedding of Python / numpy numbers into the Coq carriers (trusted base, DESIGN.md §3).

xnum literal:  `(mk m e)` with value = m * 2**e exactly (checked with Fraction), NaN / ±inf as
constructors, Python ints as `(xint k)`.  PrimFloat literal: C99 hex literal understood by Coq.
"""
from __future__ import annotations
import math
from fractions import Fraction

import numpy as np


def is_intlike(v) -> bool:
    return isinstance(v, (bool, np.bool_, int, np.integer))


def xlit(v) -> str:
    """Coq text of the xnum embedding of v (float, int, numpy scalar, bool)."""
    if is_intlike(v):
        return f"(xint ({int(v)}))"
    v = float(v)
    if math.isnan(v):
        return "XNaN"
    if math.isinf(v):
        return "XPInf" if v > 0 else "XNInf"
    if v == 0.0:
        return "(mk 0 0)"
    f, x = math.frexp(v)
    m = int(f * 2 ** 53)
    assert m == f * 2 ** 53 and Fraction(m) * Fraction(2) ** (x - 53) == Fraction(v), v
    e = x - 53
    assert e + 1074 >= 0 or m % (2 ** (-(e + 1074))) == 0, v   # subnormals: mantissa has trailing zeros
    # normalise so that e + 1074 >= 0 (shiftl with a negative amount would shift right)
    while e + 1074 < 0:
        m //= 2
        e += 1
    return f"(mk ({m}) ({e}))"


def xkey(v):
    """Python-side canonical value equal iff the xnum embeddings are equal."""
    if is_intlike(v):
        return ("f", Fraction(int(v)))
    v = float(v)
    if math.isnan(v):
        return ("nan",)
    if math.isinf(v):
        return ("inf", v > 0)
    return ("f", Fraction(v))


def flit(v) -> str:
    """Coq PrimFloat literal, bit exact (hex float)."""
    v = float(v)
    if math.isnan(v):
        return "nan"
    if math.isinf(v):
        return "infinity" if v > 0 else "neg_infinity"
    if v == 0.0:
        return "(-0)%float" if math.copysign(1.0, v) < 0 else "0%float"
    h = v.hex()                      # e.g. -0x1.8p+1
    return f"({h})%float"


def natlist(l) -> str:
    return "[" + ";".join(str(int(i)) for i in l) + "]%nat"


def coqlist(items) -> str:
    return "[" + ";".join(items) + "]"


def coqstr(s: str) -> str:
    return '"' + s.replace('"', '""') + '"'


def coqopt(x, f=str) -> str:
    return "None" if x is None else f"(Some {f(x)})"


def coqbool(b) -> str:
    return "true" if b else "false"
