"""C15 — history fidelity (independent deep snapshots after every cycle vs result.evolution) and the trend
utilities (correspondence of the regenerated utils with the real ones; idx-th best in the task's direction)."""
from __future__ import annotations
import json
import math

from .. import coq
from ..lit import xlit, natlist, coqlist, xkey

PREAMBLE = r"""
From PV Require Import Xnum Select PyLib Trend.
From PVGen Require Import GenTrend.
Definition Ag := (nat * xnum)%type.
Definition x_eqb (a b : xnum) : bool := match a, b with XNaN, XNaN => true | _, _ => xeqb a b end.
Fixpoint xl_eqb (a b : list xnum) : bool :=
  match a, b with [] , [] => true | x :: t, y :: u => x_eqb x y && xl_eqb t u | _, _ => false end.
Fixpoint nl_eqb (a b : list nat) : bool :=
  match a, b with [] , [] => true | x :: t, y :: u => Nat.eqb x y && nl_eqb t u | _, _ => false end.
Inductive case := KTrend (evo : list (list Ag)) (d : dir) (idx : nat) (iters : option (list nat))
                         (costs : option (list xnum)) (ids : option (list nat)).
Definition check (c : case) : bool :=
  match c with
  | KTrend evo d idx iters ec ei =>
      match gen_agent_trend Ag snd evo d idx iters, ec with
      | Some r, Some e => xl_eqb r e | None, None => true | _, _ => false end
      && match gen_agent_position Ag snd nat fst evo d idx iters, ei with
         | Some r, Some e => nl_eqb r e | None, None => true | _, _ => false end
      && match idx with 0 => match gen_best_agent_trend Ag snd evo d iters, ec with
                              | Some r, Some e => xl_eqb r e | None, None => true | _, _ => false end
                      | _ => true end
  end.
"""

COSTS = [float("-inf"), -2.5, -1.0, -0.0, 0.0, 1.0, 1.0, 2.0, 3.5, float("inf")]


def utils_correspondence(ctx, n):
    from pyvolutionary import utils as U, Agent
    from pyvolutionary.models import Population, OptimizationResult
    from ..harness import exc_class
    r = ctx.rng
    items, metas = [], []
    for _ in range(n):
        G = r.randint(1, 5); P = r.randint(1, 5)
        mm = r.choice(["min", "max"])
        evo = [[r.choice(COSTS) if r.random() < 0.7 else r.uniform(-5, 5) for _ in range(P)] for _ in range(G)]
        pops = [Population(agents=[Agent(position=[1000 * g + i], cost=c, fitness=0.5) for i, c in enumerate(cs)]) for g, cs in enumerate(evo)]
        res = OptimizationResult(evolution=pops, rates=[], best_solution=None, task_type=mm)
        idx = r.randint(0, P) if r.random() < 0.15 else r.randint(0, P - 1)       # sometimes out of range
        iters = None if r.random() < 0.5 else [r.randint(0, G - 1) if r.random() < 0.9 else G for _ in range(r.randint(0, 4))]
        meta = {"evolution": [[float(c).hex() for c in cs] for cs in evo], "minmax": mm, "idx": idx, "iters": iters}
        try:
            tc = [float(x) for x in U.agent_trend(res, idx, iters)]
            tp = [p[0] for p in U.agent_position(res, idx, iters)]
            err = None
        except IndexError:
            tc = tp = None; err = "ErrIndex"
        if err is None:
            its = list(range(G)) if iters is None else iters
            for i, c in zip(its, tc):
                ranked = sorted(evo[i], reverse=(mm == "max"))
                if xkey(ranked[idx]) != xkey(c):
                    ctx.violation("trend:not the idx-th best in the task's direction", f"agent_trend(idx={idx}) gives {c!r} for generation {i}; the idx-th best cost ({mm}) is {ranked[idx]!r}", meta)
            if idx == 0:
                bt = [float(x) for x in U.best_agent_trend(res, iters)]
                if [xkey(x) for x in bt] != [xkey(x) for x in tc]:
                    ctx.violation("trend:best_agent_trend differs from agent_trend(0)", f"{bt!r} vs {tc!r}", meta)
        evl = coqlist([coqlist([f"({1000 * g + i}%nat, {xlit(c)})" for i, c in enumerate(cs)]) for g, cs in enumerate(evo)])
        itl = "None" if iters is None else f"(Some {natlist(iters)})"
        ecl = "None" if tc is None else "(Some " + coqlist([xlit(x) for x in tc]) + ")"
        eil = "None" if tp is None else f"(Some {natlist(tp)})"
        items.append(f"KTrend {evl} {'MIN' if mm == 'min' else 'MAX'} {idx}%nat {itl} {ecl} {eil}")
        metas.append(meta)
    res = coq.run_cases("C15", PREAMBLE, items, "check", shard=300)
    return items, metas, res


def history_problems(o):
    mm = o["job"]["task"].get("minmax", "min")
    sn, ev = o["snapshots"], o["evolution"]
    probs = []
    if len(sn) != len(ev):
        return [f"{len(ev)} recorded generations but {len(sn)} snapshots"]
    for k, (s, e) in enumerate(zip(sn, ev)):
        want = [(p, (-c if mm == "max" else c), f) for p, c, f in s]
        got = [(p, c, f) for p, c, f in e]
        from ..lifesearch import same_pos
        same = len(want) == len(got) and all((a[0] == b[0] or same_pos(a[0], b[0])) and xkey(a[1]) == xkey(b[1]) and (a[2] == b[2] or (math.isnan(a[2]) and math.isnan(b[2]))) for a, b in zip(want, got))
        if not same:
            probs.append(f"generation {k} of `evolution` differs from the population as it stood after cycle {k}")
            break
    if o.get("evolution_after_utilities") is not None and json.dumps(o["evolution_after_utilities"], default=str) != json.dumps(ev, default=str):
        k = next((i for i, (a, b) in enumerate(zip(o["evolution_after_utilities"], ev)) if json.dumps(a, default=str) != json.dumps(b, default=str)), "?")
        probs.append(f"calling the trend utilities altered the recorded history: generation {k} of `evolution` is no longer the population as it stood after cycle {k} (order included)")
    if o.get("best_trend") is not None and o["best"] is not None and o["best_trend"]:
        if xkey(o["best_trend"][-1]) != xkey(o["best"][1]):
            probs.append(f"last entry of best_agent_trend ({o['best_trend'][-1]!r}) != best_solution.cost ({o['best'][1]!r}) [{mm}]")
    return probs


def run(ctx, info):
    from .. import search
    ctx.trusted += ["T-algo provenance facts (no core write => recorded agents are immutable)", "T-core idiom for the trend cell expression of utils.py",
                    "harness snapshot subclass (deep copies after _init_population and after every optimization_step)"]
    ctx.assumptions += ["fidelity is over the three Agent fields of the result type (position, cost, fitness); private bookkeeping fields of agent subclasses are not part of it",
                        "0 <= idx (negative Python indexes are outside the model)", "no NaN costs"]
    st = info.get("regen", {})
    ctx.ties = {k: st.get(k) for k in ("gen_agent_trend", "gen_best_agent_trend", "gen_agent_position", "gen_best_agent_position", "gen_population_refine", "algos")}
    items, metas, res = utils_correspondence(ctx, 600 if ctx.quick else 10000)
    distinct = len({json.dumps(m, sort_keys=True) for m in metas})
    ctx.add_cover(len(items), distinct, "random results (1-5 generations, 1-5 agents, cost alphabets with ties/inf/negatives, min and max), all four utilities with "
                  "idx in and out of range and iteration subsets, against the regenerated model in Coq and against direct ranking", [metas[0], metas[-1]])
    for e in res["errors"]:
        ctx.broke("correspondence:C15 case evaluation", e)
    for i in res["bad"][:5]:
        ctx.broke(f"correspondence:Trend.v vs utils.py on {json.dumps(metas[i])[:400]}", "model and implementation differ")
    ctx.coverage["correspondence"] = {"cases": res["n"], "disagreements": len(res["bad"]), "files": res["files"]}
    from .. import scripted, edgesuite
    scripted.long_runs(ctx, [("history", scripted.oracle_c15)])
    edgesuite.run(ctx, "history", info=info, focus=[n for n, sk in st.get("_skeletons", {}).items() if sk.get("core_writes") and n != "ImperialistCompetitiveOptimization"])
    r = ctx.rng
    jobs = []
    for nm in search.all_names():
        for _ in range((1 if ctx.quick else 3) * ctx.boost):
            jobs.append({"opt": nm, "cfg": {"max_cycles": r.choice([3, 5, 12]), "fitness_error": None}, "snapshots": True, "trends": True,
                         "task": search.cont_task(obj=r.choice(["sphere", "step", "linear"]), minmax=r.choice(["min", "max"]), seed=r.randint(0, 10**6))})
    # optimizers for which T-algo now reports stores to position / cost / fitness of existing agents: many longer runs (the store may need a rare event)
    sks_ = st.get("_skeletons", {})
    for nm in [n for n, sk in sks_.items() if sk.get("core_writes") and n != "ImperialistCompetitiveOptimization"]:
        for _ in range(12):
            jobs.append({"opt": nm, "cfg": {"max_cycles": r.choice([10, 20, 30]), "fitness_error": None}, "snapshots": True, "trends": True,
                         "task": search.cont_task(obj=r.choice(["sphere", "rastrigin"]), minmax="min", seed=r.randint(0, 10**6))})
    # the same fidelity on a REUSED instance (a second / third run must record its own history only)
    for nm in (r.sample(search.all_names(), 16) if ctx.quick else search.all_names()):
        first = {"task": search.cont_task(obj="sphere", minmax=r.choice(["min", "max"]), seed=r.randint(0, 10**6))}
        jobs.append({"opt": nm, "cfg": {"max_cycles": r.choice([2, 4]), "fitness_error": None}, "snapshots": True, "trends": True,
                     "sequence": [first] * r.choice([1, 2]),
                     "task": search.cont_task(obj=r.choice(["sphere", "linear"]), minmax=r.choice(["min", "max"]), seed=r.randint(0, 10**6))})
    from ..driver import load_findings
    kjobs = [f["replay"]["job"] for f in load_findings() if f.get("property") == "C15" and f.get("status") == "known" and f.get("replay", {}).get("kind") == "job"]
    obs = search.run_jobs(kjobs + jobs)
    n_ok = 0
    for o in obs:
        if not o["ok"]: continue
        n_ok += 1
        for p in history_problems(o):
            ctx.violation(f"history:{o['job']['opt']}:{p.split(' ')[0]}", f"{o['job']['opt']}: {p}", {"kind": "job", "job": o["job"]})
    ctx.coverage["real_optimizer_runs"] = {"jobs": len(jobs), "completed": n_ok}
    ctx.coverage["evaluations"] += len(jobs)
    ctx.coverage["distinct_nontrivial"] += n_ok


def replay(rep):
    from .. import search
    print(json.dumps({k: v for k, v in rep.items() if k != "replay"}, indent=1)[:1000])
    m = rep["replay"]
    if m.get("kind") == "long-history":
        from .. import scripted
        return scripted.replay_long(m, [("history", scripted.oracle_c15)])
    if m.get("kind") == "job":
        o = search.run_job(m["job"])
        probs = history_problems(o) if o["ok"] else [o.get("error")]
        print("problems:", probs)
        return 1 if probs else 0
    print(json.dumps(m)[:1500])
    return 1
