"""C16 — selection helpers.  Correspondence of the regenerated definitions (GenSelect.v) with the real
helpers.py / abstract.py on exhaustive small populations and random larger ones, plus a direct
decision of the property on the real outputs (used to turn a disagreement into a replay)."""
from __future__ import annotations
import itertools
import json
import math

from .. import coq
from ..lit import xlit, natlist, coqlist

ALPHABET = [float("-inf"), -1.0, -0.0, 0.0, 2.0, float("inf")]

PREAMBLE = r"""
From PV Require Import Xnum Select PyLib.
From PVGen Require Import GenSelect.
Definition Ag := (nat * xnum)%type.
Definition agents (base : nat) (cs : list xnum) : list Ag := combine (seq base (length cs)) cs.
Definition ids (l : list Ag) : list nat := map fst l.
Definition oids (o : option Ag) : list nat := match o with Some a => [fst a] | None => [] end.
Fixpoint nat_list_eqb (a b : list nat) : bool :=
  match a, b with [] , [] => true | x :: t, y :: u => Nat.eqb x y && nat_list_eqb t u | _, _ => false end.
Fixpoint ll_eqb (a b : list (list nat)) : bool :=
  match a, b with [] , [] => true | x :: t, y :: u => nat_list_eqb x y && ll_eqb t u | _, _ => false end.
Definition idc (a : Ag) : Ag := a.
Definition idp (l : list Ag) : list Ag := l.
(* numpy's argsort result must be a valid argsort of the costs *)
Fixpoint mem (x : nat) (l : list nat) := match l with [] => false | y :: t => Nat.eqb x y || mem x t end.
Fixpoint nodupb (l : list nat) := match l with [] => true | x :: t => negb (mem x t) && nodupb t end.
Definition is_argsortb (cs : list xnum) (pi : list nat) : bool :=
  Nat.eqb (length pi) (length cs) && nodupb pi && forallb (fun i => Nat.ltb i (length cs)) pi
  && sorted_leb (map (nth_key cs) pi).
Definition sel_outputs (cs : list xnum) (pi : list nat) : list (list nat) :=
  let l := agents 0 cs in
  flat_map (fun d =>
    [ids (gen_sort_by_cost Ag snd l d); gen_sort_by_cost_indexes Ag l d pi]
    ++ flat_map (fun n => [ids (gen_best_agents Ag snd l n d); ids (gen_worst_agents Ag snd l n d);
                           gen_best_agents_indexes Ag l n d pi; gen_worst_agents_indexes Ag l n d pi])
                (seq 0 (S (length cs)))
    ++ [oids (gen_best_agent Ag snd l d); oids (gen_worst_agent Ag snd l d)]
    ++ flat_map (fun nbw => match gen_special_agents Ag snd l (fst nbw) (snd nbw) d with Some (b, w) => [ids b; ids w] | None => [[999]] end)
         [(Some 1, Some 1); (None, Some (length cs)); (Some 0, Some 0); (Some (length cs), None); (Some 1, Some 0); (Some 0, Some 1);
          (Some (length cs), Some 0); (None, Some 0); (Some 0, None)]
    ++ match gen_special_agents Ag snd l None None d with Some _ => [[998]] | None => [[999]] end)
    [MIN; MAX]
  ++ map (fun p => ids (gen_sort_and_trim Ag snd l p)) (seq 0 (length cs + 2)).
Inductive case :=
| Sel (cs : list xnum) (pi : list nat) (expected : list (list nat))
| Gr (p : nat) (pop new : list xnum) (expected : list (list nat)).
Definition olist (o : option (list Ag)) : list nat := match o with Some l => ids l | None => [999] end.
Definition gr_outputs (p : nat) (pop new : list xnum) : list (list nat) :=
  let lp := agents 0 pop in let ln := agents 100 new in
  [ olist (gen_greedy_select_population Ag snd idc idp lp ln SERIAL);
    ids (gen_extend_and_trim_population Ag snd lp ln p);
    ids (gen_replace_and_trim_population Ag snd lp ln p);
    match lp, ln with a :: _, b :: _ => [fst (gen_greedy_select_agent Ag snd idc a b)] | _, _ => [] end ].
Definition check (c : case) : bool :=
  match c with
  | Sel cs pi e => is_argsortb cs pi && ll_eqb (sel_outputs cs pi) e
  | Gr p pop new e => ll_eqb (gr_outputs p pop new) e
  end.
"""


def real_sel(costs):
    """all outputs of the real helpers for one population, in the order of sel_outputs; also checks
    that no helper mutates / reorders the caller's list and decides the property directly."""
    import numpy as np
    from ..harness import mk_agent, TaskType
    from pyvolutionary import helpers as H
    pop = [mk_agent(i, c) for i, c in enumerate(costs)]
    frozen = list(pop)
    out, problems = [], []

    def ids(l): return [(a.position[0] if hasattr(a, "position") else -1) for a in l]          # -1: not an agent at all (e.g. None)

    def guard(name):
        if len(pop) != len(frozen) or any(a is not b for a, b in zip(pop, frozen)):
            problems.append(f"{name} mutated or reordered the caller's list")
            pop[:] = frozen

    def strictly_better(d, a, b):      # a strictly better than b in direction d
        return a.cost < b.cost if d == TaskType.MIN else a.cost > b.cost

    pi = [int(i) for i in np.argsort([a.cost for a in pop], axis=0).tolist()]
    for d in (TaskType.MIN, TaskType.MAX):
        s = H.sort_by_cost(pop, d); guard("sort_by_cost"); out.append(ids(s))
        if sorted(ids(s)) != list(range(len(pop))) or any(strictly_better(d, s[i + 1], s[i]) for i in range(len(s) - 1)):
            problems.append(f"sort_by_cost({d}) is not a sorted permutation")
        si = H.sort_by_cost_indexes(pop, d); guard("sort_by_cost_indexes"); out.append([int(i) for i in si])
        for n in range(len(pop) + 1):
            b = H.best_agents(pop, n, d); guard("best_agents")
            w = H.worst_agents(pop, n, d); guard("worst_agents")
            bi = H.best_agents_indexes(pop, n, d); guard("best_agents_indexes")
            wi = H.worst_agents_indexes(pop, n, d); guard("worst_agents_indexes")
            out += [ids(b), ids(w), [int(i) for i in bi], [int(i) for i in wi]]
            # the property, decided directly on the real outputs
            for name, r, best in (("best_agents", b, True), ("worst_agents", w, False)):
                rid = ids(r)
                if len(r) != n or len(set(rid)) != n or any(x not in frozen for x in r):
                    problems.append(f"{name}(n={n},{d}) does not return n distinct members"); continue
                omitted = [a for a in frozen if a.position[0] not in rid]
                if best and any(strictly_better(d, o, x) for o in omitted for x in r):
                    problems.append(f"{name}(n={n},{d}) omits a strictly better agent")
                if not best and any(strictly_better(d, x, o) for o in omitted for x in r):
                    problems.append(f"{name}(n={n},{d}) omits a strictly worse agent")
                if any(strictly_better(d, r[i + 1], r[i]) for i in range(len(r) - 1)):
                    problems.append(f"{name}(n={n},{d}) is not ordered best-first / worst-last")
            if len(bi) != n or len(set(bi)) != len(bi) or [pop[i].cost for i in bi] != [a.cost for a in b]:
                problems.append(f"best_agents_indexes(n={n},{d}) designates other costs than best_agents")
            if len(wi) != n or len(set(wi)) != len(wi) or [pop[i].cost for i in wi] != [a.cost for a in w]:
                problems.append(f"worst_agents_indexes(n={n},{d}) designates other costs than worst_agents")
        for fn in (H.best_agent, H.worst_agent):
            try:
                r = fn(pop, d); out.append([r.position[0]])
            except ValueError:
                out.append([])
            guard(fn.__name__)
        if pop:
            if strictly_better(d, min(pop, key=lambda a: a.cost) if d == TaskType.MIN else max(pop, key=lambda a: a.cost), H.best_agent(pop, d)):
                problems.append(f"best_agent({d}) is not optimal")
            # the single-index variants designate an agent with the cost of the best / worst agent
            for fn_, extreme in ((H.best_agent_index, (min if d == TaskType.MIN else max)), (H.worst_agent_index, (max if d == TaskType.MIN else min))):
                try:
                    i_ = int(fn_(pop, d))
                    if not (0 <= i_ < len(pop)) or pop[i_].cost != extreme(a.cost for a in pop):
                        problems.append(f"{fn_.__name__}({d}) = {i_}: that agent's cost is {pop[i_].cost if 0 <= i_ < len(pop) else None}, not {extreme(a.cost for a in pop)}")
                except Exception as ex_:
                    problems.append(f"{fn_.__name__}({d}) raises {type(ex_).__name__} on a non-empty population")
                guard(fn_.__name__)
        n_ = len(pop)
        for nb, nw in ((1, 1), (None, n_), (0, 0), (n_, None), (1, 0), (0, 1), (n_, 0), (None, 0), (0, None)):
            try:
                b, w = H.special_agents(pop, nb, nw, d); out += [ids(b), ids(w)]
                if any(x not in frozen for x in list(b) + list(w)):
                    problems.append(f"special_agents({nb},{nw},{d}) returns something that is not a member of the population: {[getattr(x, 'cost', x) for x in list(b) + list(w)]}")
                eb = H.best_agents(pop, nb, d) if nb is not None else []
                ew = H.worst_agents(pop, nw, d) if nw is not None else []
                if ids(b) != ids(eb) or ids(w) != ids(ew):
                    problems.append(f"special_agents({nb},{nw},{d}) differs from best_agents/worst_agents")
            except ValueError:
                out.append([999])
            except Exception as ex_:
                out += [[997], [997]]
                problems.append(f"special_agents({nb},{nw},{d}) raises {type(ex_).__name__}: {str(ex_)[:80]}")
            guard("special_agents")
        try:
            H.special_agents(pop, None, None, d); out.append([998])
        except ValueError:
            out.append([999])
    # what a helper returns belongs to the caller: editing a returned list in place (reverse, clear) must not change what the NEXT call returns - for this
    # population or for another one with the same costs (nothing memoised is handed out)
    twin = [mk_agent(i, c) for i, c in enumerate(costs)]
    def plain(v): return [int(x) if not hasattr(x, "position") else x.position[0] for x in v] if isinstance(v, (list, tuple, np.ndarray)) else v
    for d in (TaskType.MIN, TaskType.MAX):
        n_ = len(pop)
        calls = [("sort_by_cost", lambda P: H.sort_by_cost(P, d)), ("sort_by_cost_indexes", lambda P: H.sort_by_cost_indexes(P, d)),
                 ("best_agents", lambda P: H.best_agents(P, n_, d)), ("worst_agents", lambda P: H.worst_agents(P, max(n_ - 1, 0), d)),
                 ("best_agents_indexes", lambda P: H.best_agents_indexes(P, n_, d)), ("worst_agents_indexes", lambda P: H.worst_agents_indexes(P, n_, d)),
                 ("sort_and_trim", lambda P: H.sort_and_trim(P, n_))]
        for name, f in calls:
            try:
                r1 = f(pop); want = plain(r1)
                if isinstance(r1, list): r1.reverse(); del r1[len(r1) // 2:]
                elif isinstance(r1, np.ndarray) and r1.flags.writeable: r1[...] = r1[::-1].copy()
                got = [plain(f(pop)), plain(f(twin))]
                guard(name)
                if any(g != want for g in got):
                    problems.append(f"{name}({d}): after the caller edited the returned list in place, the next call returns {got[0] if got[0] != want else got[1]} instead of {want}")
            except Exception as ex_:
                problems.append(f"{name}({d}) raises {type(ex_).__name__} when called again after the caller edited its earlier result")
        if pop:
            for name, f in (("best_agent_index", lambda P: H.best_agent_index(P, d)), ("worst_agent_index", lambda P: H.worst_agent_index(P, d))):
                try:
                    i1 = int(f(pop)); r1 = H.sort_by_cost_indexes(pop, d)
                    if isinstance(r1, list): r1.reverse()
                    i2 = int(f(twin))
                    if pop[i1].cost != twin[i2].cost: problems.append(f"{name}({d}) designates another cost after the caller edited a list returned by sort_by_cost_indexes")
                except Exception as ex_:
                    problems.append(f"{name}({d}) raises {type(ex_).__name__} after the caller edited a list returned by sort_by_cost_indexes")
    for p in range(len(pop) + 2):
        r = H.sort_and_trim(pop, p); guard("sort_and_trim"); out.append(ids(r))
        asc = sorted(frozen, key=lambda a: a.cost)
        if [a.cost for a in r] != [a.cost for a in asc[:p]] or len(set(ids(r))) != len(r):
            problems.append(f"sort_and_trim(p={p}) does not keep the p cheapest in ascending order")
    return pi, out, problems


def real_gr(p, pop_c, new_c, pooled=0):
    from ..harness import mk_agent, Scripted, BaseOptimizationConfig
    out, problems = [], []
    pop = [mk_agent(i, c) for i, c in enumerate(pop_c)]
    new = [mk_agent(100 + i, c) for i, c in enumerate(new_c)]
    fnew = list(new)

    def ids(l): return [a.position[0] for a in l]

    def inst():
        o = Scripted(BaseOptimizationConfig(population_size=p, max_cycles=1))
        o._population = list(pop)
        return o
    o = inst()
    try:
        o._greedy_select_population(new)
        out.append(ids(o._population))
        sp, sn = sorted(pop, key=lambda a: a.cost), sorted(new, key=lambda a: a.cost)
        for i, r in enumerate(o._population):
            want = sn[i] if sn[i].cost < sp[i].cost else sp[i]
            if r.position[0] != want.position[0] and r.cost != want.cost:
                problems.append(f"greedy population slot {i}: kept cost {r.cost}, expected {want.cost}")
    except IndexError:
        out.append([999])
    if ids(new) != ids(fnew): problems.append("_greedy_select_population mutated the challenger list")
    if pooled and len(new) >= len(pop) and pop:
        # the same selection through a real thread pool (any completion order): the same agents must be kept, slot by slot on the sorted lists
        from ..harness import ModeSolver
        o = inst(); o._mode = ModeSolver("thread"); o._workers = pooled
        o._greedy_select_population(list(new))
        sp, sn = sorted(pop, key=lambda a: a.cost), sorted(new, key=lambda a: a.cost)
        want = sorted((sn[i] if sn[i].cost < sp[i].cost else sp[i]).cost for i in range(len(sp)))
        got = sorted(a.cost for a in o._population)
        if got != want:
            problems.append(f"greedy population in thread mode ({pooled} workers): kept costs {got}, expected {want}")
    o = inst(); o._extend_and_trim_population(new); out.append(ids(o._population))
    if ids(new) != ids(fnew): problems.append("_extend_and_trim_population mutated the challenger list")
    merged = sorted(pop + new, key=lambda a: a.cost)
    if new and [a.cost for a in o._population] != [a.cost for a in merged[:p]]:
        problems.append("_extend_and_trim_population does not keep the p cheapest")
    o = inst(); o._replace_and_trim_population(new); out.append(ids(o._population))
    if ids(new) != ids(fnew): problems.append("_replace_and_trim_population mutated the challenger list")
    if pop and new:
        o = inst(); r = o._greedy_select_agent(pop[0], new[0]); out.append([r.position[0]])
        if (new[0].cost < pop[0].cost) != (r is new[0]):
            problems.append("_greedy_select_agent: incumbent must be kept unless the challenger is strictly cheaper")
        if not (new[0].cost < pop[0].cost) and (r.position != pop[0].position or r.cost != pop[0].cost):
            problems.append("_greedy_select_agent: kept agent differs from the incumbent")
    else:
        out.append([])
    return out, problems


def gen_populations(ctx):
    maxn = 4 if ctx.quick else 5
    pops = [()]
    for n in range(1, maxn + 1):
        pops += list(itertools.product(ALPHABET, repeat=n))
    r = ctx.rng
    extra = 150 if ctx.quick else 3000
    for _ in range(extra):
        n = r.randint(5, 12)
        kind = r.random()
        if kind < 0.3:
            pops.append(tuple(float(r.randint(-3, 3)) for _ in range(n)))              # many ties
        elif kind < 0.45:
            # a converged swarm: costs that differ in the last digits only (relative 1e-9 .. 1 ulp) around a base - NOT ties: they must be ranked exactly
            base = r.choice([1.0, 0.0, -7.5, 3e-12, 1e-19, 12345.678, 1e300])
            step = r.choice([1e-9, 1e-12, 2.220446049250313e-16, 5e-324]) * (abs(base) if base else 1.0)
            pops.append(tuple(base + r.randint(-3, 3) * step for _ in range(n)))
        elif kind < 0.8:
            pops.append(tuple(r.uniform(-10, 10) for _ in range(n)))
        else:
            pops.append(tuple(r.choice(ALPHABET + [5e-324, -5e-324, 1.7976931348623157e308, 1e-300]) for _ in range(n)))
    return pops


def run(ctx, info):
    ctx.trusted += ["T-core translator + PyLib.v library table (np.argsort as an arbitrary valid argsort, list.sort as stable sort)",
                    "xnum embedding of doubles (pv/lit.py)", "coq/cases evaluation by vm_compute"]
    ctx.assumptions += ["costs contain no NaN (Python's sort is unspecified there) — hypothesis costs_ok of every theorem",
                        "0 <= n <= size (slices are translated for non-negative indexes)"]
    ctx.ties = {k: v for k, v in info.get("regen", {}).items() if k.startswith("gen_") and "select" in k or k in (
        "gen_sort_by_cost", "gen_sort_by_cost_indexes", "gen_sort_and_trim", "gen_best_agents", "gen_worst_agents",
        "gen_best_agent", "gen_worst_agent", "gen_best_agents_indexes", "gen_worst_agents_indexes", "gen_special_agents",
        "gen_extend_and_trim_population", "gen_replace_and_trim_population")}
    pops = gen_populations(ctx)
    items, metas = [], []
    nontrivial = set()
    for cs in pops:
        pi, out, problems = real_sel(list(cs))
        for pr in problems:
            ctx.violation(f"select:{pr.split('(')[0]}", pr, {"kind": "sel", "costs": [float(c).hex() for c in cs], "problem": pr})
        items.append(f"Sel {coqlist([xlit(c) for c in cs])} {natlist(pi)} {coqlist([natlist(o) for o in out])}")
        metas.append({"kind": "sel", "costs": [float(c).hex() for c in cs]})
        if len(set(cs)) < len(cs) or any(math.isinf(c) for c in cs):
            nontrivial.add(cs)
    r = ctx.rng
    ngr = 400 if ctx.quick else 5000
    for k in range(ngr):
        np_, nn = r.randint(0, 6), r.randint(0, 7)
        alpha = ALPHABET + [1.0, 3.0, -2.0]
        pc = [r.choice(alpha) for _ in range(np_)]
        nc = [r.choice(alpha) for _ in range(nn)]
        p = r.randint(0, 8)
        pooled = r.choice([1, 2, 4]) if k % 4 == 0 else 0
        out, problems = real_gr(p, pc, nc, pooled=pooled)
        for pr in problems:
            ctx.violation(f"greedy:{pr.split(':')[0][:40]}", pr, {"kind": "gr", "p": p, "pop": [c.hex() for c in pc], "new": [c.hex() for c in nc], "pooled": pooled, "problem": pr})
        items.append(f"Gr {p} {coqlist([xlit(c) for c in pc])} {coqlist([xlit(c) for c in nc])} {coqlist([natlist(o) for o in out])}")
        metas.append({"kind": "gr", "p": p, "pop": [c.hex() for c in pc], "new": [c.hex() for c in nc]})
        nontrivial.add(("gr", p, tuple(pc), tuple(nc)))
    res = coq.run_cases("C16", PREAMBLE, items, "check", shard=300)
    ctx.add_cover(len(items), len(nontrivial),
                  "populations of sizes 0..%d exhaustively over the cost alphabet {-inf,-1,-0.0,0.0,2,+inf} plus random larger ones, every n, both "
                  "directions (each case = all helper outputs of one population); greedy/trim cases on random population pairs; non-trivial = "
                  "contains a tie or an infinity (selection) / every distinct greedy case" % (4 if ctx.quick else 5),
                  [metas[0], metas[len(pops) // 2], metas[-1]])
    ctx.coverage["input_distribution"] = {"selection_cases": len(pops), "greedy_cases": ngr,
                                          "sizes": {str(n): sum(1 for c in pops if len(c) == n) for n in sorted({len(c) for c in pops})}}
    for e in res["errors"]:
        ctx.broke("correspondence:C16 case evaluation", e)
    for i in res["bad"][:5]:
        m = metas[i]
        ctx.broke(f"correspondence:GenSelect vs real helpers on {json.dumps(m)[:300]}", "model and implementation outputs differ")
    ctx.coverage["correspondence"] = {"cases": res["n"], "disagreements": len(res["bad"]), "files": res["files"]}


def replay(rep):
    r = rep["replay"]
    if r["kind"] == "sel":
        _, out, problems = real_sel([float.fromhex(c) for c in r["costs"]])
    else:
        out, problems = real_gr(r["p"], [float.fromhex(c) for c in r["pop"]], [float.fromhex(c) for c in r["new"]], pooled=r.get("pooled", 0))
    print("outputs:", out)
    print("problems:", problems)
    return 1 if problems else 0
