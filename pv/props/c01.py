"""C01 — every reported solution lies inside the declared search space."""
from __future__ import annotations
import json
from .. import provsearch

WHAT = {"space"}


def common(ctx, info, what, focus):
    from .. import search
    ctx.trusted += ["T-algo (pv/talgo.py): syntactic provenance facts per optimizer package; T-core translation of _init_agent / _fcn / solve / "
                    "initial_solution / correct_solution", "xnum embedding; recorded objective values and np.dot values as oracle constants in the init_agent correspondence"]
    ctx.assumptions += ["H_raw: every candidate an optimizer hands to _init_agent has the task's dimension and contains no NaN (NOT proved: a property of the "
                        "84 numeric kernels; monitored by the search below)", "valid task (validators passed, finite bounds, non-empty choice lists)",
                        "agent objects arise only from syntactic construction sites (no reflection) — rejected by T-algo otherwise"]
    st = info.get("regen", {})
    ctx.ties = {k: st.get(k) for k in ("gen_init_agent", "gen_fcn", "gen_task_solve", "gen_task_initial_solution", "gen_task_correct_solution", "gen_fitness", "algos")}
    sks = st.get("_skeletons", {})
    ctx.coverage["skeletons"] = {"total": len(sks), "provenance_conforming": sum(1 for s in sks.values() if s["prov"]),
                                 "non_conforming": {n: {k: s[k] for k in ("raw_sites", "core_writes", "objective_calls", "reflect", "init_agent_ok")} for n, s in sks.items() if not s["prov"]}}
    # known non-conformances still present -> KNOWN-FINDING; new ones make AlgoBridge.prov_all fail (reported as broken proof + search below)
    for n, s in sks.items():
        relevant = (not s["prov"]) if ctx.pid != "C05" else bool(s["objective_calls"] or s["reflect"] or not s["init_agent_ok"])
        if relevant:
            ctx.violation(f"prov:{n}", f"{n}: agents are not all built through _init_agent: {s['raw_sites'] or s['core_writes'] or s['objective_calls'] or s['reflect'] or 'overridden _init_agent'}",
                          {"kind": "skeleton", "optimizer": n, "facts": {k: s[k] for k in ("raw_sites", "core_writes", "objective_calls", "reflect", "init_agent_ok")}})
    # replays of the listed known findings run first: a KNOWN-FINDING line is printed only while the replay still fails
    from ..driver import load_findings
    kjobs = [f["replay"]["job"] for f in load_findings() if f.get("property") == ctx.pid and f.get("status") == "known" and f.get("replay", {}).get("kind") == "job"]
    if kjobs:
        provsearch.decide(ctx, search.run_jobs(kjobs), what)
    items, metas, res = provsearch.init_agent_correspondence(ctx, 500 if ctx.quick else 8000)
    distinct = len({json.dumps(m, default=str, sort_keys=True) for m in metas})
    ctx.add_cover(len(items), distinct, "init_agent correspondence: random tasks (all variable kinds, mixes, single permutations; single- and weighted "
                  "multi-objective; min/max) x raw candidates (in/out of range, boundary, inf, numpy arrays, None = random draw, malformed NaN/short stream): "
                  "position, cost, fitness bits and objective argument of the real _init_agent vs the model in Coq", [metas[0], metas[-1]])
    for e in res["errors"]:
        ctx.broke(f"correspondence:{ctx.pid} init_agent case evaluation", e)
    for i in res["bad"][:5]:
        ctx.broke(f"correspondence:Init.init_agent vs real _init_agent on {json.dumps(metas[i], default=str)[:400]}", "model and implementation differ")
    ctx.coverage["correspondence"] = {"cases": res["n"], "disagreements": len(res["bad"]), "files": res["files"]}
    jobs = provsearch.make_jobs(ctx, focus)
    obs = search.run_jobs(jobs)
    stats = provsearch.decide(ctx, obs, what)
    ctx.coverage["real_optimizer_runs"] = stats
    ctx.coverage["evaluations"] += stats["runs"]
    ctx.coverage["distinct_nontrivial"] += stats["completed"]
    from .. import edgesuite
    edgesuite.run(ctx, next(iter(what)), info=info, focus=[n for n, s in sks.items() if not s["prov"] and n != "ImperialistCompetitiveOptimization"])


def run(ctx, info):
    common(ctx, info, WHAT, "space")


def replay(rep):
    print(json.dumps({k: v for k, v in rep.items() if k != "replay"}, indent=1)[:1500])
    if rep["replay"].get("kind") == "job":
        return provsearch.replay_job(rep, WHAT)
    print(json.dumps(rep["replay"], indent=1, default=str)[:2000])
    return 1
