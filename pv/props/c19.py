"""C19 — ParameterGrid laws (exhaustive correspondence with Grid.v) and HyperTuner.execute run for real with a
table-driven optimizer (plan completeness, selection optimality, best_score, resolve)."""
from __future__ import annotations
import itertools
import json
import math
import os
import shutil
import tempfile

from .. import coq
from ..lit import xlit, natlist, coqlist

PREAMBLE = r"""
From PV Require Import Xnum Select Grid Rank.
Fixpoint nl_eqb (a b : list nat) : bool :=
  match a, b with [] , [] => true | x :: t, y :: u => Nat.eqb x y && nl_eqb t u | _, _ => false end.
Fixpoint nll_eqb (a b : list (list nat)) : bool :=
  match a, b with [] , [] => true | x :: t, y :: u => nl_eqb x y && nll_eqb t u | _, _ => false end.
Definition onl_eqb (a b : option (list nat)) : bool :=
  match a, b with None, None => true | Some x, Some y => nl_eqb x y | _, _ => false end.
Fixpoint all2 (a : list (option (list nat))) (b : list (option (list nat))) : bool :=
  match a, b with [] , [] => true | x :: t, y :: u => onl_eqb x y && all2 t u | _, _ => false end.
Inductive case :=
| KGrid (g : list (list (list nat))) (n : nat) (points : list (list nat)) (items : list (option (list nat)))
| KSel (d : dir) (rows : list (xnum * xnum)) (chosen : option nat).
Definition check (c : case) : bool :=
  match c with
  | KGrid g n pts items => Nat.eqb (len nat g) n && nll_eqb (iter nat g) pts
      && all2 (map (getitem nat 0 g) (seq 0 (n + 2))) items
  | KSel d rows ch => match select d rows, ch with Some i, Some j => Nat.eqb i j | None, None => true | _, _ => false end
  end.
"""

KEYS = ["a", "b", "c"]


def all_subgrids():
    """dicts with 0..3 keys (every insertion order), 1..3 values each (values are small distinct ints per key)"""
    out = [{}]
    for k in (1, 2, 3):
        for keys in itertools.permutations(KEYS, k):
            if list(keys) != sorted(keys) and k == 3 and keys[0] != "c": continue          # a few unsorted insertion orders are enough
            for sizes in itertools.product((1, 2, 3), repeat=k):
                out.append({key: [10 * (KEYS.index(key) + 1) + j for j in range(n)] for key, n in zip(keys, sizes)})
    return out


def grid_cases(ctx):
    from pyvolutionary.hypertuner import ParameterGrid
    r = ctx.rng
    subs = all_subgrids()
    grids = [sg for sg in subs] + [[sg] for sg in subs[:40]]
    for _ in range(250 if ctx.quick else 4000):
        grids.append([r.choice(subs) for _ in range(r.choice([2, 2, 3]))])
    items, metas = [], []
    for g in grids:
        pg = ParameterGrid(g)
        pts = list(pg)
        n = len(pg)
        meta = {"grid": g}
        sub_list = [g] if isinstance(g, dict) else g
        # --- the laws, decided directly
        if n != len(pts):
            ctx.violation("grid:len differs from iteration", f"len={n} but iteration yields {len(pts)} points for {g!r}", meta)
        want = []
        for sg in sub_list:
            ks = sorted(sg)
            pools = [sg[k] for k in ks]
            idx = [0] * len(ks)
            total = 1
            for p in pools: total *= len(p)
            for t in range(total):                       # last key fastest, written without itertools
                rem = t; pt = {}
                for j in range(len(ks) - 1, -1, -1):
                    pt[ks[j]] = pools[j][rem % len(pools[j])]; rem //= len(pools[j])
                want.append(pt)
        if sorted(json.dumps(p, sort_keys=True) for p in pts) != sorted(json.dumps(p, sort_keys=True) for p in want):
            ctx.violation("grid:iteration is not the union of the products", f"{g!r} iterates {pts!r}", meta)
        got_items = []
        for i in range(n + 2):
            try:
                it = pg[i]; got_items.append(it)
                if i >= len(pts) or it != pts[i]:
                    ctx.violation("grid:indexing disagrees with iteration", f"grid {g!r}: [{i}] = {it!r}, iteration gives {pts[i] if i < len(pts) else None!r}", meta)
            except IndexError:
                got_items.append(None)
                if i < len(pts):
                    ctx.violation("grid:indexing disagrees with iteration", f"grid {g!r}: [{i}] raises IndexError but there are {len(pts)} points", meta)
        enc = lambda d_: natlist([d_[k] for k in sorted(d_)])
        gl = coqlist([coqlist([natlist(sg[k]) for k in sorted(sg)]) for sg in sub_list])
        il = coqlist(["None" if it is None else f"(Some {enc(it)})" for it in got_items])
        items.append(f"KGrid {gl} {n}%nat {coqlist([enc(p) for p in pts])} {il}")
        metas.append(meta)
    container_forms(ctx, subs)
    return items, metas


def container_forms(ctx, subs):
    """the documented value containers other than lists (tuples, one-dimensional numpy arrays, a tuple of sub-grids) give the same grid; malformed ones are rejected"""
    import numpy as np
    from pyvolutionary.hypertuner import ParameterGrid
    r = ctx.rng
    canon = lambda pts: [{k: int(v) for k, v in p.items()} for p in pts]
    forms = {"tuple": tuple, "ndarray": np.array, "ndarray-int32": lambda v: np.array(v, dtype=np.int32), "range": lambda v: range(v[0], v[0] + len(v))}
    n = 0
    for sg in r.sample(subs, min(len(subs), 60 if ctx.quick else len(subs))):
        if not sg: continue
        ref = ParameterGrid(sg); want = list(ref)
        for fname, f in forms.items():
            g2 = {k: f(v) for k, v in sg.items()}
            for outer in (g2, [g2], (g2, {})):
                meta = {"grid": repr(outer), "form": fname}
                w = want + ([{}] if isinstance(outer, tuple) else [])
                try:
                    pg = ParameterGrid(outer)
                    got = canon(list(pg)); ln = len(pg); byidx = canon([pg[i] for i in range(ln)])
                except Exception as e:
                    ctx.violation("grid:valid container rejected", f"ParameterGrid({outer!r}) ({fname} values) raised {type(e).__name__}: {e}", meta); continue
                n += 1
                if got != w or ln != len(w) or byidx != w:
                    ctx.violation("grid:container form changes the grid", f"ParameterGrid({outer!r}): iteration {got!r}, len {ln}, indexing {byidx!r}; the list form gives {w!r}", meta)
    bad = [({"a": []}, "empty value list"), ({"a": "xy"}, "a string of values"), ({"a": 3}, "a scalar"), ({"a": np.zeros((2, 2))}, "a two-dimensional array"),
           ([{"a": [1]}, [("b", [2])]], "a sub-grid that is not a dict"), (7, "not a grid")]
    for g, what in bad:
        try:
            ParameterGrid(g)
        except (TypeError, ValueError):
            continue
        except Exception as e:
            ctx.violation("grid:malformed grid", f"{what}: ParameterGrid({g!r}) raised {type(e).__name__} instead of TypeError / ValueError", {"grid": repr(g)}); continue
        ctx.violation("grid:malformed grid accepted", f"{what}: ParameterGrid({g!r}) was accepted", {"grid": repr(g)})
    ctx.coverage["grid_container_forms"] = {"accepted_forms_compared": n, "malformed_rejected": len(bad)}


def execute_cases(ctx, items, metas):
    from pyvolutionary import HyperTuner
    from ..harness import TableOptimizer, dummy_task, quiet, read_call_log
    r = ctx.rng
    n_exec = 14 if ctx.quick else 200
    stats = {"executes": 0, "points": 0}
    for e in range(n_exec):
        nk = r.choice([1, 1, 2])
        grid = {k: r.sample([1, 2, 3, 4], r.choice([1, 2, 3])) for k in KEYS[:nk]}
        if r.random() < 0.25: grid = [grid, {"c": r.sample([5, 6, 7], r.choice([1, 2]))}]
        n_trials = r.choice([1, 1, 2, 3])
        mm = r.choice(["min", "max"])
        from pyvolutionary.hypertuner import ParameterGrid
        pts = list(ParameterGrid(grid))
        levels = r.choice([[1.0, 2.0, 3.0], [1.0, 1.0, 2.0], [5.0, 5.0, 5.0], [-2.0, 0.5, 4.0, 4.0],
                           [3e-9, 2e-9, 1e-9], [0.500000004, 0.500000001, 0.500000007], [-1e-12, 0.0, 1e-12]])      # means that differ, but only far behind the decimal point
        table = {}
        for p in pts:
            base = r.choice(levels)
            spread = r.choice([0.0, 0.5, 1.0, 2.0])
            table[f"{p.get('a', 0)},{p.get('b', 0)},{p.get('c', 0)}"] = [base + spread * ((-1) ** t) * (t % 2 + (t // 2)) * (1 if n_trials > 1 else 0) for t in range(n_trials)]
            if n_trials == 2: table[f"{p.get('a', 0)},{p.get('b', 0)},{p.get('c', 0)}"] = [base - spread, base + spread]      # mean exactly base
            if n_trials == 3: table[f"{p.get('a', 0)},{p.get('b', 0)},{p.get('c', 0)}"] = [base - spread, base, base + spread]
        logdir = tempfile.mkdtemp(prefix="pv-c19-", dir="/var/tmp")
        meta = {"grid": grid, "n_trials": n_trials, "minmax": mm, "table": table}
        try:
            algo = TableOptimizer(table=table, logdir=logdir)
            tuner = HyperTuner(algo, param_grid=grid)
            with quiet():
                tuner.execute(dummy_task(mm), n_trials=n_trials, n_jobs=2, mode="serial")
            df = tuner._df_fit
            means = [float(x) for x in df["trial_mean"]]; stds = [float(x) for x in df["trial_std"]]
            chosen = int(tuner._best_row.index[0])
            calls = read_call_log(logdir)
            # plan: every point evaluated exactly n_trials times with exactly its parameters
            from collections import Counter
            cnt = Counter(c["key"] for c in calls)
            wantc = Counter()
            for p in pts: wantc[f"{p.get('a', 0)},{p.get('b', 0)},{p.get('c', 0)}"] += n_trials
            if cnt != wantc:
                ctx.violation("execute:plan", f"evaluations per grid point {dict(cnt)} but the plan is {dict(wantc)}", meta)
            best_key = f"{tuner.best_parameters.get('a', 0)},{tuner.best_parameters.get('b', 0)},{tuner.best_parameters.get('c', 0)}"
            true_mean = {k: sum(v) / len(v) for k, v in table.items()}
            opt = (min if mm == "min" else max)(true_mean.values())
            if tuner.best_parameters not in pts:
                ctx.violation("execute:best_parameters not a grid point", f"{tuner.best_parameters!r}", meta)
            elif not math.isclose(true_mean[best_key], opt, rel_tol=0.0, abs_tol=1e-13):
                ctx.violation("execute:best_parameters not optimal", f"best_parameters {tuner.best_parameters!r} has mean {true_mean[best_key]!r}; the optimal mean ({mm}) is {opt!r} (n_trials={n_trials})", meta)
            # (pandas and Python sum the trials in different orders: with cancelling spreads the two means differ in the last bits)
            if true_mean.get(best_key) is None or not math.isclose(tuner.best_score, true_mean[best_key], rel_tol=1e-12, abs_tol=1e-13):
                ctx.violation("execute:best_score", f"best_score {tuner.best_score!r} but the mean of best_parameters is {true_mean.get(best_key)!r}", meta)
            shutil.rmtree(logdir); os.makedirs(logdir)
            with quiet(): tuner.resolve()
            rc = read_call_log(logdir)
            if [c["key"] for c in rc] != [best_key]:
                ctx.violation("resolve:parameters", f"resolve() ran with {[c['key'] for c in rc]} but best_parameters are {best_key}", meta)
            rows = coqlist([f"({xlit(m)}, {xlit(s)})" for m, s in zip(means, stds)])
            items.append(f"KSel {'MIN' if mm == 'min' else 'MAX'} {rows} (Some {chosen}%nat)")
            metas.append({**meta, "means": means, "stds": [None if math.isnan(s) else s for s in stds], "chosen": chosen})
            stats["executes"] += 1; stats["points"] += len(pts)
        finally:
            shutil.rmtree(logdir, ignore_errors=True)
    return stats


def real_optimizer_grids(ctx, names):
    """HyperTuner.execute on REAL optimizers with heterogeneous grids (a list of sub-grids that vary DIFFERENT optional parameters, the optimizer
    constructed with non-default values of parameters the grid omits): every evaluation must run under exactly Config(**point)."""
    import pyvolutionary
    from pyvolutionary import HyperTuner
    from pyvolutionary.hypertuner import ParameterGrid
    from collections import Counter
    from .. import search
    from ..optimizers import registry
    from ..harness import quiet
    r = ctx.rng
    reg = {e["name"]: e for e in registry()}
    n = 0
    for nm in names:
        e = reg[nm]
        cls = getattr(pyvolutionary, nm); ccls = getattr(pyvolutionary, e["config"])
        kw = dict(e["kwargs"]); kw.update({"max_cycles": 2, "fitness_error": None})
        fields = ccls.model_fields
        required = {k: kw[k] for k in kw if k in fields and fields[k].is_required()}
        required.update({"population_size": kw["population_size"], "max_cycles": 2})
        optional = [k for k in kw if k in fields and not fields[k].is_required() and k not in required and k not in ("fitness_error", "early_stopping")
                    and isinstance(kw[k], (int, float)) and not isinstance(kw[k], bool) and fields[k].default is not None and kw[k] != fields[k].default]
        r.shuffle(optional)
        def ok(point):
            try: ccls(**point); return True
            except Exception: return False
        base = {k: [v] for k, v in required.items()}
        subs = []
        for o in optional[:2]:
            vals = [v for v in (kw[o], fields[o].default) if ok({**required, o: v})]
            if vals: subs.append({**base, o: vals})
        if ok(required): subs.append(dict(base))               # the bare sub-grid last: its point must see the DEFAULTS again
        if not subs: continue
        try:
            pts = list(ParameterGrid(subs))
            want = Counter(json.dumps(ccls(**p).model_dump(), sort_keys=True, default=str) for p in pts)
        except Exception as ex:
            ctx.note(f"real-grid for {nm} could not be built: {type(ex).__name__}"); continue
        logf = tempfile.mktemp(prefix="pv-c19r-", dir="/var/tmp")
        orig = cls.optimize

        def spy(self, task, mode=None, workers=None, _orig=orig, _logf=logf):
            with open(f"{_logf}.{os.getpid()}", "a") as fh:
                fh.write(json.dumps(self._config.model_dump(), sort_keys=True, default=str) + "\n")
            return _orig(self, task, mode=mode, workers=workers)
        cls.optimize = spy
        meta = {"optimizer": nm, "grid": subs, "constructed_with": kw}
        try:
            algo = cls(ccls(**kw))
            tuner = HyperTuner(algo, param_grid=subs)
            with quiet():
                tuner.execute(search.build_task(search.cont_task(seed=5)), n_trials=1, n_jobs=2, mode="serial")
            import glob
            seen = Counter()
            for f in glob.glob(logf + ".*"):
                with open(f) as fh:
                    for line in fh: seen[line.strip()] += 1
                os.unlink(f)
            n += 1
            if seen != want:
                extra = [json.loads(k) for k in (seen - want)]
                missing = [json.loads(k) for k in (want - seen)]
                diff = {k: (missing[0].get(k), extra[0].get(k)) for k in (missing[0] if missing and extra else {}) if missing[0].get(k) != extra[0].get(k)}
                ctx.violation(f"execute:point evaluated under other parameters:{nm}", f"{nm}: a grid point was evaluated under a configuration that is not Config(**point) "
                              f"(expected vs in force: {diff}); {len(missing)} of {len(pts)} points affected", {"kind": "real-grid", **meta})
        except Exception as ex:
            ctx.note(f"real-grid run of {nm} did not complete: {type(ex).__name__}: {str(ex)[:100]}")
        finally:
            cls.optimize = orig
            import glob
            for f in glob.glob(logf + ".*"): os.unlink(f)
    return n


def run(ctx, info):
    ctx.trusted += ["hand model of ParameterGrid and of the pandas ranking (average rank, dense rank of tuples as Python tuple order, first minimal row): tied by "
                    "correspondence; trial means / standard deviations are taken from the real DataFrame", "shape extraction of execute()/resolve() (pv/thyper.py)",
                    "harness.TableOptimizer (costs from a table, calls logged through marker files across worker processes)"]
    ctx.assumptions += ["value lists are non-empty (ParameterGrid rejects empty ones); means are not NaN"]
    st = info.get("regen", {})
    ctx.ties = {"gen_hypertuner_selection_shape": st.get("gen_hypertuner_selection_shape"), "gen_hypertuner_resolve_shape": st.get("gen_hypertuner_resolve_shape"),
                "ParameterGrid.__iter__/__len__/__getitem__": "correspondence (exhaustive small grids)"}
    items, metas = grid_cases(ctx)
    n_grid = len(items)
    stats = execute_cases(ctx, items, metas)
    from .. import search as _search
    sks = st.get("_skeletons", {})
    noncanon = [n for n, sk in sks.items() if not sk["fields"]["canon"]]
    for n in noncanon:
        ctx.broke(f"skeleton-fact:{n}:set_config_parameters", f"{n}.set_config_parameters is not `self._config = Config(**parameters)`: a grid point may be evaluated under other parameters")
    names = _search.all_names()
    pick = sorted(set(noncanon) & set(names)) + ctx.rng.sample([n for n in names if n not in noncanon], 8 if ctx.quick else len(names) - len(set(noncanon) & set(names)))
    n_real = real_optimizer_grids(ctx, pick)
    ctx.add_cover(n_real, n_real, "HyperTuner.execute on real optimizers with heterogeneous sub-grids (different optional parameters per sub-grid, a bare sub-grid last, the "
                  "optimizer constructed with non-default values): the configuration in force at every evaluation vs Config(**point)", [pick[0], pick[-1]])
    res = coq.run_cases("C19", PREAMBLE, items, "check", shard=300)
    ctx.add_cover(len(items), len({json.dumps(m, sort_keys=True, default=str) for m in metas}),
                  "ParameterGrid: every sub-grid with 0-3 keys (several insertion orders) x 1-3 values, as dict / singleton list / random lists of 2-3 sub-grids: len, "
                  "iteration and every index 0..len+1; HyperTuner.execute run for real (process pools) on score tables with ties, equal means with different "
                  "spreads, n_trials 1-3, min and max: selection vs the model, plan and resolve()", [metas[0], metas[n_grid - 1], metas[-1]])
    ctx.coverage["input_distribution"] = {"grids": n_grid, **stats}
    for e in res["errors"]:
        ctx.broke("correspondence:C19 case evaluation", e)
    for i in res["bad"][:5]:
        ctx.broke(f"correspondence:Grid.v/Rank.v vs hypertuner.py on {json.dumps(metas[i], default=str)[:400]}", "model and implementation differ")
    ctx.coverage["correspondence"] = {"cases": res["n"], "disagreements": len(res["bad"]), "files": res["files"]}


def replay(rep):
    print(json.dumps(rep, indent=1, default=str)[:3000])
    return 1
