"""C09 — optimize() does not modify the caller's configuration or task."""
from __future__ import annotations
import json
from .. import lifesearch as L, search
from . import c07


def run(ctx, info):
    ctx.trusted += ["T-algo's scan for stores / augmented assignments / mutating calls through self._config.* and self._task.*"]
    ctx.assumptions += ["aliases of config/task sub-objects obtained through fresh arrays (np.array(...), get_bounds()) are not aliases of the caller's objects"]
    for n, bad in c07.facts(ctx, info, ("cfg_writes", "task_writes")).items():
        ctx.violation(f"skeleton:{n}:config-write", f"{n}: writes to the caller's configuration / task: {bad}", {"kind": "skeleton", "optimizer": n, "facts": bad})
    from .. import hot
    jobs = L.c09_jobs(ctx, focus=hot.changed_sources(info))
    obs = search.run_jobs(jobs)
    n = L.c09_decide(ctx, obs)
    ctx.add_cover(n, sum(1 for o in obs if o["ok"]), "every optimizer: model_dump() of the configuration and of the task before and after optimize() (completed or raised), "
                  "serial plus sampled thread/process runs, single- and multi-objective", [jobs[0], jobs[-1]])


def replay(rep):
    print(json.dumps({k: v for k, v in rep.items() if k != "replay"}, indent=1)[:800])
    return L.replay_pair(rep, None)
