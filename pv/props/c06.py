"""C06 — a valid problem yields a result; an invalid call is rejected up front.
Proof half: props/C06.v (rejection table on the regenerated schema / validators / _init_agent, nothing runs before the loop,
framework totality).  Search half (testing, declared partial): the rejection table exercised on every real optimizer, the
weights validator compared with the model by vm_compute, and the keyed failure census over generated valid problems."""
from __future__ import annotations
import collections
import json
import math

from .. import coq, census
from ..lit import xlit, coqlist

PREAMBLE = r"""
From PV Require Import Xnum Select PyLib Entry.
From PVGen Require Import GenInit.
Inductive case := KW (w : option (list xnum)) (accepted : bool).
Definition check (c : case) : bool :=
  match c with KW w acc => Bool.eqb (is_some (gen_task_validate_weights w)) acc && Bool.eqb (is_some (validate_weights w)) acc end.
"""


def key(o):
    k = census.key_of(o)
    return f"crash:{k[0]}:{k[1]}:{k[2]}"


def weights_correspondence(ctx, n):
    """the real Task constructor on generated weight lists vs the regenerated validator evaluated in Coq"""
    from .. import search
    from pydantic import ValidationError
    r = ctx.rng
    pool = [0.0, -0.0, 1.0, 0.5, 2.0, 1e-300, 5e-324, -5e-324, -1e-300, -1.0, -0.25, float("inf"), float("-inf"), float("nan"), 3, 0, -2]
    items, metas = [], []
    for i in range(n):
        if i == 0: ws = None
        elif i == 1: ws = []
        else: ws = [r.choice(pool) if r.random() < 0.5 else r.choice([0.1, 0.3, 1.0, 4.0]) for _ in range(r.choice([1, 2, 2, 3, 5]))]
        try:
            search.SpecTask(variables=search.build_vars([("multiobj", ([-1.0, -1.0], [1.0, 1.0]))]), data={"obj": "multi2"}, objective_weights=ws)
            acc = True
        except ValidationError:
            acc = False
        lit = "None" if ws is None else "(Some " + coqlist([xlit(float(w)) for w in ws]) + ")"
        items.append(f"KW {lit} {'true' if acc else 'false'}")
        metas.append({"weights": ws, "accepted": acc})
    res = coq.run_cases("C06", PREAMBLE, items, "check")
    return items, metas, res


def rejection_table(ctx, names):
    """every listed invalid call on the real classes: rejected with ValueError / ValidationError and no optimization step ran"""
    from .. import search
    from ..optimizers import registry, load
    from pydantic import ValidationError
    import contextlib, io
    n = 0
    reg = {e["name"]: e for e in registry()}
    good = search.build_task(search.cont_task(seed=3))
    for nm in names:
        cls, cfg = load(reg[nm], max_cycles=2)
        steps = []

        class Counting(cls):
            def optimization_step(self):
                steps.append(1)
                return super().optimization_step()
        Counting.__name__ = cls.__name__

        def attempt(label, make, expect=(ValueError,)):
            nonlocal n
            n += 1
            del steps[:]
            try:
                with contextlib.redirect_stdout(io.StringIO()):
                    make()
            except expect:
                if steps:
                    ctx.violation(f"late-rejection:{label}:{nm}", f"{nm}: {label} was rejected only after {len(steps)} optimization step(s)", {"kind": "reject", "optimizer": nm, "call": label})
                return
            except Exception as e:
                ctx.violation(f"wrong-rejection:{label}:{nm}", f"{nm}: {label} raised {type(e).__name__} instead of ValueError/ValidationError: {str(e)[:120]}", {"kind": "reject", "optimizer": nm, "call": label})
                return
            ctx.violation(f"not-rejected:{label}:{nm}", f"{nm}: {label} was accepted and ran {len(steps)} step(s)", {"kind": "reject", "optimizer": nm, "call": label})
        attempt("no configuration", lambda: Counting().optimize(good))
        attempt("workers=0", lambda: Counting(cfg).optimize(good, workers=0))
        attempt("workers=-3", lambda: Counting(cfg).optimize(good, mode="thread", workers=-3))
        attempt("unknown mode", lambda: Counting(cfg).optimize(good, mode="parallel"))
        attempt("3 weights for 2 objectives", lambda: Counting(cfg).optimize(search.build_task(
            {"vars": [("multiobj", ([-1.0] * 2, [1.0] * 2))], "obj": "multi2", "minmax": "min", "weights": [0.2, 0.3, 0.5]})))
        if nm in names[:3]:             # the same rejection when the mismatch is detected inside a pool worker (the error must come back as what it is)
            for mode_ in ("thread", "process"):
                # (the plain class: a harness-local subclass cannot be pickled into a worker process; the error class is what is checked here)
                attempt(f"3 weights for 2 objectives ({mode_} mode)", lambda m_=mode_: cls(cfg).optimize(search.build_task(
                    {"vars": [("multiobj", ([-1.0] * 2, [1.0] * 2))], "obj": "multi2", "minmax": "min", "weights": [0.2, 0.3, 0.5]}), mode=m_, workers=2))
        attempt("weights for a scalar objective", lambda: Counting(cfg).optimize(search.build_task(
            {"vars": [("contmulti", ([-1.0] * 2, [1.0] * 2))], "obj": "sphere", "minmax": "max", "weights": [0.5, 0.5]})))
        # a refused call leaves nothing behind: the next - valid - call on the SAME instance, in a pooled mode and without a worker count, yields a result
        for label, bad_kw in (("workers=0", {"workers": 0}), ("workers=-3 (thread)", {"mode": "thread", "workers": -3}), ("unknown mode", {"mode": "parallel", "workers": 2})):
            n += 1
            o = cls(cfg)
            try:
                with contextlib.redirect_stdout(io.StringIO()):
                    try: o.optimize(good, **bad_kw)
                    except (ValueError, ValidationError): pass
                    res = o.optimize(good, mode="thread")
                if not res.evolution or res.best_solution is None: raise RuntimeError("incomplete result")
            except Exception as e:
                ctx.violation(f"valid-call-after-refused:{label}:{nm}", f"{nm}: after optimize(task, {bad_kw}) was refused, the valid call optimize(task, mode='thread') on the same instance "
                              f"raises {type(e).__name__}: {str(e)[:120]}", {"kind": "reject", "optimizer": nm, "call": f"valid call after {label}"})
    # task-level rejections do not depend on the optimizer
    for label, spec in (("negative weight", {"vars": [("multiobj", ([-1.0] * 2, [1.0] * 2))], "obj": "multi2", "weights": [0.5, -0.5]}),
                        ("inverted bounds", {"vars": [("cont", (2.0, -2.0))], "obj": "sphere"}),
                        ("equal bounds", {"vars": [("cont", (2.0, 2.0))], "obj": "sphere"}),
                        ("inverted multi bounds", {"vars": [("contmulti", ([0.0, 3.0], [1.0, 1.0]))], "obj": "sphere"}),
                        ("bound length mismatch", {"vars": [("contmulti", ([0.0, 3.0], [1.0]))], "obj": "sphere"}),
                        ("binary n_vars=0", {"vars": [("binary", 0)], "obj": "sphere"})):
        n += 1
        try:
            search.build_task(spec)
            ctx.violation(f"not-rejected:{label}", f"a task with {label} was accepted at construction", {"kind": "reject-task", "spec": spec})
        except (ValueError, ValidationError):
            pass
        except Exception as e:
            ctx.violation(f"wrong-rejection:{label}", f"a task with {label} raised {type(e).__name__}", {"kind": "reject-task", "spec": spec})
    # the same task-level rows in an interpreter started with -O (assert statements compiled away: a validator written as `assert` stops rejecting there);
    # a fresh interpreter, nothing of this process is shared
    import subprocess, sys, os, json as _json
    rows = [("negative weight", {"vars": [("multiobj", ([-1.0] * 2, [1.0] * 2))], "obj": "multi2", "weights": [0.5, -0.5]}),
            ("inverted bounds", {"vars": [("cont", (2.0, -2.0))], "obj": "sphere"}),
            ("equal bounds", {"vars": [("cont", (2.0, 2.0))], "obj": "sphere"}),
            ("inverted multi bounds", {"vars": [("contmulti", ([0.0, 3.0], [1.0, 1.0]))], "obj": "sphere"}),
            ("bound length mismatch", {"vars": [("contmulti", ([0.0, 3.0], [1.0]))], "obj": "sphere"}),
            ("inverted multi-objective bounds", {"vars": [("multiobj", ([1.0, 0.0], [0.0, 1.0]))], "obj": "multi2", "weights": [0.5, 0.5]}),
            ("binary n_vars=0", {"vars": [("binary", 0)], "obj": "sphere"})]
    prog = ("import sys, json\nfrom pydantic import ValidationError\nfrom pv import search\nout = []\n"
            "for label, spec in json.loads(sys.stdin.read()):\n"
            "    try:\n        search.build_task(spec); out.append([label, 'accepted'])\n"
            "    except (ValueError, ValidationError): out.append([label, 'rejected'])\n"
            "    except Exception as e: out.append([label, type(e).__name__])\n"
            "print('@@O@@' + json.dumps(out))\n")
    try:
        pr = subprocess.run([sys.executable, "-O", "-c", prog], input=_json.dumps(rows), capture_output=True, text=True, timeout=300,
                            cwd=str(__import__("pathlib").Path(__file__).resolve().parents[2]), env=dict(os.environ))
        got = _json.loads(pr.stdout.split("@@O@@")[-1])
    except Exception as e:
        got = None
        ctx.broke("search:C06 rejection rows under python -O", f"the probe interpreter gave no answer: {type(e).__name__}: {str(e)[:200]}")
    for label, verdict in (got or []):
        n += 1
        spec = dict(rows)[label]
        if verdict == "accepted":
            ctx.violation(f"not-rejected-under-O:{label}", f"a task with {label} is accepted at construction when Python runs with -O (assertions disabled)",
                          {"kind": "reject-task", "spec": spec, "interpreter": "python -O"})
        elif verdict != "rejected":
            ctx.violation(f"wrong-rejection-under-O:{label}", f"a task with {label} raised {verdict} under python -O", {"kind": "reject-task", "spec": spec, "interpreter": "python -O"})
    return n


def decide_cont(ctx, obs):
    """strict: any failure of a run on a valid continuous problem is a violation, keyed by (optimizer, exception type, raising function)"""
    tab = collections.Counter()
    n_ok = 0
    for o in obs:
        if o["ok"]:
            n_ok += 1
            for p in census.result_problems(o):
                ctx.violation(f"incomplete:{o['job']['opt']}", f"{o['job']['opt']}: optimize() returned an incomplete result: {p}", {"kind": "job", "job": o["job"]})
            continue
        e = o["error"]
        if e["type"] == "ValidationError" and e["where"].startswith(("models.py:__init__", "harness")) and "sequence" not in o["job"]:
            # a generated configuration the config validators reject: outside the property's domain (counted, not a failure)
            tab["(rejected configuration)"] += 1
            continue
        k = key(o)
        tab[k] += 1
        j = o["job"]
        ctx.violation(k, f"{j['opt']} fails part-way with {e['type']} in {e['where']} ({e['msg'][:90]}) on a valid continuous task "
                         f"[{j.get('family')}, {j['task']['minmax']}, cycles={j['cfg']['max_cycles']}, population={j['cfg'].get('population_size')}, mode={j.get('mode', 'serial')}]",
                      {"kind": "job", "job": j})
    return n_ok, tab


def run(ctx, info):
    from .. import search
    from ..driver import load_findings
    from ..expected import load_expectations
    ctx.trusted += ["schema extraction of optimize() (pv/tschema.py); T-core translation of _init_agent, Task.validate_objective_weights and the variable validators",
                    "the census harness (pv/census.py, pv/search.py): failure keys are (optimizer, exception type, innermost pyvolutionary function)"]
    ctx.assumptions += ["PARTIAL: absence of Python runtime errors inside the 84 numeric kernels is NOT proved; it is searched (census), strictly on continuous tasks, "
                        "per (optimizer, encoding) pair against a committed baseline on integer-coded tasks",
                        "every generation reached is non-empty (hypothesis `populated` of the completeness theorem; C10)"]
    st = info.get("regen", {})
    ctx.ties = {k: st.get(k) for k in ("gen_optimize_schema", "gen_init_agent", "gen_fcn", "gen_task_validate_weights", "gen_cont_validate", "gen_binary_validate")}
    names = search.all_names()
    r = ctx.rng
    # 1. weights validator: model vs code
    items, metas, res = weights_correspondence(ctx, 150 if ctx.quick else 3000)
    for e in res["errors"]:
        ctx.broke("correspondence:C06 weights validator case evaluation", e)
    for i in res["bad"][:5]:
        ctx.broke(f"correspondence:Entry.validate_weights vs Task(objective_weights={metas[i]['weights']!r})", f"the real constructor {'accepted' if metas[i]['accepted'] else 'rejected'} it; the model disagrees")
    ctx.add_cover(len(items), len({json.dumps(m, default=str) for m in metas}), "Task construction with generated weight lists (zeros, -0.0, subnormals of both signs, inf, NaN, ints, None, []) "
                  "vs the regenerated validator and the hand model in Coq", [metas[2], metas[-1]])
    # 2. rejection table on the real classes
    n_rej = rejection_table(ctx, names if not ctx.quick else names)
    ctx.add_cover(n_rej, n_rej, "rejection table on all 84 real classes: no configuration, workers 0 / negative, unknown mode, weight-count mismatch (both ways), and task-level "
                  "rejections (negative weight, inverted / equal / mismatched bounds, binary size 0): error class and zero optimization steps", ["no configuration", "workers=0"])
    # 3. replays of the listed known findings first
    kjobs = [f["replay"]["job"] for f in load_findings() if f.get("property") == "C06" and f.get("status") == "known" and f.get("replay", {}).get("kind") == "job"]
    if kjobs:
        decide_cont(ctx, search.run_jobs(kjobs))
    # 4. strict census on continuous tasks
    jobs = census.cont_jobs(r, names, 6 if ctx.quick else 40)
    obs = search.run_jobs(jobs, procs=16)
    n_ok, tab = decide_cont(ctx, obs)
    fams = collections.Counter(j.get("family") for j in jobs)
    ctx.add_cover(len(jobs), n_ok, "strict census: every optimizer x continuous task families (dimension 1..6, single / multi / mixed variables, bounds 1e-6..1e6, zero and offset "
                  "bounds, weighted multi-objective) x objectives (smooth, plateaus, constant, negative) x min/max x (cycles, population) in {(1,1x),(2,1.5x),(3,1x),(5,2x),(10,1x)} "
                  "x stop options, sampled thread/process runs; a returned result must be complete", [jobs[0], jobs[-1]])
    ctx.coverage["census_continuous"] = {"jobs": len(jobs), "completed": n_ok, "families": dict(fams), "failure_keys": dict(tab)}
    # 4b. the source-directed campaign (pv/hot.py): degenerate populations that arise late in a run, dimension 1, dimension = population size ... for optimizers whose
    #     package changed since the pinned tree (thorough: all 84, once) - strict as the census: a failure part-way is a violation, keyed as above
    from .. import hot
    changed = hot.changed_sources(info)
    hjobs = [j for j in hot.jobs(ctx, changed if ctx.quick else sorted(set(names) | set(changed)), reps=(3 if ctx.quick else 1), grid_for=set(changed))
             if j["family"] not in ("hot:onemax", "hot:perm", "hot:small-discrete")]           # continuous tasks only: integer-coded ones are judged per pair against the baseline (5.)
    if hjobs:
        hobs = search.run_jobs(hjobs, procs=16)
        h_ok, htab = decide_cont(ctx, hobs)
        ctx.coverage["campaign"] = {"optimizers": len(changed) if ctx.quick else len(names), "changed_sources": changed, "jobs": len(hjobs), "completed": h_ok, "failure_keys": dict(htab)}
        ctx.coverage["evaluations"] += len(hjobs)
    # 5. integer-coded tasks per (optimizer, encoding) pair against the committed baseline
    base = set(load_expectations().get("c06_int_works", []))
    ijobs = census.int_jobs(r, names, 2 if ctx.quick else 8)
    iobs = search.run_jobs(ijobs, procs=16)
    pairs = collections.defaultdict(lambda: {"ok": 0, "n": 0, "keys": set(), "job": None})
    for o in iobs:
        p = pairs[f"{o['job']['opt']}|{o['job']['encoding']}"]
        p["n"] += 1
        if o["ok"] and not census.result_problems(o): p["ok"] += 1
        else:
            p["keys"].add(key(o) if not o["ok"] else "incomplete"); p["job"] = p["job"] or o["job"]
    newly = []
    for name, p in sorted(pairs.items()):
        if name in base and p["ok"] == 0:
            newly.append(name)
            ctx.violation(f"encoding-regression:{name}", f"{name.replace('|', ' on ')}-coded tasks worked on the pinned tree and now fails wholesale ({p['n']} of {p['n']} runs: {sorted(p['keys'])})",
                          {"kind": "job", "job": p["job"]})
    ctx.add_cover(len(ijobs), sum(p["ok"] for p in pairs.values()), "integer-coded census: every optimizer x {one discrete, three discrete, discrete-multi, binary, permutation, mixed} x cycles/sizes; "
                  "a pair of the committed works-today baseline must not fail wholesale", [ijobs[0], ijobs[-1]])
    ctx.coverage["census_integer_coded"] = {"jobs": len(ijobs), "pairs": len(pairs), "baseline_pairs": len(base), "pairs_failing_every_run": sorted(n for n, p in pairs.items() if p["ok"] == 0),
                                            "pairs_failing_some_runs": sorted(n for n, p in pairs.items() if 0 < p["ok"] < p["n"]), "regressions": newly}
    ctx.observations.append("integer-coded pairs that fail today (not violations: the property asks only that a working pair does not start failing wholesale): "
                            + ", ".join(sorted(n for n, p in pairs.items() if p["ok"] == 0 and n not in base))[:3000])


def replay(rep):
    from .. import search
    print(json.dumps({k: v for k, v in rep.items() if k != "replay"}, indent=1)[:1200])
    m = rep["replay"]
    if m.get("kind") == "job":
        o = search.run_job(m["job"])
        print("completed:", o["ok"], "error:", o.get("error"), "problems:", census.result_problems(o) if o["ok"] else None)
        return 0 if (o["ok"] and not census.result_problems(o)) else 1
    print(json.dumps(m, indent=1, default=str)[:1500])
    return 1
