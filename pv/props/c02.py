"""C02 — reported cost and fitness are the true objective of the reported position."""
from __future__ import annotations
import json
from .. import provsearch
from . import c01

WHAT = {"cost"}


def run(ctx, info):
    c01.common(ctx, info, WHAT, "cost")


def replay(rep):
    print(json.dumps({k: v for k, v in rep.items() if k != "replay"}, indent=1)[:1500])
    if rep["replay"].get("kind") == "job":
        return provsearch.replay_job(rep, WHAT)
    print(json.dumps(rep["replay"], indent=1, default=str)[:2000])
    return 1
