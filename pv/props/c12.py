"""C12 — maximising f is exactly minimising -f (for the fitness- and direction-blind optimizers)."""
from __future__ import annotations
import json
from .. import lifesearch as L
from ..expected import load_expectations


def run(ctx, info):
    ctx.trusted += ["T-algo's scan for reads of Agent.fitness / Task.minmax / TaskType / calculate_fitness in the optimizer's update rule"]
    ctx.assumptions += ["stopping by cycle count only (fitness_error = None, no early stopping)", "same integer seed, serial mode"]
    st = info.get("regen", {})
    sks = st.get("_skeletons", {})
    pinned = load_expectations()["fitness_blind"]
    now = [n for n, s in sks.items() if not s["fields"]["reads_fitness"] and not s["fields"]["reads_direction"]]
    ctx.coverage["fitness_blind_set"] = {"pinned": len(pinned), "computed_now": len(now), "dropped": sorted(set(pinned) - set(now)), "new": sorted(set(now) - set(pinned))}
    ctx.ties = {"algos": st.get("algos")}
    # optimizers whose provenance facts changed (objective reached outside _init_agent, raw sites ...) or that left the blind set are searched on every task family
    focus = sorted((set(pinned) - set(now)) | {n for n, s_ in sks.items() if n in pinned and (s_["objective_calls"] or s_["raw_sites"] or not s_["init_agent_ok"])})
    from .. import hot
    focus = sorted(set(focus) | (set(hot.changed_sources(info)) & set(pinned)))
    ctx.coverage["focus"] = focus
    pairs = L.c12_jobs(ctx, pinned, focus=focus)
    obs = L.run_pairs(pairs)
    n = L.c12_decide(ctx, pairs, obs)
    ctx.add_cover(2 * n, n, "every pinned fitness-blind optimizer: run(max, f) vs run(min, -f) with equal seeds over five objectives and three bound families; "
                  "positions compared for equality and costs for exact negation, generation by generation", [pairs[0][0], pairs[-1][1]])


def replay(rep):
    print(json.dumps({k: v for k, v in rep.items() if k != "replay"}, indent=1)[:800])
    return L.replay_pair(rep, L.c12_decide)
