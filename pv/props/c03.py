"""C03 — best_solution is the optimum of the final generation.  Scripted histories (ties, plateaus, both
directions) through the real optimize() against the model, plus all real optimizers in both directions."""
from __future__ import annotations
import json

from .. import scripted


def oracle_obs(o):
    """C03 decided on a real optimizer's result"""
    probs = []
    last = o["evolution"][-1]
    b = o["best"]
    if b is None:
        return ["best_solution is None"]
    if not any(a[0] == b[0] and a[1] == b[1] for a in last):
        probs.append("best_solution is not an agent (same position and cost) of the last recorded generation")
    mm = o["job"]["task"].get("minmax", "min")
    if any((a[1] < b[1]) if mm == "min" else (a[1] > b[1]) for a in last):
        probs.append(f"an agent of the last generation is strictly better than best_solution ({mm})")
    return probs


def run(ctx, info):
    from .. import search
    ctx.trusted += ["schema extractor pv/tschema.py; T-core translation of the result constructors' sign restoration",
                    "harness.Scripted; xnum embedding of costs"]
    ctx.assumptions += ["costs are not NaN (hypothesis costs_ok); the final generation is non-empty"]
    st = info.get("regen", {})
    ctx.ties = {k: st.get(k) for k in ("gen_optimize_schema", "gen_population_refine", "gen_result_refine", "gen_best_agents", "gen_special_agents")}
    n_hist = 400 if ctx.quick else 10000
    items, metas, res, kinds = scripted.correspondence(ctx, n_hist, 0, [("best", scripted.oracle_c03)])
    scripted.long_runs(ctx, [("best", scripted.oracle_c03)])
    distinct = len({json.dumps(m, sort_keys=True) for m in metas})
    ctx.add_cover(len(items), distinct,
                  "scripted histories with cost alphabets rich in ties, negative costs, +-inf and best costs that reappear on another agent in "
                  "the next generation, both directions, through the real optimize() vs the model in Coq; distinct = distinct histories",
                  [metas[0], metas[-1]])
    for e in res["errors"]:
        ctx.broke("correspondence:C03 case evaluation", e)
    for i in res["bad"][:5]:
        ctx.broke(f"correspondence:Loop.run vs real optimize() on {json.dumps(metas[i])[:500]}", "model and implementation differ")
    ctx.coverage["correspondence"] = {"cases": res["n"], "disagreements": len(res["bad"]), "files": res["files"]}
    from .. import edgesuite
    edgesuite.run(ctx, "best", info=info)
    # every real optimizer, both directions, objectives with plateaus (ties) and smooth ones
    r = ctx.rng
    jobs = []
    names = search.all_names()
    seeds = [r.randint(0, 10**6) for _ in range(1 if ctx.quick else 4)]
    for nm in names:
        for mm in ("min", "max"):
            for sd in seeds:
                jobs.append({"opt": nm, "cfg": {"max_cycles": r.choice([2, 5]), "fitness_error": None},
                             "task": search.cont_task(obj=r.choice(["step", "step", "sphere", "linear"]), minmax=mm, seed=sd, dim=r.choice([2, 3]))})
    # "any pool completion order": the optimizers whose step ends in the pooled greedy selection always run in thread mode too (with delays), the others in the thorough tier
    pooled_users = [n for n in ("FicksLawOptimization", "KrillHerdOptimization", "WildebeestHerdOptimization", "WindDrivenOptimization") if n in names]
    for nm in pooled_users:
        for mm in ("min", "max"):
            jobs.append({"opt": nm, "cfg": {"max_cycles": 3, "fitness_error": None, "population_size": 12}, "mode": "thread", "workers": 4,
                         "task": search.cont_task(obj="sphere", minmax=mm, seed=r.randint(0, 10**6), delay=0.0005)})
    if not ctx.quick:
        for nm in names:
            jobs.append({"opt": nm, "cfg": {"max_cycles": 3, "fitness_error": None}, "mode": "thread", "workers": 3,
                         "task": search.cont_task(obj="step", minmax=r.choice(["min", "max"]), seed=r.randint(0, 10**6))})
    obs = search.run_jobs(jobs)
    n_ok = 0
    for o in obs:
        if not o["ok"]:
            continue
        n_ok += 1
        for p in oracle_obs(o):
            ctx.violation(f"real-optimizer:{p[:50]}", f"{o['job']['opt']}: {p}", {"kind": "job", "job": o["job"]})
    ctx.coverage["real_optimizer_runs"] = {"jobs": len(jobs), "completed": n_ok}
    ctx.coverage["evaluations"] += len(jobs)
    ctx.coverage["distinct_nontrivial"] += n_ok


def replay(rep):
    print(json.dumps({k: v for k, v in rep.items() if k != "replay"}, indent=1))
    m = rep["replay"]
    if m.get("kind") == "long-history":
        return scripted.replay_long(m, [("best", scripted.oracle_c03)])
    if m.get("kind") == "history":
        h = scripted.meta_hist(m["history"])
        _, obs = scripted.run_real(h)
        print("observed:", obs)
        probs = scripted.oracle_c03(h, obs)
        print("problems:", probs)
        return 1 if probs else 0
    from .. import search
    o = search.run_job(m["job"])
    probs = oracle_obs(o) if o["ok"] else [o.get("error")]
    print("problems:", probs)
    return 1 if probs else 0
