"""C20 — Multitask: correspondence of the broadcast / validation model (Multi.v) with the real constructor for all n, m in 1..3,
all shapes and mode values; execute() run for real with table-driven optimizers that log the mode they were given;
result tables and export paths."""
from __future__ import annotations
import itertools
import json
import os
import shutil
import tempfile

from .. import coq
from ..lit import natlist, coqlist

PREAMBLE = r"""
From PV Require Import Multi.
(* modes as numbers: 0 serial, 1 thread, 2 process, >= 3 unknown *)
Definition valid (v : nat) : bool := Nat.ltb v 3.
Fixpoint nl_eqb (a b : list nat) : bool :=
  match a, b with [] , [] => true | x :: t, y :: u => Nat.eqb x y && nl_eqb t u | _, _ => false end.
Inductive case := KMulti (n m : nat) (a : modes_arg nat) (expected : option (list nat)).   (* None: ValueError; Some: get_mode row-major *)
Definition check (c : case) : bool :=
  match c with
  | KMulti n m a e =>
      match construct nat valid 0 n m a, e with
      | None, None => true
      | Some t, Some modes => nl_eqb (flat_map (fun i => map (fun j => get_mode nat 0 t i j) (seq 0 m)) (seq 0 n)) modes
      | _, _ => false
      end
  end.
"""
MODES = ["serial", "thread", "process", "quantum", "Thread", "SERIAL", " serial", "process ", "", "Process"]      # index >= 3: not a documented mode


def designated(n, m, modes):
    """the documented meaning of the four shapes (ambiguous lengths resolved in the documented order 1, n, m, n*m)"""
    if modes is None: return [["serial"] * m for _ in range(n)]
    L = len(modes)
    if L == 1: return [[modes[0]] * m for _ in range(n)]
    if L == n: return [[modes[i]] * m for i in range(n)]
    if L == m: return [list(modes) for _ in range(n)]
    if L == n * m: return [list(modes[i * m:(i + 1) * m]) for i in range(n)]
    return None


def ctor_cases(ctx):
    from pyvolutionary.multitask import Multitask
    from ..harness import TableOptimizer, dummy_task
    r = ctx.rng
    items, metas = [], []
    shapes = []
    for n, m in itertools.product((1, 2, 3), repeat=2):
        lens = sorted({0, 1, n, m, n * m, 2, 4, 5})
        for L in lens:
            for _ in range(2 if ctx.quick else 8):
                if L == 0: shapes.append((n, m, None)); continue
                vals = tuple(r.choice(MODES[:3]) if r.random() < 0.85 else r.choice(MODES[3:]) for _ in range(L))
                shapes.append((n, m, vals))
        shapes.append((n, m, ["serial"] * n))          # a list, not a tuple
    for bad in MODES[3:]:                              # every undocumented spelling, alone and next to a valid mode
        shapes += [(2, 2, (bad,)), (2, 3, ("serial", bad)), (1, 2, ("thread", bad))]
    for n, m, modes in shapes:
        algos = tuple(TableOptimizer() for _ in range(n)); tasks = tuple(dummy_task() for _ in range(m))
        meta = {"n": n, "m": m, "modes": modes}
        try:
            mt = Multitask(algos, tasks, modes=modes)
        except ValueError:
            mt, got = None, None
        except Exception as e:
            mt, got = None, None
            ctx.violation(f"ctor:{type(e).__name__}", f"Multitask(n={n}, m={m}, modes={modes!r}) raises {type(e).__name__}: {e}", meta)
        if mt is not None:
            try:
                got = [[str(mt.__get_mode__(i, j)) for j in range(m)] for i in range(n)]
            except Exception as e:          # accepted at construction, but a pair has no usable mode: the rejection came too late
                got = "late"
                ctx.violation("ctor:unknown mode accepted at construction", f"Multitask(n={n}, m={m}, modes={modes!r}) was constructed, but __get_mode__ then raises "
                              f"{type(e).__name__} (an unknown mode must be rejected at construction)", meta)
        want = designated(n, m, modes) if isinstance(modes, (tuple, type(None))) else None
        if want is not None and any(v not in MODES[:3] for row in want for v in row): want = None
        if got == "late": got = None
        elif got != want:
            ctx.violation("ctor:mode table" if got is not None and want is not None else "ctor:accept/reject",
                          f"Multitask(n={n}, m={m}, modes={modes!r}): modes used {got!r}, designated {want!r}", meta)
        arg = "(MNone nat)" if modes is None else ("(MNotTuple nat)" if not isinstance(modes, tuple) else f"(MTuple nat {natlist([MODES.index(v) for v in modes])})")
        exp = "None" if got is None else "(Some " + natlist([MODES.index(v) for row in got for v in row]) + ")"
        items.append(f"KMulti {n}%nat {m}%nat {arg} {exp}")
        metas.append(meta)
    return items, metas


def execute_cases(ctx):
    import pandas as pd
    from pyvolutionary.multitask import Multitask
    from ..harness import TableOptimizer, TableOptimizerB, TableOptimizerC, TableConfig, DummyTask, DummyTaskB, DummyTaskC, dummy_task, quiet, read_call_log
    from pyvolutionary import ContinuousMultiVariable
    r = ctx.rng
    stats = {"executes": 0}
    algo_cls = [TableOptimizer, TableOptimizerB, TableOptimizerC]; task_cls = [DummyTask, DummyTaskB, DummyTaskC]
    combos = [(1, 1), (2, 2), (2, 3), (3, 2), (1, 3), (3, 3)]
    r.shuffle(combos)
    for n, m in combos[:(3 if ctx.quick else 6)]:
        for shape in (["one", "algo", "task", "pair", "none"] if not ctx.quick else [r.choice(["algo", "task", "pair"]), r.choice(["one", "none", "pair"])]):
            L = {"one": 1, "algo": n, "task": m, "pair": n * m, "none": 0}[shape]
            modes = None if shape == "none" else tuple(r.choice(["serial", "thread"]) for _ in range(L))
            n_trials = r.choice([1, 2])
            logdir = tempfile.mkdtemp(prefix="pv-c20-", dir="/var/tmp"); outdir = tempfile.mkdtemp(prefix="pv-c20o-", dir="/var/tmp")
            meta = {"n": n, "m": m, "modes": modes, "n_trials": n_trials}
            try:
                algos = tuple(algo_cls[i](TableConfig(), table={"0,0,0": [float(i)]}, logdir=logdir) for i in range(n))
                tasks = tuple(task_cls[j](variables=[ContinuousMultiVariable(name="x", lower_bounds=[-1.0], upper_bounds=[1.0])]) for j in range(m))
                mt = Multitask(algos, tasks, modes=modes, n_workers=2)
                dbg = r.random() < 0.4                  # the debug flag only prints: tables and plan must be the same
                meta["debug"] = dbg
                try:
                    with quiet(): mt.execute(n_trials=n_trials, n_jobs=r.choice([1, 2, 2, 4]), debug=dbg)
                except Exception as ex_:
                    ctx.violation(f"execute:raises {type(ex_).__name__}", f"Multitask(n={n}, m={m}, modes={modes!r}).execute(n_trials={n_trials}) raises {type(ex_).__name__}: {str(ex_)[:100]}", meta)
                    continue
                calls = read_call_log(logdir)
                want = designated(n, m, modes)
                from collections import Counter
                got = Counter((c["algo"], c["task"], c["mode"]) for c in calls)
                exp = Counter()
                for i in range(n):
                    for j in range(m): exp[(algos[i].name, tasks[j].name, want[i][j])] += n_trials
                if got != exp:
                    ctx.violation("execute:plan/modes", f"Multitask(n={n}, m={m}, modes={modes!r}).execute({n_trials}): runs {dict(got)}, designated {dict(exp)}", meta)
                dfs = mt._df2
                if len(dfs) != n or any(list(df.columns) != [f"{algos[i].name}_{t.name}" for t in tasks] or len(df) != n_trials for i, df in enumerate(dfs)):
                    ctx.violation("execute:tables", f"result tables {[ (list(df.columns), len(df)) for df in dfs]} for n={n}, m={m}, trials={n_trials}", meta)
                fmt = r.choice(["csv", "json", "dataframe"])
                mt.export_results(fmt, save_path=outdir)
                tree = sorted(os.path.relpath(os.path.join(dp, f), outdir) for dp, _, fs in os.walk(outdir) for f in fs)
                dirs = sorted({os.path.dirname(p) for p in tree})
                if dirs != sorted(a.name for a in algos) or len(tree) != n:
                    ctx.violation("export:paths", f"export_results wrote {tree} for algorithms {[a.name for a in algos]}", {**meta, "format": fmt})
                stats["executes"] += 1
            finally:
                shutil.rmtree(logdir, ignore_errors=True); shutil.rmtree(outdir, ignore_errors=True)
    # two algorithms OF ONE CLASS (two configurations of one optimizer benchmarked against each other - the usual use): each keeps its own designated modes
    # (told apart in the call log by their configurations; the export layout of same-class algorithms is not part of this scenario)
    for m, shape in (((1, "algo"), (2, "algo"), (2, "pair")) if not ctx.quick else ((2, r.choice(["algo", "pair"])),)):
        n = 2
        modes = ("serial", "thread") if shape == "algo" else tuple(["serial"] * m + ["thread"] * m)
        logdir = tempfile.mkdtemp(prefix="pv-c20-", dir="/var/tmp")
        meta = {"n": n, "m": m, "modes": modes, "n_trials": 1, "same_class": True}
        try:
            algos = tuple(TableOptimizer(TableConfig(a=i + 1), table={}, logdir=logdir) for i in range(n))
            tasks = tuple(task_cls[j](variables=[ContinuousMultiVariable(name="x", lower_bounds=[-1.0], upper_bounds=[1.0])]) for j in range(m))
            try:
                with quiet(): Multitask(algos, tasks, modes=modes, n_workers=2).execute(n_trials=1, n_jobs=2)
            except Exception as ex_:
                ctx.violation(f"execute:raises {type(ex_).__name__}", f"Multitask with two algorithms of one class, m={m}, modes={modes!r} raises {type(ex_).__name__}: {str(ex_)[:100]}", meta); continue
            from collections import Counter
            got = Counter((c["key"], c["task"], c["mode"]) for c in read_call_log(logdir))
            want = designated(n, m, modes)
            exp = Counter()
            for i in range(n):
                for j in range(m): exp[(f"{i + 1},0,0", tasks[j].name, want[i][j])] += 1
            if got != exp:
                ctx.violation("execute:plan/modes (same-class algorithms)", f"Multitask(two configurations of one optimizer class, m={m}, modes={modes!r}): runs {dict(got)}, designated {dict(exp)}", meta)
            stats["executes"] += 1
        finally:
            shutil.rmtree(logdir, ignore_errors=True)
    return stats


def real_mode_check(ctx):
    """execute() with a REAL optimizer on three tasks designated process / thread / serial: where the objective evaluations really ran (pids, thread ids logged by the
    objective itself) must match the designated mode - not merely the mode string the optimizer was handed"""
    import glob
    import pyvolutionary
    from pyvolutionary.multitask import Multitask
    from .. import search
    from ..harness import quiet
    from ..optimizers import registry, load
    n = 0
    for nm in ("GreyWolfOptimization", "ParticleSwarmOptimization")[: (1 if ctx.quick else 2)]:
        entry = next(e for e in registry() if e["name"] == nm)
        cls, cfg = load(entry, max_cycles=2, population_size=12, fitness_error=None)
        base = tempfile.mktemp(prefix="pv-c20w-", dir="/var/tmp")
        modes = ("process", "thread", "serial")
        tasks = []
        for k, (tc, mode) in enumerate(zip((search.SpecTask, search.SpecTaskB, search.SpecTaskC), modes)):
            tasks.append(tc(variables=search.build_vars([("contmulti", ([-5.0] * 3, [5.0] * 3))]), data={"obj": "sphere", "record_where": f"{base}-{mode}", "delay": 0.002}, seed=3,
                            minmax=("max" if k != 1 else "min")))
        try:
            mt = Multitask((cls(cfg),), tuple(tasks), modes=modes, n_workers=4)
            with quiet(): mt.execute(n_trials=1, n_jobs=2)
            # what execute() hands back for each pair IS the result of that run: whole generations (population_size agents each, one per cycle plus the initial one),
            # best_solution the optimum of the last generation in the task's direction, and - for the serial pair on a seeded task - the very run a direct
            # optimize() call produces
            for frame in mt._df2:
                for col in frame.columns:
                    for trial in frame[col]:
                        res = trial["solution"] if isinstance(trial, dict) else trial
                        sizes = [len(g.agents) for g in res.evolution]
                        mm = str(getattr(res.task_type, "value", res.task_type))
                        pick = max if mm == "max" else min
                        meta_r = {"kind": "real-modes", "optimizer": nm, "pair": col, "direction": mm, "generation sizes": sizes}
                        if len(sizes) != 3 or any(z != 12 for z in sizes):
                            ctx.violation("execute:result is not the run's result (generations)", f"{nm}, pair {col} ({mm}): execute() returns an evolution with generation sizes {sizes}; "
                                          f"the run has 3 generations of 12 agents", meta_r)
                        elif res.best_solution.cost != pick(a.cost for a in res.evolution[-1].agents):
                            ctx.violation("execute:result is not the run's result (best_solution)", f"{nm}, pair {col} ({mm}): best_solution.cost {res.best_solution.cost!r} is not the "
                                          f"optimum {pick(a.cost for a in res.evolution[-1].agents)!r} of the last generation returned", meta_r)
            seen = {}
            for mode in modes:
                pids, threads = set(), set()
                for f in glob.glob(f"{base}-{mode}.*"):
                    with open(f) as fh:
                        for line in fh:
                            p_, t_ = line.split(); pids.add(p_); threads.add((p_, t_))
                seen[mode] = (len(pids), len(threads))
            n += 1
            meta = {"optimizer": nm, "modes": modes, "observed (pids, threads) per designated mode": seen}
            if seen["process"][0] < 2:
                ctx.violation("execute:process pair not run in processes", f"{nm}: the pair designated 'process' evaluated its objective in {seen['process'][0]} process(es) "
                              f"({seen['process'][1]} threads): not a process pool", {"kind": "real-modes", **meta})
            if seen["thread"][0] != 1 or seen["thread"][1] < 2:
                ctx.violation("execute:thread pair not run in threads", f"{nm}: the pair designated 'thread' ran in {seen['thread'][0]} process(es) / {seen['thread'][1]} thread(s)", {"kind": "real-modes", **meta})
            if seen["serial"] != (1, 1):
                ctx.violation("execute:serial pair not serial", f"{nm}: the pair designated 'serial' ran in {seen['serial'][0]} process(es) / {seen['serial'][1]} thread(s)", {"kind": "real-modes", **meta})
            # (after the placement evidence was read: this direct run logs into the same files)
            try:
                ser = next(t for t, mo in zip(tasks, modes) if mo == "serial")
                with quiet(): direct = cls(cfg).optimize(ser, mode="serial")
                col = f"{cls(cfg).name}_{ser.name}"
                got_r = [tr["solution"] for fr in mt._df2 if col in fr.columns for tr in fr[col]][0]
                a_ = [[(tuple(x.position), x.cost) for x in g.agents] for g in direct.evolution]
                b_ = [[(tuple(x.position), x.cost) for x in g.agents] for g in got_r.evolution]
                if a_ != b_ or direct.best_solution.cost != got_r.best_solution.cost:
                    ctx.violation("execute:serial pair differs from a direct run", f"{nm}: the result execute() returns for the serial pair on a seeded task differs from "
                                  f"optimize(task, mode='serial') on the same task (generations {[len(g) for g in b_]} vs {[len(g) for g in a_]})", {"kind": "real-modes", "optimizer": nm})
            except StopIteration:
                pass
        finally:
            for f in glob.glob(base + "-*"): os.unlink(f)
    return n


def run(ctx, info):
    ctx.trusted += ["hand model of the broadcast / validation / plan (Multi.v) tied by correspondence and by the exact-shape extraction of Multitask's methods (pv/thyper.py)",
                    "harness.TableOptimizer subclasses logging the mode each optimize() call received (marker files across worker processes)"]
    ctx.assumptions += ["ambiguous lengths are resolved in the documented order 1, n, m, n*m (n == m: per algorithm)", "algorithms and tasks of distinct classes (result columns are keyed by class names)"]
    st = info.get("regen", {})
    ctx.ties = {"gen_multitask_shape": st.get("gen_multitask_shape")}
    items, metas = ctor_cases(ctx)
    stats = execute_cases(ctx)
    stats["real_mode_runs"] = real_mode_check(ctx)
    res = coq.run_cases("C20", PREAMBLE, items, "check", shard=400)
    ctx.add_cover(len(items) + stats["executes"], len({json.dumps(m, sort_keys=True) for m in metas}) + stats["executes"],
                  "constructor: all n, m in 1..3 x tuple lengths {none, 1, n, m, n*m, other} x mode values (incl. unknown ones, lists instead of tuples) vs the model and vs the "
                  "documented designation; execute(): table-driven optimizers of distinct classes on tasks of distinct classes, all shapes, n != m and n == m, 1-2 trials, "
                  "logged modes, result tables, export in the three formats", [metas[0], metas[-1]])
    ctx.coverage["input_distribution"] = {"constructor_cases": len(items), **stats}
    for e in res["errors"]:
        ctx.broke("correspondence:C20 case evaluation", e)
    for i in res["bad"][:5]:
        ctx.broke(f"correspondence:Multi.v vs multitask.py on {json.dumps(metas[i])[:300]}", "model and implementation differ")
    ctx.coverage["correspondence"] = {"cases": res["n"], "disagreements": len(res["bad"]), "files": res["files"]}


def replay(rep):
    print(json.dumps(rep, indent=1, default=str)[:3000])
    return 1
