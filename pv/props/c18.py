"""C18 — uniform construction / configuration API."""
from __future__ import annotations
import json
from .. import lifesearch as L
from . import c07


def run(ctx, info):
    ctx.trusted += ["T-algo: constructor dereferences of the configuration, canonical shape of set_config_parameters", "schema extraction (ValueError before any cycle)"]
    ctx.assumptions += ["pydantic's validation of the config class is the reference for 'accepted or rejected'"]
    for n, bad in c07.facts(ctx, info, ("ctor_deref", "canon", "stale")).items():
        ctx.violation(f"skeleton:{n}:{'+'.join(sorted(bad))}", f"{n}: {bad}", {"kind": "skeleton", "optimizer": n, "facts": bad})
    # what is "invalid" is what the pinned tree's validators reject: the accept / reject table of every configuration class on a fixed probe set must be the recorded one
    from .. import validators
    from ..expected import load_expectations
    want = load_expectations().get("c18_validators", {})
    got = validators.table()
    n_probe = 0
    for nm, row in want.items():
        for f, sig in row.items():
            now = got.get(nm, {}).get(f)
            n_probe += len(sig)
            if now is None or now == sig: continue
            k = next(i for i, (a, b) in enumerate(zip(sig, now)) if a != b)
            pv_ = validators.describe(validators.PROBES[k])
            ctx.violation(f"validator:{nm}:{f}", f"{nm}: a configuration with {f}={pv_} is now {'accepted' if now[k] == 'a' else 'rejected'} by set_config_parameters / the configuration class "
                          f"(the pinned validators {'reject' if sig[k] == 'r' else 'accept'} it)", {"kind": "validator", "optimizer": nm, "field": f, "value": pv_})
    ctx.add_cover(n_probe, n_probe, "accept / reject outcome of every configuration class on 13 probe values (0, negatives, range ends, huge, inf, -inf, NaN) per numeric field vs the "
                  "recorded table of the pinned tree", ["population_size", "nan"])
    n_api = L.c18_api(ctx)
    from .. import hot
    pairs = L.c18_jobs(ctx, focus=hot.changed_sources(info))
    obs = L.run_pairs(pairs)
    n = L.c18_decide(ctx, pairs, obs)
    ctx.add_cover(n_api + 2 * n, n_api, "all 84 classes: construct without configuration, optimize() -> ValueError, set_config_parameters(d) vs Config(**d) for the fixture "
                  "dictionary and perturbed / truncated dictionaries; seeded run after set_config_parameters vs run of an instance constructed with the configuration",
                  [pairs[0][0], pairs[-1][1]])


def replay(rep):
    print(json.dumps({k: v for k, v in rep.items() if k != "replay"}, indent=1)[:800])
    return L.replay_pair(rep, L.c18_decide)
