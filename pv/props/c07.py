"""C07 — seeded reproducibility."""
from __future__ import annotations
import json
from .. import lifesearch as L


def facts(ctx, info, keys):
    st = info.get("regen", {})
    sks = st.get("_skeletons", {})
    out = {}
    for n, s in sks.items():
        f = s["fields"]
        bad = {k: f[k] for k in keys if k != "canon" and f.get(k)}
        if "canon" in keys and not f["canon"]: bad["canon"] = False
        if bad: out[n] = bad
    ctx.coverage["skeleton_facts"] = {"optimizers": len(sks), "flagged": out}
    ctx.ties = {"algos": st.get("algos"), "gen_optimize_schema": st.get("gen_optimize_schema"), "gen_task_seed_is_int": st.get("gen_task_seed_is_int")}
    return out


def run(ctx, info):
    ctx.trusted += ["T-algo's entropy scan (stdlib random, time, urandom, default_rng ... transitively through helpers.py) and use-before-def analysis",
                    "np.random.seed(int) determines numpy's subsequent global stream (oracle law)"]
    ctx.assumptions += ["serial mode (pooled modes are scheduling-dependent by nature: C11)", "the objective itself is deterministic"]
    flagged = facts(ctx, info, ("entropy", "stale"))
    for n, bad in flagged.items():
        ctx.broke(f"skeleton-fact:{n}:{'+'.join(sorted(bad))}", f"{n}: {bad} (AlgoBridge.no_entropy / no_stale_reads no longer hold)")
    from .. import hot
    pairs = L.c07_jobs(ctx, focus=set(flagged) | set(hot.changed_sources(info)))
    obs = L.run_pairs(pairs)
    n = L.c07_decide(ctx, pairs, obs)
    ctx.add_cover(2 * n, n, "every optimizer run twice with the same integer seed (seeds incl. 0, 42, 2^31-1) in different worker processes, the second after a random "
                  "number of unrelated numpy draws; every position, cost, fitness and rate of every generation compared; the same call twice on one instance; a task OBJECT that was sampled from / optimised on before "
                  "against a freshly built equal task (all encodings); pairs of fresh interpreters with different hash seeds", [pairs[0][0], pairs[-1][1]])


def replay(rep):
    print(json.dumps({k: v for k, v in rep.items() if k != "replay"}, indent=1)[:800])
    return L.replay_pair(rep, L.c07_decide)
