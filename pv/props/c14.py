"""C14 — a task's search-space description: correspondence of the TaskModel part of Vars.v with the
real Task methods on random tasks, and a direct decision of each clause on the real outputs."""
from __future__ import annotations
import json
import math

import numpy as np

from .. import coq
from ..lit import xlit, natlist, coqlist, xkey
from . import c13
from .c13 import var_lit, coord_lit, build, child_kinds, rbounds, rvalue, norm, same, is_member, Ch

PREAMBLE = c13.PREAMBLE.split("Inductive case :=")[0] + r"""
Definition bnd_eqb (a b : bnd) : bool :=
  match a, b with BNum l h, BNum l' h' => x_eqb l l' && x_eqb h h' | BPerm n, BPerm m => Nat.eqb n m | _, _ => false end.
Fixpoint bl_eqb (a b : list bnd) : bool :=
  match a, b with [] , [] => true | x :: t, y :: u => bnd_eqb x y && bl_eqb t u | _, _ => false end.
Fixpoint kv_eqb (a b : list (nat * dval)) : bool :=
  match a, b with [] , [] => true | (k, x) :: t, (k', y) :: u => Nat.eqb k k' && dval_eqb x y && kv_eqb t u | _, _ => false end.
Definition okv_eqb (a b : option (list (nat * dval))) : bool :=
  match a, b with None, None => true | Some x, Some y => kv_eqb x y | _, _ => false end.
Inductive case :=
| KTask (t : task) (dim : nat) (nflat : nat) (bs : list bnd)
| KCorrect (t : task) (x : list coord) (expected : option (list coord))
| KMember (t : task) (x : list coord) (expected : bool)
| KTransform (t : task) (x : list coord) (expected : option (list (nat * dval))).
Definition check (c : case) : bool :=
  match c with
  | KTask t d n bs => Nat.eqb (dimension t) d && Nat.eqb (length (flat_vars t)) n && bl_eqb (bounds t) bs
  | KCorrect t x e => ocl_eqb (correct_solution t x) e
  | KMember t x e => Bool.eqb (in_spaceb t x) e
  | KTransform t x e => okv_eqb (transform_solution t x) e
  end.
"""


def gen_task(r):
    """(list of (kind, spec)), distinct names v0, v1, ..."""
    if r.random() < 0.12:
        return [("perm", r.randint(1, 8))]
    out = []
    for _ in range(r.randint(1, 6)):
        kind = r.choice(["cont", "contmulti", "multiobj", "disc", "discmulti", "binary"])
        if kind == "cont": spec = rbounds(r)
        elif kind in ("contmulti", "multiobj"):
            n = r.choice([1, 1, 2, 3, 4]); bs = [rbounds(r) for _ in range(n)]; spec = ([b[0] for b in bs], [b[1] for b in bs])
        elif kind == "disc": spec = r.randint(1, 6)
        elif kind == "discmulti": spec = [r.randint(1, 5) for _ in range(r.choice([1, 1, 2, 3, 4]))]
        else: spec = r.choice([1, 1, 2, 3, 4])
        out.append((kind, spec))
    return out


def task_lit(tspec):
    return coqlist([f"({i}%nat, {var_lit(k, s)})" for i, (k, s) in enumerate(tspec)])


def mk_task(tspec):
    from ..harness import DummyTask
    vs = []
    for i, (k, s) in enumerate(tspec):
        v = build(k, s); v.name = f"v{i}"
        vs.append(v)
    return DummyTask(variables=vs), vs


def own_bounds(kind, spec):
    if kind == "cont": return [(spec[0], spec[1])]
    if kind in ("contmulti", "multiobj"): return list(zip(*spec))
    if kind == "disc": return [(0, spec - 1)]
    if kind == "discmulti": return [(0, n - 1) for n in spec]
    return None


def run(ctx, info):
    from ..harness import exc_class
    ctx.trusted += ["hand model of Task (dimension, get_variables, get_bounds, correct_solution, empty_solution, transform_solution) "
                    "tied by correspondence only; per-variable rules regenerated (VarsBridge)", "xnum embedding (pv/lit.py)"]
    ctx.assumptions += ["variables have distinct names (a dict keeps one entry per name)", "permutation variables appear alone in a task "
                        "(numpy cannot stack their vector bounds with scalar ones); no NaN inputs; permutation keys without ties here (ties: C13)"]
    ctx.ties = {"Task.__init__ dimension / get_variables / get_bounds / correct_solution / empty_solution / transform_solution": "correspondence",
                **{k: v for k, v in info.get("regen", {}).items() if k.startswith("gen_cont") or k.startswith("gen_disc") or k.startswith("gen_perm")}}
    r = ctx.rng
    items, metas = [], []
    # malformed stream: multi-variables whose bound lists differ in length (incl. 1 against n and 0 against 1) must be rejected at construction; if one is accepted the
    # task built on it must still be self-consistent (it cannot be: that is the violation)
    from pyvolutionary import ContinuousMultiVariable, MultiObjectiveVariable
    from ..harness import DummyTask
    for cls_ in (ContinuousMultiVariable, MultiObjectiveVariable):
        for lo_, hi_ in (([-5.0, -3.0, 0.0], [10.0]), ([0.0], [1.0, 2.0, 3.0]), ([], [1.0]), ([0.0, 0.0], [1.0, 1.0, 1.0]), ([0.0, 0.0, 0.0], [1.0, 1.0])):
            try:
                v_ = cls_(name="m", lower_bounds=lo_, upper_bounds=hi_)
            except Exception:
                continue
            try:
                t_ = DummyTask(variables=[v_]); lb_, ub_ = t_.get_bounds()
                desc = f"dimension {t_.space_dimension}, {len(lb_)} lower / {len(ub_)} upper bounds, {len(t_.get_variables())} flattened variables, {len(t_.empty_solution())} coordinates drawn"
            except Exception as ex_:
                desc = f"the task then raises {type(ex_).__name__}"
            ctx.violation("mismatched-bounds-accepted", f"{cls_.__name__}(lower_bounds={lo_}, upper_bounds={hi_}) is accepted; the task built on it is inconsistent: {desc}",
                          {"task": [[cls_.__name__, [lo_, hi_]]]})
    n_tasks = 350 if ctx.quick else 8000
    shapes = {}
    for _ in range(n_tasks):
        tspec = gen_task(r)
        meta = {"task": tspec}
        task, vs = mk_task(tspec)
        kids = [ck for k, s in tspec for ck in child_kinds(k, s)]
        dim_expected = sum({"cont": 1, "disc": 1, "perm": 1}.get(k) or (len(s[0]) if k in ("contmulti", "multiobj") else (len(s) if k == "discmulti" else s)) for k, s in tspec)
        shapes[len(tspec)] = shapes.get(len(tspec), 0) + 1
        tl = task_lit(tspec)
        # ---- dimension / variables / bounds
        if task.space_dimension != dim_expected:
            ctx.violation("dimension", f"space_dimension {task.space_dimension} != sum of sizes {dim_expected}", meta)
        flat = task.get_variables()
        try:
            lb, ub = task.get_bounds(); berr = None
        except Exception as e:
            lb = ub = None; berr = exc_class(e)
        if berr:
            ctx.violation("get_bounds-raises", f"get_bounds raises {berr} for {tspec!r}", meta)
            bl = "[]"
        else:
            # the description handed out must be the caller's own copy: editing it in place (as Ant Lion does with its shrinking bounds) must not change what the task
            # reports next time
            try:
                import numpy as _np
                first = (norm(lb), norm(ub))
                for arr in (lb, ub):
                    if isinstance(arr, _np.ndarray) and arr.dtype != object and arr.size: arr /= 4.0; arr[...] = arr - 1.0
                lb2, ub2 = task.get_bounds()
                if (norm(lb2), norm(ub2)) != first:
                    ctx.violation("bounds-shared", f"get_bounds() hands out the task's own arrays: after an in-place edit of the returned bounds the task reports {norm(lb2)!r}, {norm(ub2)!r} "
                                  f"instead of {first!r}", meta)
                lb, ub = lb2, ub2
            except Exception:
                pass
            lb, ub = norm(lb), norm(ub)
            bparts = []
            if tspec[0][0] == "perm":
                n = tspec[0][1]
                okp = len(lb) == 1 and len(ub) == 1 and all(x == 0 for x in lb[0]) and all(n - 1 < x < n for x in ub[0]) and len(lb[0]) == len(ub[0]) == n
                if not okp: ctx.violation("bounds-perm", f"permutation bounds {lb!r} {ub!r}", meta)
                bparts.append(f"(BPerm {n}%nat)")
            else:
                if len(lb) != dim_expected or len(ub) != dim_expected:
                    ctx.violation("bounds-length", f"get_bounds returns {len(lb)}/{len(ub)} entries for dimension {dim_expected}", meta)
                want = []
                for k, s in tspec:
                    ob = own_bounds(k, s)
                    if ob is None:      # binary: the variable's own get_bounds()
                        l_, u_ = build(k, s).get_bounds(); ob = list(zip(norm(l_), norm(u_)))
                    want += ob
                if [xkey(a) for a, _ in want] != [xkey(a) for a in lb] or [xkey(b) for _, b in want] != [xkey(b) for b in ub]:
                    ctx.violation("bounds-own", f"get_bounds {lb!r},{ub!r} differs from the variables' own bounds {want!r}", meta)
                if any(not (a <= b) for a, b in zip(lb, ub)):
                    ctx.violation("bounds-ordered", f"a lower bound exceeds its upper bound: {lb!r} {ub!r}", meta)
                bparts = [f"(BNum {xlit(a)} {xlit(b)})" for a, b in zip(lb, ub)]
            bl = coqlist(bparts)
        items.append(f"KTask {tl} {task.space_dimension}%nat {len(flat)}%nat {bl}")
        metas.append({**meta, "what": "dimension/bounds"})
        # ---- an EDITED task: after the task has been used, its variables are replaced by others of the same kinds and sizes with narrower / shifted domains
        # (task.variables = [...], pydantic models are mutable): every accessor must describe the CURRENT variables, exactly as a freshly built task does
        if r.random() < 0.25 and tspec[0][0] != "perm":
            def narrowed(k, s_):
                if k == "cont": return (s_[0] + 0.25 * (s_[1] - s_[0]), s_[1] - 0.25 * (s_[1] - s_[0]))
                if k in ("contmulti", "multiobj"): return ([a + 0.25 * (b - a) for a, b in zip(*s_)], [b - 0.25 * (b - a) for a, b in zip(*s_)])
                if k == "disc": return max(1, s_ - 1)
                if k == "discmulti": return [max(1, c - 1) for c in s_]
                return s_
            tspec2 = [(k, narrowed(k, s_)) for k, s_ in tspec]
            try:
                fresh, vs2 = mk_task(tspec2)
                used, _ = mk_task(tspec)
                probe = [c for c in norm(used.empty_solution())]
                used.correct_solution(probe); used.get_bounds(); used.get_variables()          # the task has been used
                used.variables = vs2
                probe2 = norm(fresh.empty_solution())
                wide = [(v * 3 + 1 if not isinstance(v, list) else v) for v in probe]          # mostly outside the narrowed domains
                agree = (norm(used.correct_solution(list(wide))) == norm(fresh.correct_solution(list(wide)))
                        and [norm(b) for b in used.get_bounds()] == [norm(b) for b in fresh.get_bounds()]
                        and len(used.get_variables()) == len(fresh.get_variables())
                        and repr(used.transform_solution(list(probe2))) == repr(fresh.transform_solution(list(probe2))))
                if not agree:
                    ctx.violation("edited-task", f"after `task.variables = ...` on a task that has been used, correct_solution / get_bounds / get_variables / transform_solution still "
                                  f"describe the OLD variables (a fresh task with the new variables answers differently): {tspec!r} -> {tspec2!r}", {**meta, "edited_to": tspec2})
            except Exception as ex_:
                ctx.note(f"edited-task case skipped: {type(ex_).__name__}")
        # ---- random solution
        try:
            es = norm(task.empty_solution())
            mem = len(es) == dim_expected and all(is_member(ck, cs, v) for (ck, cs), v in zip(kids, es))
            if not mem: ctx.violation("empty_solution", f"empty_solution() = {es!r} is not in the search space", meta)
            items.append(f"KMember {tl} {coqlist([coord_lit(c) for c in es])} true"); metas.append({**meta, "sample": repr(es)})
        except OverflowError:
            pass
        # ---- corrected solutions: coordinate-wise with the owning variable's rule
        for _k in range(3):
            x = []
            for ck, cs in kids:
                if ck == "perm":
                    keys = [r.uniform(-3, 3) for _ in range(cs)]
                    x.append(keys)
                else:
                    x.append(rvalue(r, ck, cs, False))
            mode = r.random()
            xx = list(x)
            if mode < 0.15: xx = xx + [0.5, 1.5]                    # longer than the dimension: zip truncates
            elif mode < 0.25 and len(xx) > 1: xx = xx[:-1]          # shorter
            arg = np.array(xx, dtype=float) if (mode > 0.8 and kids[0][0] != "perm" and all(not isinstance(v, (list, np.ndarray)) for v in xx)) else xx
            try:
                cs_out = norm(task.correct_solution(arg)); err = None
            except Exception as e:
                cs_out, err = None, exc_class(e)
            m2 = {**meta, "x": repr(xx)}
            xlits = coqlist([coord_lit(float(c) if isinstance(arg, np.ndarray) else c) for c in xx])
            if err:
                items.append(f"KCorrect {tl} {xlits} None"); metas.append(m2)
                ctx.violation("correct_solution-raises", f"correct_solution({xx!r}) raises {err}", m2)
                continue
            items.append(f"KCorrect {tl} {xlits} (Some {coqlist([coord_lit(c) for c in cs_out])})"); metas.append(m2)
            if len(xx) >= dim_expected:
                if len(cs_out) != dim_expected:
                    ctx.violation("correct_solution-length", f"correct_solution returns {len(cs_out)} coordinates for dimension {dim_expected}", m2)
                for i, (fv, v, o) in enumerate(zip(flat, xx, cs_out)):
                    if not same(norm(fv.correct(v)), o):
                        ctx.violation("correct_solution-pointwise", f"coordinate {i}: {o!r} is not the owning variable's correction of {v!r}", m2)
                # ---- transform_solution of the corrected solution
                try:
                    tr = task.transform_solution(cs_out); terr = None
                except Exception as e:
                    tr, terr = None, exc_class(e)
                m3 = {**meta, "position": repr(cs_out)}
                if terr:
                    ctx.violation("transform-raises", f"transform_solution({cs_out!r}) raises {terr}", m3)
                    items.append(f"KTransform {tl} {coqlist([coord_lit(c) for c in cs_out])} None"); metas.append(m3)
                else:
                    names = [v.name for v in vs]
                    if list(tr.keys()) != names:
                        ctx.violation("transform-keys", f"transform_solution keys {list(tr.keys())!r} != variable names {names!r}", m3)
                    off = 0; kv = []
                    for i, ((k, s), v) in enumerate(zip(tspec, vs)):
                        sl = cs_out[off:off + v.size()]; off += v.size()
                        want = v.decode(sl if v.has_children() else sl[0])
                        got = tr.get(v.name)
                        if repr(want) != repr(got) and not (want is got):
                            ctx.violation("transform-slices", f"entry {v.name}: {got!r} is not the decoding {want!r} of its slice {sl!r}", m3)
                        kv.append(f"({i}%nat, {c13.dval_lit(v, k, s, got)})")
                    items.append(f"KTransform {tl} {coqlist([coord_lit(c) for c in cs_out])} (Some {coqlist(kv)})"); metas.append(m3)
    # a task DERIVED from another one - Cls(**{**dict(task), "variables": new_vars}) carries the old task's derived fields along (space_dimension is a declared
    # field): the description must follow the NEW variables, whatever stale value is handed to the constructor
    n_derived = 0
    for _ in range(40 if ctx.quick else 600):
        ta, tb = gen_task(r), gen_task(r)
        t1, _v1 = mk_task(ta)
        _t2, v2 = mk_task(tb)
        want = sum(v.size() for v in v2)
        for how, kw in (("dict(task) + new variables", {**dict(t1), "variables": v2}), ("explicit stale space_dimension", {"variables": v2, "space_dimension": t1.space_dimension + 1})):
            try:
                t3 = type(t1)(**kw)
            except Exception as e:
                continue                                          # a constructor that refuses the stale field is fine too
            n_derived += 1
            lb, ub = t3.get_bounds()
            if t3.space_dimension != want or len(lb) != want or len(t3.empty_solution()) != want:
                ctx.violation("derived-task:dimension", f"a task built from {how}: space_dimension = {t3.space_dimension}, bounds for {len(lb)} coordinates, "
                              f"random solutions of {len(t3.empty_solution())} coordinates, but its variables have {want} coordinates in all",
                              {"task": tb, "derived_from": ta, "how": how})
    ctx.coverage["derived_tasks"] = n_derived
    res = coq.run_cases("C14", PREAMBLE, items, "check", shard=300)
    distinct = len({json.dumps(m, default=str, sort_keys=True) for m in metas})
    ctx.add_cover(len(items), distinct,
                  "random tasks of 1-6 variables drawn from the six scalar/multi kinds (sizes 1-4, incl. multi-variables of size 1) and single "
                  "permutation variables; per task: dimension/variables/bounds, one random solution, three candidate positions (in/out of range, "
                  "boundary, longer, shorter, numpy arrays) corrected and transformed; distinct = distinct (task, input) pairs",
                  [metas[0], metas[len(metas) // 2], metas[-1]])
    ctx.coverage["input_distribution"] = {"tasks": n_tasks, "variables_per_task": shapes}
    for e in res["errors"]:
        ctx.broke("correspondence:C14 case evaluation", e)
    for i in res["bad"][:5]:
        ctx.broke(f"correspondence:TaskModel vs models.Task on {json.dumps(metas[i], default=str)[:400]}", "model and implementation differ")
    ctx.coverage["correspondence"] = {"cases": res["n"], "disagreements": len(res["bad"]), "files": res["files"]}


def replay(rep):
    print(json.dumps(rep, indent=1, default=str))
    m = rep["replay"]
    tspec = [(k, tuple(s) if k in ("cont", "contmulti", "multiobj") else s) for k, s in m["task"]]
    task, vs = mk_task(tspec)
    print("dimension", task.space_dimension)
    try: print("bounds", task.get_bounds())
    except Exception as e: print("get_bounds raises", type(e).__name__, e)
    return 1
