"""C11 — thread / process modes: same guarantees, no lost or duplicated evaluation, pairwise distinct initial points.
Pools are run for real with per-evaluation delays (seeded from the argument) so that completion orders vary."""
from __future__ import annotations
import json
import time
from collections import Counter

from .. import provsearch


def pooled_greedy_check(ctx, n):
    """the real pooled _greedy_select_population under scrambled completion orders vs the serial one (multiset of agents)"""
    from ..harness import Scripted, BaseOptimizationConfig, mk_agent, ModeSolver
    r = ctx.rng
    import zlib

    class Slow(Scripted):
        def _greedy_select_agent(self, agent, new_agent):
            time.sleep((zlib.crc32(repr((agent.position, new_agent.position)).encode()) % 5) * 0.002)
            return super()._greedy_select_agent(agent, new_agent)
    bad = 0
    for _ in range(n):
        P = r.randint(2, 8)
        pop = [mk_agent(i, r.choice([0.0, 1.0, 1.0, 2.5, -1.0, float("inf")])) for i in range(P)]
        if r.random() < 0.5:
            # exact TWINS in the population (value-identical agents: several agents clipped onto one corner, a copied best): every slot is still its own slot
            for _ in range(r.randint(1, 3)):
                a_, b_ = r.randrange(P), r.randrange(P)
                pop[b_] = mk_agent(pop[a_].position[0], pop[a_].cost)
            pop.sort(key=lambda a: a.cost)
        new = [mk_agent(100 + i, r.choice([0.0, 1.0, 0.5, 3.0, -2.0])) for i in range(P + r.randint(0, 2))]
        out = {}
        for mode, wk in (("serial", 1), ("thread", r.choice([1, 2, 4, 8]))):
            o = Slow(BaseOptimizationConfig(population_size=P, max_cycles=1)); o._population = list(pop)
            o._mode = ModeSolver(mode); o._workers = wk
            o._greedy_select_population(list(new))
            out[mode] = [a.position[0] for a in o._population]
        if Counter(out["serial"]) != Counter(out["thread"]) or len(out["thread"]) != P:
            bad += 1
            ctx.violation("pooled-greedy:lost or duplicated agent", f"serial keeps {sorted(out['serial'])}, thread pool keeps {sorted(out['thread'])}",
                          {"kind": "greedy", "pop": [a.cost for a in pop], "new": [a.cost for a in new]})
    return n


def run(ctx, info):
    from .. import search
    ctx.trusted += ["concurrent.futures executors modelled as 'results in some permutation' and fork as 'a copy of the parent's stream per worker' - that CPython stays "
                    "inside this envelope is NOT proved (partial); shape extraction of helpers.get_pool_executor / get_pool_results and their call sites",
                    "T-core translation of the pooled branches of _generate_agents / _greedy_select_population"]
    ctx.assumptions += ["distinct draws of the parent's stream are distinct points (continuous distributions)"]
    st = info.get("regen", {})
    ctx.ties = {k: st.get(k) for k in ("gen_pool_shape", "gen_generate_agents", "gen_init_population", "gen_greedy_select_population")}
    r = ctx.rng
    jobs = []
    names = search.all_names()
    pooled_greedy_users = ["FicksLawOptimization", "KrillHerdOptimization", "WildebeestHerdOptimization", "WindDrivenOptimization"]
    pick = pooled_greedy_users + r.sample([n for n in names if n not in pooled_greedy_users], 8 if ctx.quick else 40)
    for nm in pick:
        for mode in ("thread", "process"):
            for _ in range(1 if ctx.quick else 2):
                wk = r.choice([1, 2, 3, 4, 8, 16])
                seed = r.choice([None, 0, 42, r.randint(0, 10**6)])
                t = search.cont_task(obj=r.choice(["sphere", "shifted"]), minmax=r.choice(["min", "max"]), seed=seed, dim=3, delay=0.0006)
                jobs.append({"opt": nm, "cfg": {"max_cycles": 2, "fitness_error": None, "population_size": 12}, "task": t, "mode": mode, "workers": wk, "record": True})
                if mode == "thread":
                    # ... and on a FRESH mixed task with many variables, no delay, many workers, the interpreter switching threads every microsecond: state that the
                    # pooled evaluations share (the task, its variables) is touched by several of them at once
                    from .. import census
                    t2 = {"vars": [("cont", (-1.0, 1.0))] * 6 + census.INT_ENCODINGS["mixed"]() + [("contmulti", ([-2.0] * 4, [2.0] * 4))], "obj": "sphere", "minmax": r.choice(["min", "max"]), "seed": seed}
                    jobs.append({"opt": nm, "cfg": {"max_cycles": 1, "fitness_error": None, "population_size": 24}, "task": t2, "mode": "thread", "workers": r.choice([8, 16]), "record": True,
                                 "switchinterval": 1e-6, "hashseed": 0})
    for nm in pooled_greedy_users[:1] + pick[-2:]:          # more workers than agents, both pooled modes (deterministic part of the plan)
        for mode in ("process", "thread"):
            jobs.append({"opt": nm, "cfg": {"max_cycles": 2, "fitness_error": None, "population_size": 12}, "task": search.cont_task(obj="sphere", seed=r.choice([None, 42]), dim=3, delay=0.0004),
                         "mode": mode, "workers": 16, "record": True})
    # the second pooled run in an interpreter is the first: the objective reads program state outside the task (a module-level setting) that CHANGED since an earlier
    # pooled run with the same mode and worker count - every evaluation, wherever it runs, must see the state of the call it belongs to (no pool kept across calls)
    for nm in pooled_greedy_users[:2] + pick[-3:]:
        for mode in ("process", "thread"):
            wk = r.choice([2, 3])
            mk = lambda shift: search.cont_task(obj="global:sphere", minmax=r.choice(["min", "max"]), seed=r.choice([None, 7]), dim=3, global_shift=shift)
            # (run in a FRESH interpreter - "hashseed" - not in a worker of the search harness's own pool: what a user's program is)
            jobs.append({"opt": nm, "cfg": {"max_cycles": 2, "fitness_error": None, "population_size": 12}, "task": mk(r.choice([5.0, -3.0])), "mode": mode, "workers": wk, "record": True, "hashseed": 0,
                         "pre_jobs": [{"opt": nm, "cfg": {"max_cycles": 1, "fitness_error": None, "population_size": 12}, "task": mk(0.0), "mode": mode, "workers": wk}]})
    obs = search.run_jobs(jobs, procs=8)
    n_ok = 0
    for o in obs:
        j = o["job"]
        if not o["ok"]:
            plumbing = o["error"]["where"].startswith(("abstract.py:", "helpers.py:get_pool", "harness")) or o["error"]["type"] in ("BrokenProcessPool", "PicklingError") \
                or "pickle" in o["error"]["msg"].lower()
            if o["error"]["type"] != "ValidationError" and plumbing:
                # the pool plumbing itself failed (not a numeric kernel: those are C06's census): every pooled evaluation must contribute one agent
                ctx.violation(f"pooled:{o['error']['type']}:{o['error']['where']}", f"{j['opt']} ({j['mode']}, {j['workers']} workers, population {j['cfg']['population_size']}): "
                              f"{o['error']['type']} in {o['error']['where']}: {o['error']['msg'][:100]}", {"kind": "job", "job": j})
            continue
        n_ok += 1
        # guarantees of serial mode
        P = j["cfg"]["population_size"]
        gen0 = o["evolution"][0]
        by_design = {"BeeColonyOptimization": P // 2}
        if len(gen0) != by_design.get(j["opt"], P) and j["opt"] not in ("ForestOptimizationAlgorithm", "ImperialistCompetitiveOptimization"):
            ctx.violation(f"pooled-init:size:{j['mode']}", f"{j['opt']} ({j['mode']}, {j['workers']} workers): initial generation has {len(gen0)} agents, population_size={P}", {"kind": "job", "job": j})
        pts = [json.dumps(a[0]) for a in gen0]
        if len(set(pts)) != len(pts) and j["opt"] != "ImperialistCompetitiveOptimization":
            dup = [p for p, c in Counter(pts).items() if c > 1]
            ctx.violation(f"pooled-init:duplicate points:{j['mode']}", f"{j['opt']} ({j['mode']}, {j['workers']} workers, seed {j['task']['seed']}): {len(pts) - len(set(pts))} "
                          f"initial points are exact duplicates, e.g. {dup[0]}", {"kind": "job", "job": j})
        # every initial agent was evaluated exactly once (its position appears among the recorded objective arguments)
        calls = Counter(o.get("calls", []))
        for a in gen0:
            if j["opt"] == "ImperialistCompetitiveOptimization": break
            if calls.get(repr(a[0]), 0) < 1:
                ctx.violation(f"pooled-init:unevaluated agent:{j['mode']}", f"{j['opt']} ({j['mode']}): initial agent at {a[0]!r} has no recorded evaluation", {"kind": "job", "job": j}); break
        mm = j["task"]["minmax"]
        last = o["evolution"][-1]
        if o["best"] is not None and any((a[1] < o["best"][1]) if mm == "min" else (a[1] > o["best"][1]) for a in last):
            ctx.violation(f"pooled:best_solution:{j['mode']}", f"{j['opt']} ({j['mode']}): best_solution is not the optimum of the final generation", {"kind": "job", "job": j})
    stats = provsearch.decide(ctx, [o for o in obs if o["job"]["opt"] != "ImperialistCompetitiveOptimization"], {"space", "cost"})
    ng = pooled_greedy_check(ctx, 25 if ctx.quick else 300)
    ctx.add_cover(len(jobs) + ng, n_ok + ng, "thread and process runs (workers 1-16, seeds incl. None) of the four pooled-greedy optimizers and a sample of the others, with per-evaluation delays: "
                  "size, pairwise distinct initial points, one recorded evaluation per initial agent, best_solution, membership and cost truth of every agent; the real pooled "
                  "greedy selection under scrambled completion orders vs serial (multisets)", [jobs[0], jobs[-1]])
    ctx.coverage["real_optimizer_runs"] = {"jobs": len(jobs), "completed": n_ok, **{k: v for k, v in stats.items() if k in ("agents",)}}


def replay(rep):
    from .. import search
    print(json.dumps({k: v for k, v in rep.items() if k != "replay"}, indent=1)[:800])
    m = rep["replay"]
    if m.get("kind") == "job":
        o = search.run_job(m["job"])
        if o["ok"]:
            pts = [json.dumps(a[0]) for a in o["evolution"][0]]
            print("initial points:", len(pts), "distinct:", len(set(pts)))
            return 1 if len(set(pts)) != len(pts) else 0
        print(o.get("error"))
    return 1
