"""C17 — elitist optimizers never lose their best solution: the pinned structurally-elitist set (from the
regenerated skeletons) is run for real in both directions and the best cost of consecutive generations compared."""
from __future__ import annotations
from ..expected import load_expectations
import json
import math


def monotone_problems(o):
    mm = o["job"]["task"].get("minmax", "min")
    from .. import search
    P = o["job"].get("cfg", {}).get("population_size")
    if P is not None and P < search.fixture_scale(o["job"]["opt"])["population_size"] and any(len(g) != P for g in o["evolution"]):
        # below the documented scale AND agents were dropped (a group count that does not divide so small a population: Henry Gas with 3 agents and 2 clusters keeps
        # 2): the optimizer's own side condition on the population size is not met - outside C10's quantifier and, for the same reason, no observation here
        return []
    best = [(min if mm == "min" else max)(a[1] for a in pop) for pop in o["evolution"] if pop]
    probs = []
    for k in range(len(best) - 1):
        worse = best[k + 1] > best[k] if mm == "min" else best[k + 1] < best[k]
        if worse:
            probs.append(f"best cost of generation {k + 1} ({best[k + 1]!r}) is worse than that of generation {k} ({best[k]!r}) [{mm}]")
            break
    if o["best"] is not None and best:
        ever = (min if mm == "min" else max)(best)
        if (o["best"][1] > ever) if mm == "min" else (o["best"][1] < ever):
            probs.append(f"best_solution cost {o['best'][1]!r} is not the best ever recorded ({ever!r}) [{mm}]")
    return probs


def greedy_near_ties(ctx, n):
    """the real _greedy_select_agent on challengers within a few ulps / 1e-9 of the incumbent (all three kinds of override)"""
    from ..harness import Scripted, BaseOptimizationConfig, mk_agent
    import numpy as np
    import pyvolutionary
    r = ctx.rng
    o = Scripted(BaseOptimizationConfig(population_size=2, max_cycles=1))
    bad = 0
    for _ in range(n):
        base = r.choice([100.0, 3e-12, -100.0, 1.0, 0.0, 1e-300, -7.5, 12345.678])
        delta = r.choice([0.0, 1e-9 * abs(base), 5e-6 * abs(base), 9e-9, -9e-9, 1e-12, -1e-12])
        a, b = mk_agent(0, base), mk_agent(1, base + delta)
        if r.random() < 0.5: a, b = b, a
        res = o._greedy_select_agent(a, b)
        if res.cost > a.cost:                      # the result must never be worse than the incumbent
            bad += 1
            ctx.violation("greedy:result worse than the incumbent", f"_greedy_select_agent(cost {a.cost!r}, challenger {b.cost!r}) kept cost {res.cost!r}",
                          {"kind": "greedy", "incumbent": a.cost.hex(), "challenger": b.cost.hex()})
    return n


def run(ctx, info):
    from .. import search
    from ..expected import load_expectations
    ctx.trusted += ["T-algo's elitism classification (syntactic: WMap element expressions whose every return path is a greedy selection / the incumbent; "
                    "pooled helpers) and the hypothesis step_conforms (the step edits the population only through the listed writes)"]
    ctx.assumptions += ["no agent has a NaN cost; population_size >= 1",
                        "17 further optimizers (expectations.json: elitist_observed) are covered by SEARCH ONLY: monotone in every run on the pinned tree, pinned by source hash"]
    st = info.get("regen", {})
    sks = st.get("_skeletons", {})
    pinned = load_expectations()["elitist"]
    ctx.ties = {"algos": st.get("algos"), "gen_greedy_select_agent": st.get("gen_greedy_select_agent"),
                "gen_greedy_select_population": st.get("gen_greedy_select_population"), "gen_extend_and_trim_population": st.get("gen_extend_and_trim_population")}
    now = [n for n, s in sks.items() if s["elitist"]]
    ctx.coverage["elitist_set"] = {"pinned": len(pinned), "computed_now": len(now), "dropped": sorted(set(pinned) - set(now)), "new": sorted(set(now) - set(pinned))}
    r = ctx.rng
    jobs = []
    boost = 1 if info.get("make_ok", True) else 3          # a theorem or a bridge of this property no longer checks: search harder for the failing run
    focus = sorted(set(pinned) - set(now))          # an optimizer that left the set is searched harder
    for nm in pinned:
        reps = (1 if ctx.quick else 6) * boost
        if nm in focus: reps = 6
        for _ in range(reps):
            for obj, mc in (("sphere", 40 if (ctx.quick and nm not in focus) else 70), ("step", 8)):
                mm = r.choice(["min", "max"])
                jobs.append({"opt": nm, "cfg": {"max_cycles": mc, "fitness_error": None},
                             "task": search.cont_task(obj=obj, minmax=mm, seed=r.randint(0, 10**6), dim=r.choice([2, 3]), lo=-5.0, hi=5.0)})
    # a REUSED instance must be just as elitist (stale "already sorted" flags, caches ... show only from the second run on)
    trimmers = [n for n in pinned if n in sks and any(k in ("WExtendTrim", "WReplaceTrim", "WGreedyPop") for k, _ in sks[n]["step"])]      # shared sort-and-trim / pooled helpers
    reuse = [n for n in pinned for _ in range(4 if n in trimmers else 1)] if not ctx.quick else trimmers * 3 + r.sample(pinned, min(len(pinned), 12))
    for nm in reuse:
        first = {"task": search.cont_task(obj="sphere", minmax=r.choice(["min", "max"]), seed=r.randint(0, 10**6), dim=3, lo=-5.0, hi=5.0)}
        jobs.append({"opt": nm, "cfg": {"max_cycles": 12, "fitness_error": None}, "sequence": [first] * r.choice([1, 2]),
                     "task": search.cont_task(obj=r.choice(["sphere", "rastrigin"]), minmax=r.choice(["min", "max"]), seed=r.randint(0, 10**6), dim=r.choice([2, 3]), lo=-5.0, hi=5.0)})
    # optimizers T-algo cannot classify but which were monotone in every run on the pinned tree: search only, pinned by the hash of their source
    observed = load_expectations().get("elitist_observed", {})
    changed = sorted(n for n, fp in observed.items() if n in sks and sks[n].get("src_fingerprint") != fp)
    ctx.coverage["elitist_observed"] = {"pinned": len(observed), "source_changed": changed}
    for n in changed:
        ctx.broke(f"elitist-observed:{n}", f"the source of {n} (elitist by observation on the pinned tree: no machine-checked argument) differs from the reviewed one")
    for nm in observed:
        P0 = search.fixture_scale(nm)["population_size"]
        reps = 40 if nm in changed else ((4 if ctx.quick else 12) * boost)
        for i in range(reps):
            P = r.choice([P0, int(P0 * 1.5), 2 * P0, P0 + 1, P0 + 2, P0 + 3, P0 + 6, P0 + 11]) if (nm in changed or i % 2) else P0
            jobs.append({"opt": nm, "cfg": {"max_cycles": r.choice([5, 10, 20, 40]), "population_size": P, "fitness_error": None},
                         "task": search.cont_task(obj=r.choice(["sphere", "rastrigin", "step", "linear"]), minmax=r.choice(["min", "max"]), seed=r.randint(0, 10**6),
                                                  dim=r.choice([2, 3, 5]), lo=-5.0, hi=5.0)})
    # "x configurations": the edge of what the validators accept - the smallest populations, each numeric parameter at the smallest / largest accepted value
    # (trim counts computed from a fraction of a tiny population, ceil / floor of products ...).  All of them for optimizers whose facts or source changed,
    # a sample otherwise (thorough: all)
    from .. import validators
    edge = []
    for nm in list(pinned) + list(observed):
        hot = nm in changed or nm in focus
        for cfg in validators.edge_configs(nm):
            for mm in ("min", "max"):
                for _ in range(3 if hot else 1):
                    edge.append((hot, {"opt": nm, "cfg": {**cfg, "max_cycles": 12, "fitness_error": None},
                                       "task": search.cont_task(obj=r.choice(["sphere", "rastrigin"]), minmax=mm, seed=r.randint(0, 10**6), dim=r.choice([2, 3]), lo=-5.0, hi=5.0)}))
    cold = [j for h, j in edge if not h]
    edge_jobs = [j for h, j in edge if h] + (r.sample(cold, min(len(cold), 150 * boost)) if ctx.quick else cold)
    ctx.coverage["edge_configurations"] = {"available": len(edge), "run": len(edge_jobs)}
    jobs += edge_jobs
    # objectives that are MEASUREMENTS (the same position evaluated again gives another value: noise, an evaluation budget, a dynamic penalty): an elitist scheme
    # keeps the agent it kept - with the cost recorded when it was built - so the best recorded cost still never gets worse.  An elite that is re-evaluated every
    # generation loses it.  (On the pinned tree this holds for all 70 elitist optimizers.)
    cand = list(pinned) + list(observed)
    hotn = [n for n in cand if n in changed or n in focus]
    for nm in hotn * 6 + (r.sample(cand, min(len(cand), 12 * boost)) if ctx.quick else cand * 3):
        jobs.append({"opt": nm, "cfg": {"max_cycles": 12, "fitness_error": None, "population_size": search.fixture_scale(nm)["population_size"]},
                     "task": search.cont_task(obj="noisy:" + r.choice(["sphere", "rastrigin"]), minmax=r.choice(["min", "max"]), seed=r.randint(0, 10**6), dim=2, lo=-3.0, hi=3.0)})
    from .. import edgesuite
    elit = sorted(set(pinned) | set(observed))
    edgesuite.run(ctx, "monotone", info=info, names=(r.sample(elit, 8 * boost) if ctx.quick else elit), focus=list(changed) + list(focus), elitist=set(elit))
    obs = search.run_jobs(jobs)
    n_ok = 0
    for o in obs:
        if not o["ok"]: continue
        n_ok += 1
        for p in monotone_problems(o):
            ctx.violation(f"monotone:{o['job']['opt']}", f"{o['job']['opt']}: {p}", {"kind": "job", "job": o["job"]})
    ng = greedy_near_ties(ctx, 300 if ctx.quick else 5000)
    ctx.add_cover(len(jobs) + ng, n_ok, "every pinned elitist optimizer run for real (sphere 40-70 cycles to reach near-ties, step function 8 cycles for exact ties; "
                  "min and max; seeds) and the best cost of consecutive generations compared; the real _greedy_select_agent on near-tie pairs",
                  [jobs[0], jobs[-1]])
    ctx.coverage["real_optimizer_runs"] = {"jobs": len(jobs), "completed": n_ok}


def replay(rep):
    from .. import search
    print(json.dumps({k: v for k, v in rep.items() if k != "replay"}, indent=1)[:1000])
    m = rep["replay"]
    if m.get("kind") == "job":
        o = search.run_job(m["job"])
        probs = monotone_problems(o) if o["ok"] else [o.get("error")]
        print("problems:", probs)
        return 1 if probs else 0
    print(m)
    return 1
