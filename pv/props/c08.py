"""C08 — a run does not depend on the optimizer instance's history."""
from __future__ import annotations
import json
from .. import lifesearch as L
from . import c07


def run(ctx, info):
    ctx.trusted += ["T-algo's use-before-def analysis of instance fields (must-def along the run path, helper methods and nested functions inlined)",
                    "schema extraction (per-run resets of the base class)"]
    ctx.assumptions += ["serial mode, equal arguments; fields assigned only in __init__ and never stored again are constructor constants (inputs)"]
    for n, bad in c07.facts(ctx, info, ("stale",)).items():
        ctx.violation(f"skeleton:{n}:stale", f"{n}: instance fields read before they are assigned in the same run: {bad}", {"kind": "skeleton", "optimizer": n, "facts": bad})
    from .. import hot
    pairs = L.c08_jobs(ctx, focus=hot.changed_sources(info))
    obs = L.run_pairs(pairs)
    n = L.c08_decide(ctx, pairs, obs)
    ctx.add_cover(2 * n, n, "every optimizer: optimize() on an instance already used 1-2 times (same or another task of another dimension; stop by budget, "
                  "fitness_error or early stopping) vs a fresh instance, same seed; full result compared", [pairs[0][0], pairs[-1][1]])


def replay(rep):
    print(json.dumps({k: v for k, v in rep.items() if k != "replay"}, indent=1)[:800])
    return L.replay_pair(rep, L.c08_decide)
