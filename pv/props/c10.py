"""C10 — population size conservation: regenerated size facts + real runs at 1x, 1.5x, 2x, 3x the documented
population size, all modes; irregular optimizers are pinned by the fingerprint of their population-affecting statements."""
from __future__ import annotations
import json


def size_problems(o, by_design):
    P = o["job"]["cfg"]["population_size"]
    sizes = [len(p) for p in o["evolution"]]
    nm = o["job"]["opt"]
    if any(s == 0 for s in sizes): return [f"an empty generation: sizes {sizes}"]
    if any(s > P for s in sizes): return [f"a generation larger than population_size={P}: sizes {sizes}"]
    if nm not in by_design and any(s != P for s in sizes): return [f"generation sizes {sizes} with population_size={P}"]
    return []


SIZE_PREAMBLE = r"""
From PV Require Import SizeModels.
Fixpoint nl_eqb (a b : list nat) : bool :=
  match a, b with [] , [] => true | x :: t, y :: u => Nat.eqb x y && nl_eqb t u | _, _ => false end.
(* the recorded generation sizes of one real run vs the model iterated from the recorded initial size *)
Inductive case := KSize (m : smodel) (P : nat) (sizes : list nat).
Definition check (c : case) : bool :=
  match c with KSize m P sizes =>
    match sizes with [] => false | n0 :: rest => nl_eqb rest (map (fun k => iterate (step_of P n0 m) k n0) (seq 1 (length rest))) end end.
"""

# optimizer -> (privates to read back, model literal from (cfg, privates))
SIZE_MODELS = {
    "CuckooSearchOptimization": (["__n_cut"], lambda c, p: f"(MCuckoo {p['__n_cut']})"),
    "MonarchButterflyOptimization": (["__np1"], lambda c, p: f"(MMonarch {c['keep']} {p['__np1']})"),
    "EarthwormsOptimization": ([], lambda c, p: f"(MEarthworms {c['keep']})"),
    "BrainStormOptimization": ([], lambda c, p: f"(MClustered {c['m_clusters']})"),
    "ImprovedBrainStormOptimization": ([], lambda c, p: f"(MClustered {c['m_clusters']})"),
    "HenryGasSolubilityOptimization": ([], lambda c, p: f"(MClustered {c['n_clusters']})"),
    "CoyotesOptimization": ([], lambda c, p: f"(MCoyotes {c['num_coyotes']})"),
    "ElephantHerdOptimization": ([], lambda c, p: f"(MElephant {c['n_clans']})"),
    "GeneticAlgorithmOptimization": ([], lambda c, p: "MGenetic"),
    "FireHawkOptimization": (["__hn"], lambda c, p: f"(MFireHawk {p['__hn']})"),
    "BacterialForagingOptimization": ([], lambda c, p: "MBacterial"),
    "WaterCycleOptimization": ([], lambda c, p: f"(MWaterCycle {c['nsr']})"),
}


def size_model_correspondence(ctx, n_per_opt):
    """real runs of the irregular optimizers over population sizes (multiples and non-multiples of the documented scale) and perturbed integer / fractional
    parameters: the size of every recorded generation vs the hand size model evaluated in Coq"""
    from .. import search, coq
    r = ctx.rng
    jobs = []
    for nm, (privs, _) in SIZE_MODELS.items():
        base = search.fixture_scale(nm)
        P0 = base["population_size"]
        for i in range(n_per_opt):
            P = r.choice([P0, int(P0 * 1.5), 2 * P0, 3 * P0, P0 + 1, P0 + 2, P0 + 3, P0 + 5, 2 * P0 + 1]) if i else P0
            cfg = {"population_size": P, "max_cycles": r.choice([1, 2, 3, 5]), "fitness_error": None}
            for k, v in base.items():
                if k in ("population_size", "max_cycles", "fitness_error"): continue
                if isinstance(v, float) and 0 < v < 1 and r.random() < 0.5: cfg[k] = round(min(0.95, max(0.05, v * r.uniform(0.4, 1.8))), 3)
                if isinstance(v, int) and not isinstance(v, bool) and k in ("keep", "m_clusters", "n_clusters", "num_coyotes", "n_clans", "nsr") and r.random() < 0.5:
                    cfg[k] = max(1, v + r.choice([-1, 1, 2]))
            jobs.append({"opt": nm, "cfg": cfg, "privates": privs, "task": search.cont_task(obj=r.choice(["sphere", "rastrigin"]), seed=r.randint(0, 10**6), dim=r.choice([2, 3]))})
    obs = search.run_jobs(jobs)
    items, metas = [], []
    skipped = 0
    for o in obs:
        if not o["ok"]:
            skipped += 1; continue                      # a rejected configuration or a crash (C06's business): no size observation
        j = o["job"]
        full = dict(o["config_after"])                 # the validated configuration, defaults included
        lit = SIZE_MODELS[j["opt"]][1](full, o.get("privates", {}))
        sizes = [len(g) for g in o["evolution"]]
        items.append(f"KSize {lit} {full['population_size']}%nat [" + "; ".join(f"{x}%nat" for x in sizes) + "]")
        metas.append({"opt": j["opt"], "cfg": j["cfg"], "model": lit, "sizes": sizes, "job": j})
    res = coq.run_cases("C10", SIZE_PREAMBLE, items, "check")
    return items, metas, res, skipped


def run(ctx, info):
    from .. import search
    from ..expected import load_expectations
    ctx.trusted += ["T-algo's classification of population writes and the hypothesis step_conforms", "T-core translation of _generate_agents/_init_population; pool results as an arbitrary permutation"]
    ctx.assumptions += ["population_size >= 1", "irregular optimizers (no machine-checked size model): search only, pinned by source fingerprint"]
    e = load_expectations()
    st = info.get("regen", {})
    sks = st.get("_skeletons", {})
    by_design = set(e["variable_by_design"])
    regular_now = [n for n, s in sks.items() if s["size_regular"]]
    irregular = sorted(set(sks) - set(regular_now) - by_design)
    changed = [n for n in irregular if e.get("size_fingerprints", {}).get(n) not in (None, sks[n]["fingerprint"])]
    unpinned = [n for n in irregular if n not in e.get("size_fingerprints", {})]
    ctx.coverage["size_classes"] = {"regular": len(regular_now), "variable_by_design": sorted(by_design), "irregular": irregular,
                                    "dropped_from_regular": sorted(set(e["size_regular"]) - set(regular_now)), "fingerprint_changed": changed, "unpinned_irregular": unpinned}
    for n in changed + unpinned:
        ctx.broke(f"size-model:{n}", f"the population-affecting statements of {n} differ from the ones its size behaviour was reviewed against (fingerprint {sks[n]['fingerprint']})")
    ctx.ties = {"algos": st.get("algos"), "gen_generate_agents": st.get("gen_generate_agents"), "gen_init_population": st.get("gen_init_population"),
                "SizeModels.v (12 irregular optimizers)": "hand model; source fingerprint + vm_compute correspondence of generation sizes"}
    missing_models = sorted(set(irregular) - set(SIZE_MODELS))
    for n in missing_models:
        ctx.broke(f"size-model:{n}", f"{n} is size-irregular and has no hand size model in SizeModels.v")
    items, metas, res, skipped = size_model_correspondence(ctx, 6 if ctx.quick else 60)
    for e_ in res["errors"]:
        ctx.broke("correspondence:C10 size-model case evaluation", e_)
    for i in res["bad"][:6]:
        m = metas[i]
        P = m["cfg"]["population_size"]
        ctx.broke(f"correspondence:SizeModels.{m['model']} vs {m['opt']} (population_size={P})", f"recorded generation sizes {m['sizes']} differ from the model's prediction")
    ctx.add_cover(len(items), len({(m["opt"], json.dumps(m["cfg"], sort_keys=True)) for m in metas}), "generation sizes of the 12 irregular optimizers (sizes 1x-3x and non-multiples, perturbed "
                  "integer and fractional parameters, 1-5 cycles) vs the hand size models of SizeModels.v evaluated in Coq; crashed / rejected configurations are not size observations",
                  [metas[0] if metas else None, metas[-1] if metas else None])
    ctx.coverage["size_model_correspondence"] = {"cases": res["n"], "disagreements": len(res["bad"]), "not_observed": skipped}
    r = ctx.rng
    jobs = []
    focus = set(changed + unpinned) | (set(e["size_regular"]) - set(regular_now))
    for nm in search.all_names():
        P0 = search.fixture_scale(nm)["population_size"]
        mults = [1, 1.5] if ctx.quick and nm not in focus else [1, 1.5, 2, 3]
        for m in mults:
            cfg = {"population_size": int(P0 * m), "max_cycles": r.choice([1, 2, 3]) if m != 3 else 2, "fitness_error": None}
            if nm in focus:                         # perturb the algorithm's own fractional parameters too
                for k, v in search.fixture_scale(nm).items():
                    if isinstance(v, float) and 0 < v < 1: cfg[k] = round(min(0.95, max(0.05, v * r.uniform(0.5, 1.6))), 3)
            jobs.append({"opt": nm, "cfg": cfg, "task": search.cont_task(obj="sphere", seed=r.randint(0, 10**6))})
        if (not ctx.quick) or nm in focus or r.random() < 0.15:
            for mode, wk in (("thread", r.choice([1, 3, 8])), ("process", r.choice([2, 4]))):
                jobs.append({"opt": nm, "cfg": {"population_size": int(P0 * r.choice([1, 1.5])), "max_cycles": 2, "fitness_error": None}, "mode": mode, "workers": wk,
                             "task": search.cont_task(obj="sphere", seed=r.randint(0, 10**6))})
    # the size does not depend on the cost landscape: fully tied costs (constant objective), plateaus, and few distinct costs (a binary task) - ties at a trim cut-off
    for nm in search.all_names():
        P0 = search.fixture_scale(nm)["population_size"]
        jobs.append({"opt": nm, "cfg": {"population_size": P0, "max_cycles": 4, "fitness_error": None}, "task": search.cont_task(obj=r.choice(["const", "step"]), seed=r.randint(0, 10**6), dim=2)})
        jobs.append({"opt": nm, "cfg": {"population_size": P0, "max_cycles": 4, "fitness_error": None},
                     "task": {"vars": [("binary", 6)], "obj": "abs", "minmax": r.choice(["min", "max"]), "seed": r.randint(0, 10**6)}})
        # a search space with FEWER distinct positions than agents: the population necessarily holds duplicates (a merge / dedup by position must not shrink it)
        jobs.append({"opt": nm, "cfg": {"population_size": P0, "max_cycles": 4, "fitness_error": None},
                     "task": {"vars": r.choice([[("binary", 3)], [("discmulti", [2, 2])], [("binary", 2), ("disc", 2)]]), "obj": r.choice(["abs", "linear"]),
                              "minmax": r.choice(["min", "max"]), "seed": r.randint(0, 10**6)}})
    # HyperTuner style: an instance that already ran with ANOTHER population size is reconfigured and run again: every recorded generation has the NEW size
    for nm in (search.all_names() if not ctx.quick else sorted(by_design) + irregular + r.sample(regular_now, 10)):
        P0 = search.fixture_scale(nm)["population_size"]
        P1, P2 = r.choice([(P0, int(P0 * 1.5)), (2 * P0, P0), (int(P0 * 1.5), 2 * P0)])
        jobs.append({"opt": nm, "cfg": {"population_size": P2, "max_cycles": 2, "fitness_error": None}, "first_cfg": {"population_size": P1, "max_cycles": 2, "fitness_error": None},
                     "sequence": [{"task": search.cont_task(obj="sphere", seed=r.randint(0, 10**6))}], "task": search.cont_task(obj="sphere", seed=r.randint(0, 10**6))})
    from .. import edgesuite
    edgesuite.run(ctx, "size", info=info, focus=sorted(focus), by_design=by_design)
    obs = search.run_jobs(jobs)
    n_ok = 0
    invalid_cfg = 0
    for o in obs:
        if not o["ok"]:
            if o.get("error", {}).get("type") == "ValidationError": invalid_cfg += 1
            continue
        n_ok += 1
        for p in size_problems(o, by_design):
            ctx.violation(f"size:{o['job']['opt']}", f"{o['job']['opt']}: {p}", {"kind": "job", "job": o["job"]})
    ctx.add_cover(len(jobs), n_ok, "every optimizer at 1x and 1.5x (thorough: 2x, 3x) its fixture population size, 1-3 cycles, serial plus sampled thread/process runs; "
                  "optimizers whose size facts changed are searched at all sizes with perturbed fractional parameters; every generation's length compared with population_size",
                  [jobs[0], jobs[-1]])
    ctx.coverage["real_optimizer_runs"] = {"jobs": len(jobs), "completed": n_ok, "rejected_configs": invalid_cfg}


def replay(rep):
    from .. import search
    from ..expected import load_expectations
    print(json.dumps({k: v for k, v in rep.items() if k != "replay"}, indent=1)[:1000])
    m = rep["replay"]
    if m.get("kind") == "job":
        o = search.run_job(m["job"])
        probs = size_problems(o, set(load_expectations()["variable_by_design"])) if o["ok"] else [o.get("error")]
        print("problems:", probs)
        return 1 if probs else 0
    return 1
