"""C10 — population size conservation: regenerated size facts + real runs at 1x, 1.5x, 2x, 3x the documented
population size, all modes; irregular optimizers are pinned by the fingerprint of their population-affecting statements."""
from __future__ import annotations
import json


def size_problems(o, by_design):
    P = o["job"]["cfg"]["population_size"]
    sizes = [len(p) for p in o["evolution"]]
    nm = o["job"]["opt"]
    if any(s == 0 for s in sizes): return [f"an empty generation: sizes {sizes}"]
    if any(s > P for s in sizes): return [f"a generation larger than population_size={P}: sizes {sizes}"]
    if nm not in by_design and any(s != P for s in sizes): return [f"generation sizes {sizes} with population_size={P}"]
    return []


def run(ctx, info):
    from .. import search
    from ..expected import load_expectations
    ctx.trusted += ["T-algo's classification of population writes and the hypothesis step_conforms", "T-core translation of _generate_agents/_init_population; pool results as an arbitrary permutation"]
    ctx.assumptions += ["population_size >= 1", "irregular optimizers (no machine-checked size model): search only, pinned by source fingerprint"]
    e = load_expectations()
    st = info.get("regen", {})
    sks = st.get("_skeletons", {})
    by_design = set(e["variable_by_design"])
    regular_now = [n for n, s in sks.items() if s["size_regular"]]
    irregular = sorted(set(sks) - set(regular_now) - by_design)
    changed = [n for n in irregular if e.get("size_fingerprints", {}).get(n) not in (None, sks[n]["fingerprint"])]
    unpinned = [n for n in irregular if n not in e.get("size_fingerprints", {})]
    ctx.coverage["size_classes"] = {"regular": len(regular_now), "variable_by_design": sorted(by_design), "irregular": irregular,
                                    "dropped_from_regular": sorted(set(e["size_regular"]) - set(regular_now)), "fingerprint_changed": changed, "unpinned_irregular": unpinned}
    for n in changed + unpinned:
        ctx.broke(f"size-model:{n}", f"the population-affecting statements of {n} differ from the ones its size behaviour was reviewed against (fingerprint {sks[n]['fingerprint']})")
    ctx.ties = {"algos": st.get("algos"), "gen_generate_agents": st.get("gen_generate_agents"), "gen_init_population": st.get("gen_init_population")}
    r = ctx.rng
    jobs = []
    focus = set(changed + unpinned) | (set(e["size_regular"]) - set(regular_now))
    for nm in search.all_names():
        P0 = search.fixture_scale(nm)["population_size"]
        mults = [1, 1.5] if ctx.quick and nm not in focus else [1, 1.5, 2, 3]
        for m in mults:
            cfg = {"population_size": int(P0 * m), "max_cycles": r.choice([1, 2, 3]) if m != 3 else 2, "fitness_error": None}
            if nm in focus:                         # perturb the algorithm's own fractional parameters too
                for k, v in search.fixture_scale(nm).items():
                    if isinstance(v, float) and 0 < v < 1: cfg[k] = round(min(0.95, max(0.05, v * r.uniform(0.5, 1.6))), 3)
            jobs.append({"opt": nm, "cfg": cfg, "task": search.cont_task(obj="sphere", seed=r.randint(0, 10**6))})
        if (not ctx.quick) or nm in focus or r.random() < 0.15:
            for mode, wk in (("thread", r.choice([1, 3, 8])), ("process", r.choice([2, 4]))):
                jobs.append({"opt": nm, "cfg": {"population_size": int(P0 * r.choice([1, 1.5])), "max_cycles": 2, "fitness_error": None}, "mode": mode, "workers": wk,
                             "task": search.cont_task(obj="sphere", seed=r.randint(0, 10**6))})
    obs = search.run_jobs(jobs)
    n_ok = 0
    invalid_cfg = 0
    for o in obs:
        if not o["ok"]:
            if o.get("error", {}).get("type") == "ValidationError": invalid_cfg += 1
            continue
        n_ok += 1
        for p in size_problems(o, by_design):
            ctx.violation(f"size:{o['job']['opt']}", f"{o['job']['opt']}: {p}", {"kind": "job", "job": o["job"]})
    ctx.add_cover(len(jobs), n_ok, "every optimizer at 1x and 1.5x (thorough: 2x, 3x) its fixture population size, 1-3 cycles, serial plus sampled thread/process runs; "
                  "optimizers whose size facts changed are searched at all sizes with perturbed fractional parameters; every generation's length compared with population_size",
                  [jobs[0], jobs[-1]])
    ctx.coverage["real_optimizer_runs"] = {"jobs": len(jobs), "completed": n_ok, "rejected_configs": invalid_cfg}


def replay(rep):
    from .. import search
    from ..expected import load_expectations
    print(json.dumps({k: v for k, v in rep.items() if k != "replay"}, indent=1)[:1000])
    m = rep["replay"]
    if m.get("kind") == "job":
        o = search.run_job(m["job"])
        probs = size_problems(o, set(load_expectations()["variable_by_design"])) if o["ok"] else [o.get("error")]
        print("problems:", probs)
        return 1 if probs else 0
    return 1
