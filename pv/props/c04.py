"""C04 — stop rule.  Scripted-optimizer correspondence of the regenerated schema / stop rule with the real
optimize(), independent oracle on the real results, and an observational pass over the real optimizers."""
from __future__ import annotations
import json
import math

import numpy as np

from .. import scripted


def stop_problems(o) -> list:
    """the result of one real run against the rule, decided from the result alone: cycles <= max_cycles, one generation and one rate per cycle, each rate
    |1 - mean fitness| of its generation, and the run ended at the FIRST cycle at which a configured criterion held (budget, fitness_error, early stopping)"""
    j = o["job"]; mc = j["cfg"]["max_cycles"]; fe = j["cfg"].get("fitness_error"); es = j["cfg"].get("early_stopping")
    K = len(o["rates"])
    probs = []
    if not (1 <= K <= mc): probs.append(f"{K} cycles with max_cycles={mc}")
    if len(o["evolution"]) != K + 1: probs.append(f"{len(o['evolution'])} generations for {K} rates")
    for k in range(1, min(K, len(o["evolution"]) - 1) + 1):
        fits = [a[2] for a in o["evolution"][k]]
        want = abs(1 - float(np.average(fits)))
        if o["rates"][k - 1] != want and not (math.isnan(want) and math.isnan(o["rates"][k - 1])):
            probs.append(f"rate {k} = {o['rates'][k-1]!r} but |1 - mean fitness| = {want!r}")
    diffs = [o["rates"][k] - (o["rates"][k - 1] if k else 0) for k in range(K)]
    def early(k):          # after cycle k (1-based): the last `patience` changes are all decreases smaller than min_delta
        if not es: return False
        pat = es.get("patience", 1) or 1; md = es.get("min_delta", 1e-4)
        if md is None: md = 1e-4
        return all(d < 0 and abs(d) < md for d in diffs[:k][-pat:])
    crit = [(k >= mc) or (fe is not None and o["rates"][k - 1] <= fe) or early(k) for k in range(1, K + 1)]
    if K and (not crit[-1] or any(crit[:-1])):
        probs.append(f"stop rule: criteria per cycle {crit} (rates {o['rates'][:8]})")
    return probs


def real_optimizer_pass(ctx, n_opt: int):
    """observationally: for real optimizers the result has the right shape and rates, and stops by the rule"""
    from .. import search
    r = ctx.rng
    names = search.all_names()
    r.shuffle(names)
    jobs = []
    for nm in names[:n_opt]:
        mc = r.choice([1, 2, 5, 10])
        fe = r.choice([None, 0.01, 0.5, 0.9])
        jobs.append({"opt": nm, "cfg": {"max_cycles": mc, "fitness_error": fe}, "task": search.cont_task(obj=r.choice(["sphere", "rastrigin", "step"]), seed=r.randint(0, 10**6))})
        # the same rule on a REUSED instance (the per-run bookkeeping is reset by optimize() itself, whatever hooks the optimizer overrides)
        jobs.append({"opt": nm, "cfg": {"max_cycles": mc, "fitness_error": None}, "sequence": [{"task": search.cont_task(obj="rastrigin", seed=r.randint(0, 10**6))}],
                     "task": search.cont_task(obj="sphere", seed=r.randint(0, 10**6))})
    # an earlier call on the instance that was ABORTED by the objective part-way through a cycle: the next run's bookkeeping starts from scratch all the same
    for nm in names[:max(6, n_opt // 3)]:
        P0 = search.fixture_scale(nm)["population_size"]
        ab = dict(search.cont_task(obj="sphere", seed=r.randint(0, 99)), raise_at=P0 + r.randint(2, 3 * P0))
        jobs.append({"opt": nm, "cfg": {"max_cycles": r.choice([3, 6]), "fitness_error": None, "early_stopping": r.choice([None, {"patience": 2, "min_delta": 0.05}])},
                     "sequence": [{"task": ab}], "task": search.cont_task(obj="sphere", seed=r.randint(0, 10**6))})
    obs = search.run_jobs(jobs)
    n_ok = 0
    for o in obs:
        if not o["ok"]:
            continue                       # a crash is C06's business
        n_ok += 1
        j = o["job"]
        for p in stop_problems(o):
            ctx.violation(f"real-optimizer:{p.split('=')[0][:40]}", f"{j['opt']}: {p}", {"kind": "job", "job": j})
    return len(jobs), n_ok


def run(ctx, info):
    ctx.trusted += ["T-core translation of __error_check__/__should_stop__ and the schema extractor pv/tschema.py",
                    "PrimFloat literals (float.hex) and primitive float evaluation by vm_compute", "np.average as an oracle value per generation",
                    "harness.Scripted (installs scripted populations; does not touch the loop)"]
    ctx.assumptions += ["max_cycles >= 1; every generation reached is non-empty (else the code raises ValueError: C06/C10)",
                        "fresh or reused instance alike (the schema resets the per-run bookkeeping)"]
    st = info.get("regen", {})
    ctx.ties = {k: st.get(k) for k in ("gen_should_stop", "gen_error_check", "gen_optimize_schema")}
    n_hist = 450 if ctx.quick else 12000
    n_reuse = 60 if ctx.quick else 1500
    items, metas, res, kinds = scripted.correspondence(ctx, n_hist, n_reuse, [("stop-rule", scripted.oracle_c04)])
    scripted.long_runs(ctx, [("stop-rule", scripted.oracle_c04)])
    distinct = len({json.dumps(m, sort_keys=True) for m in metas})
    ctx.add_cover(len(items), distinct,
                  "scripted population histories (1-12 cycles, 1-6 agents, rate patterns slow/plateau/noisy/up/hit, fitness_error and min_delta "
                  "placed within 1 ulp of realised rates/changes, patience 1-4, empty-generation malformed stream) through the real optimize(), "
                  "compared bit-for-bit with the model run in Coq; second runs on used instances; distinct = distinct histories",
                  [metas[0], metas[-1]])
    ctx.coverage["input_distribution"] = {"histories": n_hist, "reuse_pairs": n_reuse, "stopped_by": kinds}
    for e in res["errors"]:
        ctx.broke("correspondence:C04 case evaluation", e)
    for i in res["bad"][:5]:
        ctx.broke(f"correspondence:Loop.run vs real optimize() on {json.dumps(metas[i])[:500]}", "model and implementation differ")
    ctx.coverage["correspondence"] = {"cases": res["n"], "disagreements": len(res["bad"]), "files": res["files"]}
    n_jobs, n_ok = real_optimizer_pass(ctx, 28 if ctx.quick else 84)
    from .. import edgesuite
    edgesuite.run(ctx, "stop", info=info)
    ctx.coverage["real_optimizer_runs"] = {"jobs": n_jobs, "completed": n_ok}
    ctx.coverage["evaluations"] += n_jobs


def replay(rep):
    print(json.dumps({k: v for k, v in rep.items() if k != "replay"}, indent=1))
    m = rep["replay"]
    if m.get("kind") == "long-history":
        return scripted.replay_long(m, [("stop-rule", scripted.oracle_c04), ("best", scripted.oracle_c03)])
    if m.get("kind") == "history":
        h = scripted.meta_hist(m["history"])
        _, obs = scripted.run_real(h)
        print("observed:", obs)
        probs = scripted.oracle_c04(h, obs) + scripted.oracle_c03(h, obs)
        print("problems:", probs)
        return 1 if probs else 0
    if m.get("kind") == "job":
        from .. import search
        print(search.run_job(m["job"]))
    return 1
