"""C13 — variable domain laws: correspondence of Vars.v with the real variable classes, and a direct
decision of each law on the real outputs."""
from __future__ import annotations
import json
import math

import numpy as np

from .. import coq
from ..lit import xlit, natlist, coqlist, xkey

PREAMBLE = r"""
From PV Require Import Xnum Select PyLib Argsort Vars.
Definition x_eqb (a b : xnum) : bool := match a, b with XNaN, XNaN => true | _, _ => xeqb a b end.
Fixpoint xl_eqb (a b : list xnum) : bool :=
  match a, b with [] , [] => true | x :: t, y :: u => x_eqb x y && xl_eqb t u | _, _ => false end.
Definition coord_eqb (a b : coord) : bool :=
  match a, b with CNum x, CNum y => x_eqb x y | CVec u, CVec v => xl_eqb u v | _, _ => false end.
Fixpoint cl_eqb (a b : list coord) : bool :=
  match a, b with [] , [] => true | x :: t, y :: u => coord_eqb x y && cl_eqb t u | _, _ => false end.
Definition ocl_eqb (a b : option (list coord)) : bool :=
  match a, b with None, None => true | Some x, Some y => cl_eqb x y | _, _ => false end.
Fixpoint nl_eqb (a b : list nat) : bool :=
  match a, b with [] , [] => true | x :: t, y :: u => Nat.eqb x y && nl_eqb t u | _, _ => false end.
Fixpoint dval_eqb (a b : dval) : bool :=
  match a, b with
  | DNum x, DNum y => x_eqb x y
  | DChoice i, DChoice j => Z.eqb i j
  | DItems l, DItems m => nl_eqb l m
  | DList l, DList m => (fix go (l m : list dval) := match l, m with [], [] => true | x :: t, y :: u => dval_eqb x y && go t u | _, _ => false end) l m
  | _, _ => false
  end.
Definition odval_eqb (a b : option dval) : bool :=
  match a, b with None, None => true | Some x, Some y => dval_eqb x y | _, _ => false end.
Definition correct_with_pi (v : var) (pi : list nat) (cs : list coord) : option (list coord) :=
  match v, cs with
  | VPerm n, [CVec u] => if is_argsortb u pi then Some [CVec (nats_x (correct_perm_of pi))] else None
  | _, _ => correct_var v cs
  end.
Definition member (v : var) (cs : list coord) : bool :=
  Nat.eqb (length cs) (length (children v)) && forallb (fun p => in_domb (fst p) (snd p)) (zip (children v) cs).
Inductive case :=
| KCorrect (v : var) (pi : list nat) (cs : list coord) (expected : option (list coord))
| KDecode (v : var) (cs : list coord) (expected : option dval)
| KValid (v : var) (accepted : bool)
| KMember (v : var) (cs : list coord) (expected : bool).
Definition check (c : case) : bool :=
  match c with
  | KCorrect v pi cs e => ocl_eqb (correct_with_pi v pi cs) e
  | KDecode v cs e => odval_eqb (decode_var v cs) e
  | KValid v a => Bool.eqb (valid_varb v) a
  | KMember v cs e => Bool.eqb (member v cs) e
  end.
"""

SPECIAL = [0.0, -0.0, 5e-324, -5e-324, 1.7976931348623157e308, -1.7976931348623157e308, float("inf"), float("-inf"),
           1e-300, -1e-300, 0.5, -0.5, 1.0, -1.0]


def rfloat(r):
    k = r.random()
    if k < 0.15: return r.choice(SPECIAL)
    if k < 0.3: return float(r.randint(-6, 6))
    if k < 0.7: return r.uniform(-10, 10)
    return math.ldexp(r.uniform(-1, 1), r.randint(-60, 60))


def rbounds(r):
    while True:
        a, b = rfloat(r), rfloat(r)
        if math.isinf(a) or math.isinf(b): continue
        lo, hi = min(a, b), max(a, b)
        if lo < hi: return lo, hi


def coord_lit(c):
    if isinstance(c, (list, tuple, np.ndarray)):
        return "(CVec " + coqlist([xlit(x) for x in c]) + ")"
    return f"(CNum {xlit(c)})"


def var_lit(kind, spec):
    if kind == "cont": return f"(VCont {xlit(spec[0])} {xlit(spec[1])})"
    if kind in ("contmulti", "multiobj"):
        c = "VContMulti" if kind == "contmulti" else "VMultiObj"
        return f"({c} {coqlist([xlit(x) for x in spec[0]])} {coqlist([xlit(x) for x in spec[1]])})"
    if kind == "disc": return f"(VDisc {spec}%nat)"
    if kind == "discmulti": return f"(VDiscMulti {natlist(spec)})"
    if kind == "binary": return f"(VBinary ({spec})%Z)"
    if kind == "perm": return f"(VPerm {spec}%nat)"
    raise ValueError(kind)


class Ch:
    """a declared choice with identity"""
    def __init__(self, i): self.i = i
    def __repr__(self): return f"ch{self.i}"


def build(kind, spec):
    from pyvolutionary import (ContinuousVariable, ContinuousMultiVariable, MultiObjectiveVariable, DiscreteVariable,
                               DiscreteMultiVariable, BinaryVariable, PermutationVariable)
    if kind == "cont": return ContinuousVariable(name="v", lower_bound=spec[0], upper_bound=spec[1])
    if kind == "contmulti": return ContinuousMultiVariable(name="v", lower_bounds=list(spec[0]), upper_bounds=list(spec[1]))
    if kind == "multiobj": return MultiObjectiveVariable(name="v", lower_bounds=list(spec[0]), upper_bounds=list(spec[1]))
    if kind == "disc": return DiscreteVariable(name="v", choices=[Ch(i) for i in range(spec)])
    if kind == "discmulti": return DiscreteMultiVariable(name="v", choices=[[Ch(i) for i in range(n)] for n in spec])
    if kind == "binary": return BinaryVariable(name="v", n_vars=spec)
    if kind == "perm": return PermutationVariable(name="v", items=spec_items(spec))
    raise ValueError(kind)


def spec_items(n):
    base = ["b", "a", 3, "c", 1.5, "zz", 7, "d", 0.25, "e", 11, "f"]
    return base[:n]


def child_kinds(kind, spec):
    if kind == "cont": return [("cont", spec)]
    if kind in ("contmulti", "multiobj"): return [("cont", (a, b)) for a, b in zip(*spec)]
    if kind == "disc": return [("disc", spec)]
    if kind == "discmulti": return [("disc", n) for n in spec]
    if kind == "binary": return [("disc", 2)] * spec
    if kind == "perm": return [("perm", spec)]


def is_member(ck, cspec, c):
    """membership written from the property text (C01/C13)"""
    if ck == "cont":
        return isinstance(c, (int, float, np.floating, np.integer)) and not isinstance(c, bool) and math.isfinite(c) and cspec[0] <= c <= cspec[1]
    if ck == "disc":
        return isinstance(c, (int, float, np.floating, np.integer)) and math.isfinite(c) and float(c) == int(c) and 0 <= int(c) < cspec
    if ck == "perm":
        try:
            return sorted(int(x) for x in c) == list(range(cspec)) and all(float(x) == int(x) for x in c)
        except Exception:
            return False


def rvalue(r, ck, cspec, malformed):
    """one candidate value for a child of kind ck"""
    if ck == "cont":
        lo, hi = cspec
        opts = [lo, hi, np.nextafter(lo, -np.inf), np.nextafter(hi, np.inf), np.nextafter(lo, np.inf), np.nextafter(hi, -np.inf),
                lo + (hi - lo) * r.random() if math.isfinite(hi - lo) else lo, rfloat(r), rfloat(r), float("inf"), float("-inf"),
                np.float64(rfloat(r)), np.int64(r.randint(-5, 5)), r.randint(-10, 10), bool(r.getrandbits(1)), np.float32(r.uniform(-3, 3))]
        if malformed: opts += [float("nan")] * 6
        return r.choice(opts)
    if ck == "disc":
        n = cspec
        opts = [r.randint(0, max(n - 1, 0)), r.randint(-4, n + 4), float(r.randint(0, max(n - 1, 0))), r.uniform(-1, n + 1), n - 1 + 0.999,
                n - 1e-9, -1e-9, -0.999, float("inf"), float("-inf"), 1e300, -1e300, np.int64(r.randint(0, n)), np.float64(r.uniform(0, n)),
                bool(r.getrandbits(1)), 0.5, n - 0.5,
                # reduced-precision numpy scalars at and beyond the last index (a bound that is not an integer rounds to n in float32 / float16)
                np.float32(n), np.float32(n + 0.25), np.float32(n - 1), np.float16(n), np.float32("inf"), np.float32(r.uniform(-1, n + 1)), np.float16(r.randint(0, max(n - 1, 0)))]
        if malformed: opts += [float("nan")] * 6
        return r.choice(opts)
    if ck == "perm":
        n = cspec
        k = r.random()
        if k < 0.3: p = list(range(n)); r.shuffle(p); return p                                   # a member
        if k < 0.5: return [float(r.randint(0, 2)) for _ in range(n)]                            # ties
        if k < 0.7: return [r.uniform(-1, 1) for _ in range(n)]                                  # random keys
        if k < 0.8: return [float(n - i) for i in range(n)]                                      # reversed
        if k < 0.9: return [r.choice([float("inf"), float("-inf"), 0.0, -0.0, 1.0]) for _ in range(n)]
        return list(np.array([r.uniform(-5, 5) for _ in range(n)]))


def norm(x):
    """python result -> nested plain python numbers"""
    if isinstance(x, np.ndarray): x = x.tolist()
    if isinstance(x, (list, tuple)): return [norm(y) for y in x]
    return x


def same(a, b):
    if isinstance(a, list) or isinstance(b, list):
        return isinstance(a, list) and isinstance(b, list) and len(a) == len(b) and all(same(x, y) for x, y in zip(a, b))
    return xkey(a) == xkey(b)


def dval_lit(var, kind, spec, dec):
    """decoded python value -> dval literal, resolving choices by identity and items by the encoder's order"""
    def one(ck, cspec, d, chlist):
        if ck == "cont": return f"(DNum {xlit(d)})"
        if ck == "disc":
            idx = [i for i, c in enumerate(chlist) if c is d]
            return f"(DChoice ({idx[0]})%Z)" if idx else "(DChoice (-99)%Z)"
        if ck == "perm":
            labels = var._label_encoder.__unique_labels__
            return "(DItems " + natlist([labels.index(it) if it in labels else 999 for it in d]) + ")"
    kids = child_kinds(kind, spec)
    if kind in ("cont", "disc", "perm"):
        chl = var.choices if kind == "disc" else None
        return one(kids[0][0], kids[0][1], dec, chl)
    parts = []
    for i, ((ck, cs), d) in enumerate(zip(kids, dec)):
        chl = None
        if kind == "discmulti": chl = var.choices[i]
        if kind == "binary": chl = var._children[i].choices
        parts.append(one(ck, cs, d, chl))
    return "(DList " + coqlist(parts) + ")"


def gen_var(r, allow_big=True):
    kind = r.choice(["cont", "contmulti", "multiobj", "disc", "discmulti", "binary", "perm", "cont", "disc", "perm"])
    if kind == "cont": spec = rbounds(r)
    elif kind in ("contmulti", "multiobj"):
        n = r.randint(1, 4); bs = [rbounds(r) for _ in range(n)]; spec = ([b[0] for b in bs], [b[1] for b in bs])
    elif kind == "disc": spec = r.randint(1, 6)
    elif kind == "discmulti": spec = [r.randint(1, 5) for _ in range(r.randint(1, 4))]
    elif kind == "binary": spec = r.randint(1, 5)
    else: spec = r.randint(1, 9)
    return kind, spec


def one_case(ctx, r, kind, spec, malformed, items, metas, stats):
    from ..harness import exc_class
    var = build(kind, spec)
    kids = child_kinds(kind, spec)
    vals = [rvalue(r, ck, cs, malformed) for ck, cs in kids]
    if malformed and r.random() < 0.3 and len(vals) > 1: vals = vals[:-1]                      # short value
    scalar = kind in ("cont", "disc", "perm")
    if r.random() < 0.1 and not scalar: vals = vals + [0.0]                                     # extra entry (ignored)
    arg = vals[0] if scalar else vals
    meta = {"kind": kind, "spec": spec, "value": repr(arg), "malformed": malformed}
    pi = []
    if kind == "perm":
        try: pi = [int(i) for i in np.argsort(arg).tolist()]
        except Exception: pi = []
    try:
        out = norm(var.correct(arg)); err = None
    except Exception as e:
        out, err = None, exc_class(e)
    exp = "None" if err else "(Some " + coqlist([coord_lit(c) for c in ([out] if scalar else out)]) + ")"
    items.append(f"KCorrect {var_lit(kind, spec)} {natlist(pi)} {coqlist([coord_lit(c) for c in vals])} {exp}")
    metas.append(meta)
    stats["errors" if err else "ok"] = stats.get("errors" if err else "ok", 0) + 1
    if malformed or err or len(vals) != len(kids):
        return
    # ---- the laws, decided directly on the real outputs
    outs = [out] if scalar else out
    key = f"{kind}"
    for (ck, cs), v, o in zip(kids, vals, outs):
        if not is_member(ck, cs, o):
            ctx.violation(f"correct-not-in-domain:{ck}", f"{kind}.correct({arg!r}) = {out!r} is outside the domain", meta)
        if is_member(ck, cs, v) and not same(norm(v), o):
            ctx.violation(f"correct-changes-member:{ck}", f"{kind}.correct({arg!r}) = {out!r} changes a member of the domain", meta)
    try:
        again = norm(var.correct(out))
        if not same(again, out):
            ctx.violation(f"correct-not-idempotent:{kind}", f"{kind}: correct(correct({arg!r})) = {again!r} != {out!r}", meta)
    except Exception as e:
        ctx.violation(f"correct-not-idempotent:{kind}", f"{kind}: correct(correct({arg!r})) raises {type(e).__name__}", meta)
    # decode of the corrected value
    try:
        dec = var.decode(out); derr = None
    except Exception as e:
        dec, derr = None, exc_class(e)
    if derr:
        ctx.violation(f"decode-raises:{kind}", f"{kind}.decode({out!r}) raises {derr}", meta)
        dl = "None"
    else:
        dl = "(Some " + dval_lit(var, kind, spec, dec) + ")"
        decs = [dec] if scalar else dec
        for i, ((ck, cs), o, d) in enumerate(zip(kids, outs, decs)):
            if ck == "disc":
                chl = var.choices if kind == "disc" else (var.choices[i] if kind == "discmulti" else var._children[i].choices)
                if not any(d is c for c in chl) or chl[int(o)] is not d:
                    ctx.violation(f"decode-not-declared:{kind}", f"{kind}.decode({out!r}) = {dec!r} is not the declared choice", meta)
            if ck == "perm":
                its = spec_items(cs)
                if sorted(map(repr, d)) != sorted(map(repr, its)):
                    ctx.violation("decode-not-rearrangement:perm", f"perm.decode({out!r}) = {dec!r} is not a rearrangement of {its!r}", meta)
                ident = var.decode(list(range(cs)))
                if [repr(x) for x in d] != [repr(ident[j]) for j in o]:
                    ctx.violation("decode-inconsistent:perm", f"perm.decode({out!r}) = {dec!r} is inconsistent with the corrected index order", meta)
    items.append(f"KDecode {var_lit(kind, spec)} {coqlist([coord_lit(c) for c in outs])} {dl}")
    metas.append({**meta, "decode_of": repr(out)})


def run(ctx, info):
    ctx.trusted += ["T-core translator + PyLib.v (np.clip -> xclip, int() -> xtrunc, np.argsort -> any valid argsort / argsort_nat)",
                    "xnum embedding (pv/lit.py)", "hand model of random sampling (tied by correspondence only); the multi-variable classes are regenerated and bridged (MultiVarBridge.v), child names abstracted away"]
    ctx.assumptions += ["inputs to correct are not NaN (the property says finite); bounds are finite; choice lists are non-empty; labels are compared modulo Python's == (True is 1)"]
    st = info.get("regen", {})
    ctx.ties = {k: st.get(k) for k in ("gen_cont_correct", "gen_cont_validate", "gen_disc_get_bounds", "gen_disc_correct", "gen_disc_decode",
                                        "gen_perm_correct", "gen_perm_labels", "gen_perm_decode", "gen_binary_validate",
                                        "gen_le_fit_labels", "gen_le_fit_index", "gen_le_transform", "gen_le_inverse_transform")}
    ctx.ties.update({k: st.get(k) for k in sorted(st) if k.startswith(("gen_cmv_", "gen_mov_", "gen_dmv_", "gen_bin_")) and not k.endswith("_mutates_param")})
    ctx.ties.update({"randomize (all kinds)": "correspondence", "dispatch class -> model constructor": "correspondence"})
    r = ctx.rng
    items, metas, stats = [], [], {}
    n_main = 1500 if ctx.quick else 40000
    n_mal = 300 if ctx.quick else 6000
    kinds_seen = {}
    for k in range(n_main + n_mal):
        kind, spec = gen_var(r)
        kinds_seen[kind] = kinds_seen.get(kind, 0) + 1
        one_case(ctx, r, kind, spec, k >= n_main, items, metas, stats)
    # ---- the domain laws at LARGE sizes (decided on the real classes only: a unary literal of that size is no Coq case).  The spacing of doubles exceeds any fixed
    #      epsilon from some size on (n - 1e-12 == n from n = 16385), so "clip to n - eps, then truncate" leaves the domain only there
    from pyvolutionary import DiscreteVariable, PermutationVariable, BinaryVariable
    n_big = 0
    for n in ([2 ** 13 + 1, 2 ** 14, 2 ** 14 + 1, 20000, 2 ** 17 + 3] if ctx.quick else [2 ** 13 + 1, 2 ** 14, 2 ** 14 + 1, 2 ** 15 + 1, 20000, 2 ** 17 + 3, 2 ** 20 + 1, 3 * 10 ** 6]):
        var = DiscreteVariable(name="v", choices=list(range(n)))
        for v in [0, 0.5, -0.5, -1, -1e300, n - 2, n - 1, n - 1 + 1e-12, n - 0.5, float(np.nextafter(n, 0)), n, n + 0.5, n + 1, 2.0 * n, 1e9, 1e300,
                  np.float32(n), np.float64(n), np.int64(n), np.int64(n - 1)]:
            n_big += 1
            meta = {"kind": "disc", "spec": n, "value": repr(v)}
            try:
                o = var.correct(v)
            except Exception as e:
                ctx.violation("correct-raises:disc", f"disc({n} choices).correct({v!r}) raises {type(e).__name__}", meta); continue
            if not is_member("disc", n, norm(o)):
                ctx.violation("correct-not-in-domain:disc", f"disc({n} choices).correct({v!r}) = {o!r} is outside the domain 0..{n - 1}", meta); continue
            if is_member("disc", n, norm(v)) and int(o) != int(v):
                ctx.violation("correct-changes-member:disc", f"disc({n} choices).correct({v!r}) = {o!r} changes a member of the domain", meta)
            try:
                d = var.decode(o)
                if d != int(o): ctx.violation("decode-not-declared:disc", f"disc({n} choices).decode({o!r}) = {d!r} is not the declared choice", meta)
            except Exception as e:
                ctx.violation("decode-raises:disc", f"disc({n} choices).decode({o!r}) raises {type(e).__name__}", meta)
        lo_, hi_ = var.get_bounds()
        if (lo_, hi_) != (0, n - 1) or var.correct(hi_) != n - 1 or var.correct(lo_) != 0:
            ctx.violation("bounds-not-members:disc", f"disc({n} choices).get_bounds() = {(lo_, hi_)!r}: the bounds are not the first and last index", {"kind": "disc", "spec": n})
    for n in ([300, 2 ** 14 + 1] if ctx.quick else [300, 2 ** 14 + 1, 2 ** 17 + 3]):
        var = PermutationVariable(name="v", items=list(range(n)))
        rs = np.random.RandomState(n)
        for v in (rs.uniform(-5.0, n + 5.0, n), np.full(n, float(n)), np.arange(n)[::-1].astype(float), rs.randint(0, 3, n).astype(float) * 1e9):
            n_big += 1
            meta = {"kind": "perm", "spec": n, "value": f"array of {n} (first {v[:4].tolist()!r})"}
            try:
                o = [int(x) for x in var.correct(v.tolist())]
            except Exception as e:
                ctx.violation("correct-raises:perm", f"perm({n} items).correct raises {type(e).__name__}", meta); continue
            if sorted(o) != list(range(n)):
                ctx.violation("correct-not-in-domain:perm", f"perm({n} items).correct(...) is not a permutation of the indexes", meta); continue
            d = var.decode(o)
            if list(d) != o: ctx.violation("decode-inconsistent:perm", f"perm({n} items).decode(correct(...)) is not the items in that order", meta)
    ctx.add_cover(n_big, n_big, "domain laws at large sizes on the real classes (discrete variables with 8193 .. 3e6 choices at and around both ends of the index range; permutations "
                  "of up to 131075 items): where an epsilon below the spacing of doubles would be absorbed", [{"sizes": "2^13+1, 2^14, 2^14+1, 20000, 2^17+3 ..."}])
    # ---- random sampling yields members
    n_rand = 300 if ctx.quick else 5000
    for _ in range(n_rand):
        kind, spec = gen_var(r)
        var = build(kind, spec)
        try:
            s = norm(var.randomize())
        except OverflowError:
            continue      # numpy refuses ranges whose width overflows: no sample is produced
        kids = child_kinds(kind, spec)
        vals = [s] if kind in ("cont", "disc", "perm") else s
        ok = len(vals) == len(kids) and all(is_member(ck, cs, v) for (ck, cs), v in zip(kids, vals))
        meta = {"kind": kind, "spec": spec, "sample": repr(s)}
        if not ok:
            ctx.violation(f"randomize-not-in-domain:{kind}", f"{kind}.randomize() = {s!r} is outside the domain", meta)
        items.append(f"KMember {var_lit(kind, spec)} {coqlist([coord_lit(c) for c in vals])} true")
        metas.append(meta)
    # ---- definitions: accepted / rejected at construction
    from pydantic import ValidationError
    n_def = 300 if ctx.quick else 3000
    rejected = 0
    for _ in range(n_def):
        kind = r.choice(["cont", "contmulti", "multiobj", "binary"])
        if kind == "cont":
            a, b = rfloat(r), rfloat(r)
            if math.isinf(a) or math.isinf(b): continue
            if r.random() < 0.3: b = a
            spec = (a, b); should_reject = b <= a
        elif kind in ("contmulti", "multiobj"):
            n = r.randint(0, 4); los = [rfloat(r) for _ in range(n)]; his = [x + r.choice([1.0, 2.5, 0.0, -1.0, 1e-300]) if r.random() < 0.6 else rfloat(r) for x in los]
            if any(math.isinf(x) or math.isnan(x) for x in los + his): continue
            if r.random() < 0.25: his = his + [1.0]
            if r.random() < 0.1: los = los + [0.0, 0.0]
            spec = (los, his); should_reject = len(los) != len(his) or any(h <= l for l, h in zip(los, his))
        else:
            spec = r.randint(-3, 4); should_reject = spec <= 0
        try:
            build(kind, spec); accepted = True
        except (ValidationError, ValueError):
            accepted = False
        rejected += (not accepted)
        meta = {"kind": kind, "spec": spec, "accepted": accepted}
        if accepted == should_reject:
            ctx.violation(f"validator:{kind}", f"{kind} definition {spec!r}: accepted={accepted} but should_reject={should_reject}", meta)
        items.append(f"KValid {var_lit(kind, spec)} {'true' if accepted else 'false'}")
        metas.append(meta)
    res = coq.run_cases("C13", PREAMBLE, items, "check", shard=350)
    distinct = len({json.dumps(m, default=str, sort_keys=True) for m in metas})
    ctx.add_cover(len(items), distinct,
                  "random variable definitions of the seven kinds (bounds at several scales, 1-6 choices, 1-9 items, sizes 1-5) x candidate values "
                  "(in range, out of range, boundary, +-1ulp, huge, +-inf, fractional, numpy scalars, bools, ties/reversed keys for permutations); "
                  "a separate malformed stream (NaN, short values); random samples; valid and invalid definitions. distinct = distinct (definition, value) pairs",
                  [metas[0], metas[len(metas) // 2], metas[-1]])
    ctx.coverage["input_distribution"] = {"kinds": kinds_seen, "correct_outcomes": stats, "malformed": n_mal, "random_samples": n_rand,
                                          "definitions": n_def, "definitions_rejected": rejected}
    label_cases(ctx)
    for e in res["errors"]:
        ctx.broke("correspondence:C13 case evaluation", e)
    for i in res["bad"][:5]:
        ctx.broke(f"correspondence:Vars.v vs models.py on {json.dumps(metas[i], default=str)[:300]}", "model and implementation differ")
    ctx.coverage["correspondence"] = {"cases": res["n"], "disagreements": len(res["bad"]), "files": res["files"]}


LABEL_PREAMBLE = r"""
From PV Require Import Xnum Select PyLib Labels.
From PVGen Require Import GenVars GenLabels.
From PVBridge Require Import LabelsBridge.
Fixpoint nl_eqb (a b : list nat) : bool :=
  match a, b with [] , [] => true | x :: t, y :: u => Nat.eqb x y && nl_eqb t u | _, _ => false end.
Definition onl_eqb (a b : option (list nat)) : bool :=
  match a, b with None, None => true | Some x, Some y => nl_eqb x y | _, _ => false end.
Definition U := 99.
Inductive case :=
| KFit (items labels : list nat)                                              (* the encoder's label list after PermutationVariable(items=...) *)
| KLabels (items : list nat) (labels : option (list nat))                      (* the variable's per-item label table *)
| KDecode (items corrected : list nat) (out : option (list nat))               (* decode of a value whose corrected form is `corrected` *)
| KInverse (items y : list nat) (out : option (list nat))                      (* encoder.inverse_transform(y) *)
| KTransform (items y : list nat) (out : option (list nat)).                   (* encoder.transform(y); None = KeyError *)
Definition enc_labels items := gen_le_fit_labels nat Nat.eqb Nat.leb items.
Definition enc_index items := gen_le_fit_index nat Nat.eqb items (enc_labels items).
Definition check (c : case) : bool :=
  match c with
  | KFit items labels => nl_eqb (enc_labels items) labels
  | KLabels items labels => onl_eqb (gen_perm_labels nat (fitted_transform nat Nat.eqb Nat.leb items) items) labels
  | KDecode items corrected out =>
      onl_eqb (obind (gen_perm_labels nat (fitted_transform nat Nat.eqb Nat.leb items) items) (fun labels => decode_labels nat labels corrected)) out
      && onl_eqb (perm_decode_items nat Nat.eqb Nat.leb items corrected) out
  | KInverse items y out => onl_eqb (gen_le_inverse_transform nat U (Some (enc_labels items)) (enc_index items) y) out
  | KTransform items y out => onl_eqb (gen_le_transform nat Nat.eqb (Some (enc_labels items)) (enc_index items) y) out
  end.
"""

# labels with a KNOWN place in the order of the sort key (isinstance(x, (int, float)), x): strings first (alphabetically), then numbers by value; True == 1
LABEL_CODES = [("a", 0), ("b", 1), ("c", 2), ("d", 3), ("e", 4), (-2, 10), (-1.5, 11), (0, 12), (0.5, 13), (1, 14), (True, 14), (1.0, 14), (2, 15), (3.5, 16)]


def label_code(x):
    if isinstance(x, str): return 99 if x == "unknown" else {"a": 0, "b": 1, "c": 2, "d": 3, "e": 4}[x]
    return {-2: 10, -1.5: 11, 0: 12, 0.5: 13, 1: 14, 2: 15, 3.5: 16}[x]


def label_cases(ctx):
    """PermutationVariable over item lists WITH REPEATED ITEMS and mixed label types: the decoded value is a rearrangement of the declared items, consistently with the
    corrected index order (decided directly), and the LabelEncoder / label table / decode agree with the regenerated definitions evaluated in Coq"""
    from pyvolutionary.models import PermutationVariable
    r = ctx.rng
    items_l, metas, alive = [], [], []
    n = 250 if ctx.quick else 5000
    opt = lambda l: "None" if l is None else f"(Some {natlist(l)})"
    shapes = {"distinct": 0, "repeated": 0, "mixed-types": 0}
    for k in range(n):
        m = r.randint(1, 7)
        pool = LABEL_CODES if r.random() < 0.5 else (LABEL_CODES[:5] if r.random() < 0.5 else LABEL_CODES[5:])
        if r.random() < 0.45:
            its = [x for x, _ in r.sample(pool, min(m, len(pool)))]
            seen, its2 = set(), []
            for x in its:
                if label_code(x) not in seen: seen.add(label_code(x)); its2.append(x)
            its = its2
        else:
            its = [r.choice(pool)[0] for _ in range(m)]
        codes = [label_code(x) for x in its]
        shapes["repeated" if len(set(codes)) < len(codes) else "distinct"] += 1
        if any(isinstance(x, str) for x in its) and any(not isinstance(x, str) for x in its): shapes["mixed-types"] += 1
        meta = {"kind": "perm-items", "items": repr(its)}
        try:
            var = PermutationVariable(name="p", items=list(its))
        except Exception as e:
            ctx.violation("perm-items:construction", f"PermutationVariable(items={its!r}) raised {type(e).__name__}: {e}", meta); continue
        enc = var._label_encoder
        items_l.append(f"KFit {natlist(codes)} {natlist([label_code(x) for x in enc.__unique_labels__])}"); metas.append(meta)
        tab = getattr(var, "_labels", None)
        if tab is not None:
            items_l.append(f"KLabels {natlist(codes)} {opt([label_code(x) for x in tab])}"); metas.append(meta)
        ident = var.decode(list(range(len(its))))
        alive.append((var, its, list(range(len(its))), ident))
        for _ in range(3):
            mode = r.choice(["perm", "ties", "floats"])
            if mode == "perm": val = r.sample(range(len(its)), len(its))
            elif mode == "ties": val = [float(r.randint(0, 2)) for _ in its]
            else: val = [r.uniform(-5, 5) for _ in its]
            cor = [int(i) for i in var.correct(val)]
            meta2 = {**meta, "value": repr(val)}
            try:
                out = var.decode(val)
            except Exception as e:
                ctx.violation("decode-raises:perm-items", f"PermutationVariable(items={its!r}).decode({val!r}) raised {type(e).__name__}: {e}", meta2); continue
            try: oc = [label_code(x) for x in out]
            except Exception: oc = None
            if oc is None or sorted(oc) != sorted(codes):
                ctx.violation("decode-not-rearrangement:perm-items", f"PermutationVariable(items={its!r}).decode({val!r}) = {out!r} is not a rearrangement of the declared items", meta2)
            elif [label_code(x) for x in ident] and oc != [label_code(ident[j]) for j in cor]:
                ctx.violation("decode-inconsistent:perm-items", f"PermutationVariable(items={its!r}).decode({val!r}) = {out!r} is inconsistent with the corrected index order {cor!r} (identity decodes to {ident!r})", meta2)
            items_l.append(f"KDecode {natlist(codes)} {natlist(cor)} {opt(oc)}"); metas.append(meta2)
            if r.random() < 0.3: alive.append((var, its, val, out))
        # the encoder on its own: indexes beyond the labels, labels it has not seen
        y = [r.randint(0, len(its) + 1) for _ in range(r.randint(0, 4))]
        try: inv = [label_code(x) for x in enc.inverse_transform(list(y))]
        except IndexError: inv = None
        items_l.append(f"KInverse {natlist(codes)} {natlist(y)} {opt(inv)}"); metas.append({**meta, "inverse_transform": y})
        ylab = [r.choice(LABEL_CODES)[0] for _ in range(r.randint(0, 3))]
        try: tr_ = [int(i) for i in enc.transform(list(ylab))]
        except KeyError: tr_ = None
        items_l.append(f"KTransform {natlist(codes)} {natlist([label_code(x) for x in ylab])} {opt(tr_)}"); metas.append({**meta, "transform": repr(ylab)})
    # variables do not influence one another: every earlier variable still decodes as it did when it was the newest one (no table shared between encoders)
    changed = 0
    for var, its, val, out in alive:
        try: again = var.decode(val)
        except Exception as e: again = f"{type(e).__name__}: {e}"
        if repr(again) != repr(out):
            changed += 1
            if changed <= 3:
                ctx.violation("decode-depends-on-other-variables:perm-items", f"PermutationVariable(items={its!r}).decode({val!r}) was {out!r}; after other permutation variables were "
                              f"constructed in the same interpreter it is {again!r}", {"kind": "perm-items-sequence", "items": repr(its), "value": repr(val), "others": [repr(a[1]) for a in alive[:40]]})
    res = coq.run_cases("C13L", LABEL_PREAMBLE, items_l, "check", shard=400)
    for e in res["errors"]:
        ctx.broke("correspondence:C13 label case evaluation", e)
    for i in res["bad"][:5]:
        ctx.broke(f"correspondence:Labels.v / GenLabels.v vs models.py on {json.dumps(metas[i], default=str)[:300]}", "model and implementation differ")
    ctx.coverage["label_correspondence"] = {"cases": res["n"], "disagreements": len(res["bad"]), "files": res["files"], "item_lists": n, "shapes": shapes}
    ctx.coverage["evaluations"] += res["n"]


def replay(rep):
    print(json.dumps(rep, indent=1, default=str))
    m = rep["replay"]
    if m.get("kind") == "perm-items-sequence":
        from pyvolutionary.models import PermutationVariable
        its = eval(m["items"]); val = eval(m["value"])
        var = PermutationVariable(name="p", items=its); before = var.decode(val)
        keep = [PermutationVariable(name="q", items=eval(o)) for o in m["others"]]
        after = var.decode(val)
        print("items:", its, " value:", val, " decode:", before, " after", len(keep), "other variables were built:", after)
        return 0 if repr(before) == repr(after) else 1
    if m.get("kind") == "perm-items":
        from pyvolutionary.models import PermutationVariable
        its = eval(m["items"]); var = PermutationVariable(name="p", items=its)
        val = eval(m["value"]) if "value" in m else list(range(len(its)))
        out = var.decode(val)
        print("items:", its, " value:", val, " corrected:", var.correct(val), " decode:", out)
        ok = sorted(map(repr, (label_code(x) for x in out if not (isinstance(x, str) and x == "unknown")))) == sorted(map(repr, (label_code(x) for x in its))) and "unknown" not in out
        print("rearrangement of the declared items:", ok)
        return 0 if ok else 1
    var = build(m["kind"], tuple(m["spec"]) if isinstance(m["spec"], list) and m["kind"] in ("cont", "contmulti", "multiobj") else m["spec"])
    print("variable:", var)
    if "value" in m:
        v = eval(m["value"], {"np": np, "inf": float("inf"), "nan": float("nan"), "array": np.array, "float64": np.float64, "int64": np.int64, "float32": np.float32, "float16": np.float16})
        out = var.correct(v)
        print("correct:", out, " correct twice:", var.correct(out))
        try: print("decode:", var.decode(out))
        except Exception as e: print("decode raises", type(e).__name__)
    return 1
