"""Building the Coq development and evaluating generated case files (vm_compute) in parallel."""
from __future__ import annotations
import fcntl
import os
import re
import subprocess
import time
from concurrent.futures import ThreadPoolExecutor
from contextlib import contextmanager
from pathlib import Path

VERIF = Path(__file__).resolve().parent.parent
COQ = VERIF / "coq"
QFLAGS = ["-Q", "theories", "PV", "-Q", "gen", "PVGen", "-Q", "bridge", "PVBridge", "-Q", "props", "PVProps"]
FORBIDDEN = re.compile(
    r"\b(Admitted|admit|Axiom|Axioms|Parameter|Parameters|Conjecture|Conjectures|Admit Obligations|"
    r"Unset Guard Checking|Unset Positivity Checking|Unset Universe Checking|bypass_check|"
    r"native_compute|type-in-type|impredicative-set)\b")
STMT = re.compile(r"^\s*(?:Local\s+|Global\s+|#\[[^\]]*\]\s*)*(Theorem|Lemma|Corollary|Example|Fact|Proposition|Remark)\s+([A-Za-z0-9_']+)", re.M)


@contextmanager
def build_lock():
    COQ.mkdir(exist_ok=True)
    with open(COQ / ".lock", "w") as fh:
        fcntl.flock(fh, fcntl.LOCK_EX)
        try:
            yield
        finally:
            fcntl.flock(fh, fcntl.LOCK_UN)


def write_if_changed(path: Path, text: str) -> bool:
    path.parent.mkdir(parents=True, exist_ok=True)
    if path.exists() and path.read_text() == text:
        return False
    tmp = path.with_suffix(path.suffix + ".tmp")
    tmp.write_text(text)
    os.replace(tmp, path)
    return True


def all_sources() -> list[Path]:
    out = []
    for sub in ("theories", "gen", "bridge", "props"):
        out += sorted((COQ / sub).glob("*.v"))
    return out


def ensure_makefile():
    """(Re)generate _CoqProject / Makefile when the set of source files changed."""
    files = [str(p.relative_to(COQ)) for p in all_sources()]
    proj = "-Q theories PV\n-Q gen PVGen\n-Q bridge PVBridge\n-Q props PVProps\n" + "\n".join(files) + "\n"
    changed = write_if_changed(COQ / "_CoqProject", proj)
    if changed or not (COQ / "Makefile").exists():
        subprocess.run(["coq_makefile", "-f", "_CoqProject", "-o", "Makefile"], cwd=COQ, check=True,
                       capture_output=True, text=True)


def make(targets: list[str], timeout: int = 1500, jobs: int = 16) -> tuple[bool, str]:
    """Full .vo build of the given targets (never -vos)."""
    ensure_makefile()
    t0 = time.time()
    try:
        r = subprocess.run(["timeout", str(timeout), "make", f"-j{jobs}", "-k"] + targets, cwd=COQ,
                           capture_output=True, text=True)
        ok = r.returncode == 0
        log = r.stdout + r.stderr
    except Exception as e:  # pragma: no cover
        ok, log = False, repr(e)
    return ok, log + f"\n[make {targets} ok={ok} {time.time()-t0:.1f}s]"


def coqc(rel: str, timeout: int = 600) -> tuple[bool, str]:
    r = subprocess.run(["timeout", str(timeout), "coqc"] + QFLAGS + [rel], cwd=COQ, capture_output=True, text=True)
    return r.returncode == 0, r.stdout + r.stderr


def forbidden_scan() -> list[str]:
    """The grep gate: no Admitted / Axiom / Parameter / unsafe switches anywhere in the development."""
    hits = []
    for p in all_sources():
        txt = strip_comments(p.read_text())
        for m in FORBIDDEN.finditer(txt):
            hits.append(f"{p.relative_to(COQ)}: {m.group(0)}")
    return hits


def strip_comments(s: str) -> str:
    out, depth, i = [], 0, 0
    while i < len(s):
        if s.startswith("(*", i):
            depth += 1; i += 2
        elif s.startswith("*)", i) and depth:
            depth -= 1; i += 2
        else:
            if not depth:
                out.append(s[i])
            i += 1
    return "".join(out)


def dep_cone(rel: str) -> list[Path]:
    """Transitive .v dependencies of rel inside this development (via coqdep)."""
    seen, todo = [], [rel]
    while todo:
        cur = todo.pop()
        if cur in seen:
            continue
        seen.append(cur)
        r = subprocess.run(["coqdep"] + QFLAGS + [cur], cwd=COQ, capture_output=True, text=True)
        for m in re.finditer(r"(\S+)\.vo\b", r.stdout.split(":", 1)[1] if ":" in r.stdout else ""):
            v = m.group(1) + ".v"
            if (COQ / v).exists() and v not in seen:
                todo.append(v)
    return [COQ / s for s in seen]


def count_obligations(rel: str, make_log: str = "") -> dict:
    """Statements (Theorem/Lemma/...) and closed proofs in the dependency cone of rel."""
    files = dep_cone(rel)
    failed = set(re.findall(r"\*\*\* \[Makefile:\d+: (\S+)\.vo\] Error", make_log))
    not_remade = set(re.findall(r"Target '(\S+)\.vo' not remade", make_log))
    stale = set()
    if failed:
        # anything whose own cone contains a failed file was not re-checked in this build
        for p in files:
            r = str(p.relative_to(COQ))[:-2]
            if r in failed or r in not_remade or any(str(q.relative_to(COQ))[:-2] in failed for q in dep_cone(r + ".v")):
                stale.add(p)
    stmts = qeds = 0
    names = []
    for p in files:
        txt = strip_comments(p.read_text())
        found = STMT.findall(txt)
        stmts += len(found)
        vo = p.with_suffix(".vo")
        if p not in stale and vo.exists() and vo.stat().st_mtime >= p.stat().st_mtime:   # only proofs the kernel accepted in this build
            qeds += len(re.findall(r"\b(Qed|Defined)\.", txt))
        if p.parent.name == "props":
            names += [n for _, n in found]
    return {"files": [str(p.relative_to(COQ)) for p in files], "statements": stmts, "closed": qeds, "property_theorems": names}


def print_assumptions(rel: str) -> tuple[bool, dict]:
    """Recompile a props file and capture each `Print Assumptions` answer."""
    ok, out = coqc(rel)
    res = {}
    if ok:
        # output blocks: either "Closed under the global context" or "Axioms:\n name : type ..."
        blocks = re.split(r"(?=Closed under the global context|Axioms:)", out)
        res["raw"] = [b.strip() for b in blocks if b.strip()]
        res["closed"] = sum(1 for b in res["raw"] if b.startswith("Closed under"))
        res["with_axioms"] = [b for b in res["raw"] if b.startswith("Axioms:")]
    else:
        res["error"] = out[-2000:]
    return ok, res


def coqchk(pid: str, timeout: int = 1800) -> tuple[bool, dict]:
    """independent re-check of props/<pid>.vo and everything it depends on; returns the context summary (axioms, type-in-type, unsafe fixpoints, assumed positivity)"""
    r = subprocess.run(["timeout", str(timeout), "coqchk", "-silent", "-o"] + QFLAGS + [f"PVProps.{pid}"], cwd=COQ, capture_output=True, text=True)
    out = r.stdout + r.stderr
    res = {"rc": r.returncode}
    m = re.search(r"CONTEXT SUMMARY\s*=+\s*(.*)", out, re.S)
    if m:
        summary = " ".join(m.group(1).split())
        res["summary"] = summary
        for key, pat in (("axioms", r"\* Axioms: (.*?) \*"), ("type_in_type", r"type-in-type: (.*?) \*"), ("unsafe_fixpoints", r"unsafe \(co\)fixpoints: (.*?) \*"),
                         ("assumed_positivity", r"positivity is assumed: (.*)$")):
            mm = re.search(pat, summary)
            res[key] = mm.group(1).strip() if mm else "?"
    else:
        res["error"] = out[-1500:]
    ok = r.returncode == 0 and all(res.get(k) == "<none>" for k in ("axioms", "type_in_type", "unsafe_fixpoints", "assumed_positivity"))
    return ok, res


def _avail_gb() -> int:
    """memory this process may still take: the machine's MemAvailable, or what is left under the memory limit of the control group it runs in, whichever is smaller"""
    avail = 48
    try:
        for line in open("/proc/meminfo"):
            if line.startswith("MemAvailable:"):
                avail = int(line.split()[1]) // (1024 * 1024)
    except OSError:
        pass
    try:
        rel = [l.strip().split("::", 1)[1] for l in open("/proc/self/cgroup") if "::" in l]
        d = Path("/sys/fs/cgroup") / (rel[0].lstrip("/") if rel else "")
        while True:
            mx = d / "memory.max"
            if mx.exists():
                v = mx.read_text().strip()
                if v != "max":
                    cur = int((d / "memory.current").read_text())
                    avail = min(avail, max(0, int(v) - cur) // (1024 ** 3))
            if d == Path("/sys/fs/cgroup") or d == d.parent:
                break
            d = d.parent
    except Exception:
        pass
    try:                                    # control groups v1
        rel = [l.strip().split(":", 2)[2] for l in open("/proc/self/cgroup") if l.split(":")[1:2] == ["memory"]]
        d = Path("/sys/fs/cgroup/memory") / (rel[0].lstrip("/") if rel else "")
        lim, cur = int((d / "memory.limit_in_bytes").read_text()), int((d / "memory.usage_in_bytes").read_text())
        if lim < 1 << 60:
            avail = min(avail, max(0, lim - cur) // (1024 ** 3))
    except Exception:
        pass
    return avail


CASE_HEADER = "From Coq Require Import ZArith List Bool Arith.\nImport ListNotations.\n"


def run_cases(tag: str, preamble: str, items: list[str], check_fn: str, shard: int = 400,
              timeout: int = 900, item_type: str = "case") -> dict:
    """Evaluate `check_fn : item_type -> bool` on every item inside Coq.

    Writes coq/cases/<tag>_<k>.v (<= shard items each), compiles them in parallel, returns
    {"n": total, "bad": [global indexes that evaluated to false], "errors": [...]}.
    """
    cdir = COQ / "cases"
    cdir.mkdir(exist_ok=True)
    for old in cdir.glob(f"{tag}_*"):
        old.unlink()
    shards = [items[i:i + shard] for i in range(0, len(items), shard)] or [[]]
    files = []
    for k, sh in enumerate(shards):
        body = (CASE_HEADER + preamble + f"\nDefinition cases : list {item_type} := [\n" + ";\n".join(sh) + "\n].\n"
                + "Fixpoint bad_idx (i : nat) (l : list " + item_type + ") : list nat :=\n"
                + f"  match l with [] => [] | c :: t => if {check_fn} c then bad_idx (S i) t else i :: bad_idx (S i) t end.\n"
                + "Definition bad := bad_idx 0 cases.\n"
                + "Eval vm_compute in (length cases, length bad, firstn 20 bad).\n")
        f = cdir / f"{tag}_{k}.v"
        f.write_text(body)
        files.append(f)

    def one(f: Path):
        r = subprocess.run(["timeout", str(timeout), "coqc"] + QFLAGS + [str(f.relative_to(COQ))], cwd=COQ,
                           capture_output=True, text=True)
        return f, r.returncode, r.stdout, r.stderr

    res = {"n": len(items), "bad": [], "errors": [], "files": len(files)}
    # a shard of float-heavy cases can take 2 GB inside coqc: as many compilers at once as the memory that is available NOW carries (3 GB each), at most 16;
    # a shard whose compiler was killed from outside (out of memory: rc -9 / 137) or timed out next to its neighbours is compiled once more on its own
    workers = max(1, min(16, len(files), _avail_gb() // 3))
    with ThreadPoolExecutor(max_workers=workers) as ex:
        results = list(ex.map(one, files))
    for k, (f, rc, out, err) in enumerate(results):
        if rc in (-9, 137, 124):
            res.setdefault("retried", []).append(f"{f.name}: rc={rc}")
            results[k] = one(f)
    if True:
        for k, (f, rc, out, err) in enumerate(results):
            if rc != 0:
                res["errors"].append(f"{f.name}: rc={rc} {err[-800:]}")
                continue
            flat = " ".join(out.split())
            m = re.search(r"= \((\d+), (\d+), \[([0-9; ]*)\]\)", flat)
            if not m:
                res["errors"].append(f"{f.name}: unparsable output {flat[-300:]}")
                continue
            n, nbad = int(m.group(1)), int(m.group(2))
            if n != len(shards[k]):
                res["errors"].append(f"{f.name}: evaluated {n} of {len(shards[k])}")
            idxs = [int(x) for x in m.group(3).replace(" ", "").split(";") if x]
            res["bad"] += [k * shard + i for i in idxs]
            if nbad > len(idxs):
                res["bad_truncated"] = True
    # keep the directory small: remove compiled artefacts, keep sources of failing shards only
    for f in files:
        for ext in (".vo", ".vok", ".vos", ".glob"):
            g = f.with_suffix(ext)
            if g.exists():
                g.unlink()
        aux = f.parent / ("." + f.stem + ".aux")
        if aux.exists():
            aux.unlink()
    if not res["bad"] and not res["errors"]:
        for f in files:
            f.unlink()
    return res
