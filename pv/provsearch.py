"""Shared dynamic part of C01 / C02 / C05: (i) correspondence of the model's init_agent with the real
_init_agent; (ii) real optimizers run with a recording objective, every reported agent and every objective
argument decided against the property text."""
from __future__ import annotations
import json
import random
import math

import numpy as np

from . import coq, search
from .lit import xlit, flit, coqlist, natlist, xkey
from .props import c13, c14

PREAMBLE = c13.PREAMBLE.split("Inductive case :=")[0] + r"""
From Coq Require Import PrimFloat.
From PV Require Import Init.
From PVGen Require Import GenInit.
Definition f_eqb (a b : float) : bool := PrimFloat.eqb a b || (PrimFloat.is_nan a && PrimFloat.is_nan b).
Definition gfit (c : float) (d : dir) : float :=
  gen_fitness float PrimFloat.add PrimFloat.div PrimFloat.abs PrimFloat.opp PrimFloat.leb 0%float 1%float c d.
(* one construction: the objective value and the dot product are the values observed in the real call *)
Inductive case :=
| KInit (t : task) (d : dir) (nw : option nat) (raw : option (list coord)) (draw : list coord) (ov : objv) (dotv : xnum)
        (costf : float) (expected : option (list coord * xnum * float * list coord)).
Definition check (c : case) : bool :=
  match c with
  | KInit t d nw raw draw ov dotv costf e =>
      let w := match nw with Some n => Some (repeat tt n) | None => None end in
      match init_agent unit (fun _ _ => dotv) unit (fun _ _ => tt) (fun _ => ov) t d w raw draw, e with
      | None, None => true
      | Some (a, arg), Some (pos, cost, fit, earg) =>
          cl_eqb (a_pos a) pos && x_eqb (a_cost a) cost && cl_eqb arg earg && f_eqb (gfit costf d) fit
      | _, _ => false
      end
  end.
"""


def objv_lit(v):
    if isinstance(v, list): return "(OVec " + coqlist([xlit(x) for x in v]) + ")"
    return f"(OScalar {xlit(v)})"


class RecTask(search.SpecTask):
    """records (argument, value) of every objective call in-process"""
    def objective_function(self, x):
        val = search.stored_objective(self.data["obj"], x)
        self.data["log"].append((x, list(val) if isinstance(val, list) else val))
        return val


def init_agent_correspondence(ctx, n_cases):
    from .harness import Scripted, BaseOptimizationConfig, exc_class
    from pydantic import ValidationError
    r = ctx.rng
    items, metas = [], []
    for _ in range(n_cases):
        tspec = c14.gen_task(r)
        multi = r.random() < 0.3
        mm = r.choice(["min", "max"])
        weights = None
        obj = r.choice(["sphere", "linear", "shifted", "abs"])
        if multi:
            obj = "multi2"
            weights = r.choice([[0.5, 0.5], [2.0, 1.0], [0.25, 0.25], [3.0, 0.5], [1.0], [1.0, 1.0, 1.0]])
        kids = [ck for k, s in tspec for ck in c13.child_kinds(k, s)]
        try:
            task = RecTask(variables=search.build_vars([(k, s) for k, s in tspec]), minmax=mm, data={"obj": obj, "log": []},
                           **({"objective_weights": weights} if weights is not None else {}))
        except (ValidationError, ValueError):
            continue
        o = Scripted(BaseOptimizationConfig(population_size=1, max_cycles=1)); o._task = task
        mal = r.random() < 0.12
        raw = []
        for ck, cs in kids:
            raw.append([r.uniform(-3, 3) for _ in range(cs)] if ck == "perm" else c13.rvalue(r, ck, cs, mal))
        if mal and r.random() < 0.3 and len(raw) > 1: raw = raw[:-1]
        use_none = r.random() < 0.1
        arg = None if use_none else (np.array(raw, dtype=float) if (r.random() < 0.3 and kids[0][0] != "perm" and all(not isinstance(v, (list, np.ndarray)) for v in raw)) else raw)
        draw = []
        if use_none:
            try:
                st = np.random.get_state(); draw = c13.norm(task.empty_solution()); np.random.set_state(st)   # the draw the real call will make
            except OverflowError:
                continue        # a range upper - lower that overflows a double: numpy cannot draw from it (listed C06 finding), no construction to compare
        meta = {"task": tspec, "minmax": mm, "weights": weights, "obj": obj, "raw": None if use_none else repr(raw)}
        try:
            a = o._init_agent(arg); err = None
        except Exception as e:
            a, err = None, exc_class(e)
        tl = c14.task_lit(tspec)
        rawl = "None" if use_none else "(Some " + coqlist([c13.coord_lit(float(c) if isinstance(arg, np.ndarray) else c) for c in raw]) + ")"
        drawl = coqlist([c13.coord_lit(c) for c in draw])
        nwl = "None" if weights is None else f"(Some {len(weights)}%nat)"
        log = task.data["log"]
        if log:
            x_arg, val = log[-1]
            x_arg = c13.norm(x_arg)
            ovl = objv_lit(val)
            internal = ([-v for v in val] if mm == "max" else list(val)) if isinstance(val, list) else None
            dotv = float(np.dot(internal, weights)) if (weights is not None and internal is not None and len(internal) == len(weights)) else 0.0
        else:
            x_arg, ovl, dotv = [], "(OScalar (xint 0))", 0.0
        if err or a is None:
            exp = "None"; costf = 0.0
        else:
            costf = float(a.cost)
            exp = ("(Some (" + coqlist([c13.coord_lit(c) for c in c13.norm(a.position)]) + f", {xlit(a.cost)}, {flit(a.fitness)}, "
                   + coqlist([c13.coord_lit(c) for c in x_arg]) + "))")
            # ---- the properties, decided directly on the real agent
            if not mal:
                pos = c13.norm(a.position)
                if len(pos) != len(kids) or not all(c13.is_member(ck, cs, v) for (ck, cs), v in zip(kids, pos)):
                    ctx.violation("init-agent:position-not-in-space", f"_init_agent({raw!r}) stores position {pos!r} outside the search space", meta)
                if not c13.same(x_arg, pos):
                    ctx.violation("init-agent:objective-evaluated-elsewhere", f"objective evaluated at {x_arg!r}, stored position {pos!r}", meta)
                true = search.objective_value(obj, pos)
                true_cost = float(np.dot(true, weights)) if weights is not None and isinstance(true, list) else (true if not isinstance(true, list) else None)
                rep = -a.cost if mm == "max" else a.cost
                if true_cost is not None and xkey(rep) != xkey(true_cost):
                    ctx.violation("init-agent:cost-not-objective", f"reported cost {rep!r} but objective(position) = {true_cost!r} ({mm}, weights={weights})", meta)
                c = rep
                phi = 1 / (c + 1) if c >= 0 else 1 + abs(c)
                if a.fitness != phi and not (math.isnan(phi) and math.isnan(a.fitness)):
                    ctx.violation("init-agent:fitness-formula", f"fitness {a.fitness!r} but the documented function of cost {c!r} is {phi!r}", meta)
        items.append(f"KInit {tl} {'MIN' if mm == 'min' else 'MAX'} {nwl} {rawl} {drawl} {ovl} {xlit(dotv)} {flit(costf)} {exp}")
        metas.append(meta)
    res = coq.run_cases(ctx.pid + "i", PREAMBLE, items, "check", shard=250)
    return items, metas, res


# ------------------------------------------------------------------------------------------------ real optimizers
BOUNDS = [(-10.0, 10.0), (0.0, 5.0), (-3.0, 0.0), (-1e-3, 1e-3), (-1e6, 1e6), (2.0, 9.0)]


def membership_problems(vspecs, pos):
    kids = [ck for k, s in vspecs for ck in c13.child_kinds(k, s)]
    pos = c13.norm(pos)
    if len(pos) != len(kids): return ("length", f"{len(pos)} coordinates for dimension {len(kids)}")
    for i, ((ck, cs), v) in enumerate(zip(kids, pos)):
        if not c13.is_member(ck, cs, v):
            flat = v if isinstance(v, list) else [v]
            kind = "nan" if any(isinstance(u, float) and math.isnan(u) for u in flat) else "outside"
            return (kind, f"coordinate {i} = {v!r} is not in the domain of its {ck} variable {cs!r}")
    return None


def make_jobs(ctx, focus: str):
    """jobs for the real-optimizer pass; focus in {'space', 'cost', 'calls'} only changes the task mix a little"""
    r = ctx.rng
    names = search.all_names()
    jobs = []
    reps = (1 if ctx.quick else 6) * getattr(ctx, 'boost', 1)
    for nm in names:
        for _ in range(reps):
            lo, hi = r.choice(BOUNDS)
            mm = r.choice(["min", "max"])
            dim = r.choice([1, 2, 3, 5]) if not ctx.quick else r.choice([2, 3])
            t = search.cont_task(dim=dim, lo=lo, hi=hi, obj=r.choice(["sphere", "shifted", "linear", "rastrigin"]), minmax=mm, seed=r.randint(0, 10**6))
            jobs.append({"opt": nm, "cfg": {"max_cycles": r.choice([2, 3]), "fitness_error": None}, "task": t, "record": True, "trace_init": True})
        # multi-objective with non-normalised weights, both directions
        if focus in ("cost", "space") or not ctx.quick:
            t = {"vars": [("multiobj", ([-4.0, -4.0], [4.0, 4.0]))], "obj": r.choice(["multi2", "cached:multi2"]), "minmax": r.choice(["min", "max"]),
                 "weights": r.choice([[2.0, 1.0], [0.25, 0.25], [3.0, 0.5], [0.4, 0.6]]), "seed": r.randint(0, 10**6)}
            jobs.append({"opt": nm, "cfg": {"max_cycles": 2, "fitness_error": None}, "task": t, "record": True})
        # a task object that was used before and whose variables were then narrowed (task.variables = ...): positions and objective arguments must lie in the NEW space
        if r.random() < (0.25 if ctx.quick else 1.0):
            jobs.append({"opt": nm, "cfg": {"max_cycles": 2, "fitness_error": None}, "record": True,
                         "task": {"vars": [("contmulti", ([-8.0, -8.0, -8.0], [8.0, 8.0, 8.0]))], "obj": "sphere", "minmax": r.choice(["min", "max"]), "seed": r.randint(0, 10**6)},
                         "retask_vars": [("contmulti", ([-1.0, 2.0, -1.0], [1.0, 3.0, 0.0]))]})
        # a narrow box far from the origin (offset / width = 1e5: cancellation in vectorised distance formulas) over 30 cycles, and an enormous cycle budget
        # that stops after one cycle (cycle-budget dependent schedules at their extreme): candidates must stay NaN-free and in space
        jobs.append({"opt": nm, "cfg": {"max_cycles": 30, "fitness_error": None}, "record": True,
                     "task": {"vars": [("contmulti", ([100000.0] * 3, [100001.0] * 3))], "obj": "shifted", "minmax": r.choice(["min", "max"]), "seed": r.randint(0, 10**6)}})
        jobs.append({"opt": nm, "cfg": {"max_cycles": r.choice([100000, 1000000]), "fitness_error": 1e9}, "record": True,
                     "task": search.cont_task(obj="sphere", minmax=r.choice(["min", "max"]), seed=r.randint(0, 10**6))})
        # a REUSED instance: an earlier run on another task of the same class (other weights / another objective over the same space and seed) must leave nothing behind
        if r.random() < (0.3 if ctx.quick else 1.0):
            sd = r.randint(0, 10**6)
            mo = lambda w: {"vars": [("multiobj", ([-4.0, -4.0], [4.0, 4.0]))], "obj": "multi2", "minmax": r.choice(["min", "max"]), "weights": w, "seed": sd}
            jobs.append({"opt": nm, "cfg": {"max_cycles": 2, "fitness_error": None}, "record": True, "sequence": [{"task": mo([0.5, 0.5])}], "task": mo([0.9, 0.1])})
            jobs.append({"opt": nm, "cfg": {"max_cycles": 2, "fitness_error": None}, "record": True,
                         "sequence": [{"task": search.cont_task(obj="sphere", seed=sd, dim=3)}], "task": search.cont_task(obj="shifted", minmax=r.choice(["min", "max"]), seed=sd, dim=3)})
        # an objective that edits its argument in place must not be able to reach the stored position
        if r.random() < (0.25 if ctx.quick else 1.0):
            jobs.append({"opt": nm, "cfg": {"max_cycles": 2, "fitness_error": None}, "record": False,
                         "task": {"vars": [("contmulti", ([20.0, -10.0, 0.0], [30.0, -5.0, 1.0]))], "obj": "mutating:sphere", "minmax": r.choice(["min", "max"]), "seed": r.randint(0, 10**6)}})
        # two variables sharing one name (the library's default name is "var"): still one coordinate per declared variable
        if r.random() < (0.25 if ctx.quick else 1.0):
            jobs.append({"opt": nm, "cfg": {"max_cycles": 2, "fitness_error": None}, "record": True,
                         "task": {"vars": [("cont", (-2.0, 2.0)), ("cont", (5.0, 6.0)), ("contmulti", ([0.0, 0.0], [1.0, 1.0]))], "names": ["var", "var", "x"],
                                  "obj": "sphere", "minmax": "min", "seed": r.randint(0, 10**6)}})
        # an integer-coded task (mixed or permutation) where the optimizer supports it
        if focus in ("space", "calls") or not ctx.quick:
            vs = r.choice([[("disc", 4), ("binary", 3), ("cont", (-2.0, 2.0))], [("perm", 6)], [("discmulti", [3, 5, 2])]])
            t = {"vars": vs, "obj": "abs" if vs[0][0] != "perm" else "linear", "minmax": "min", "seed": r.randint(0, 10**6)}
            jobs.append({"opt": nm, "cfg": {"max_cycles": 2, "fitness_error": None}, "task": t, "record": True, "integer_coded": True})
    # discrete variables with MANY choices (a size from which n - eps == n in doubles): the choice index handed to the objective stays below n.
    # Own generator: the jobs above are unchanged by this family
    r2 = random.Random(f"big-discrete:{getattr(ctx, 'seed', 1)}")
    for nm in (r2.sample(names, 10) if ctx.quick else names):
        if focus in ("space", "calls") or not ctx.quick:
            jobs.append({"opt": nm, "cfg": {"max_cycles": 2, "fitness_error": None}, "record": True, "integer_coded": True, "family": "big-discrete",
                         "task": {"vars": [("disc", r2.choice([16385, 20000, 70001])), ("disc", 3), ("cont", (-2.0, 2.0))], "obj": "abs", "minmax": r2.choice(["min", "max"]),
                                  "seed": r2.randint(0, 10**6)}})
    return jobs


def config_corner(j) -> str:
    """which corner of the configuration space a job sits in: the algorithm parameters it moves away from the documented values (names only) and whether the
    population is below the documented scale.  Part of the key of a NaN finding, so that a listed finding in one corner (Ficks Law with DD at its upper end) does not
    cover a new one elsewhere (Ficks Law with the documented configuration)"""
    cfg = j.get("cfg", {})
    moved = sorted(k for k in cfg if k not in ("max_cycles", "population_size", "fitness_error", "early_stopping"))
    try:
        tiny = cfg.get("population_size") is not None and cfg["population_size"] < search.fixture_scale(j["opt"])["population_size"]
    except Exception:
        tiny = False
    try:
        from .driver import load_findings
        if any(f.get("status") == "known" and f.get("key") == f"calls-nan:{j['opt']}" for f in load_findings()):
            return ""                       # this optimizer hands NaN candidates over with the DOCUMENTED configuration already (listed): every corner is the same finding
    except Exception:
        pass
    if tiny: return ":tiny-population"       # below the documented scale: one corner, whatever else is moved
    return (":" + "+".join(moved)) if moved else ""


def decide(ctx, obs_list, what: set[str]):
    """apply the C01 / C02 / C05 oracles to observations; returns counters"""
    stats = {"runs": 0, "completed": 0, "agents": 0, "calls": 0, "crashed": 0}
    for o in obs_list:
        stats["runs"] += 1
        j = o["job"]
        t = j["task"]
        if not o["ok"]:
            stats["crashed"] += 1
            # calls made before the crash still count for C05
        else:
            stats["completed"] += 1
        vspecs = j.get("retask_vars") or t["vars"]
        mm = t.get("minmax", "min")
        weights = t.get("weights")
        if o["ok"] and what & {"space", "cost"}:
            gens = o["evolution"] + [[o["best"]]]
            for g, pop in enumerate(gens):
                for a in pop:
                    stats["agents"] += 1
                    pos, cost, fit = a
                    if "space" in what:
                        pr = membership_problems(vspecs, pos)
                        if pr:
                            ctx.violation(f"space-{pr[0]}:{j['opt']}", f"{j['opt']}: reported position {pos!r}: {pr[1]}", {"kind": "job", "job": j, "generation": g})
                    if "cost" in what:
                        try:
                            true = search.objective_value(t["obj"][9:] if t["obj"].startswith("mutating:") else t["obj"][7:] if t["obj"].startswith("global:") else t["obj"], pos)
                            if t["obj"].startswith("global:"): true = true + float(t.get("global_shift", 0.0))
                        except Exception:
                            continue
                        true_cost = float(np.dot(true, weights)) if isinstance(true, list) and weights is not None else true
                        if isinstance(true_cost, list): continue
                        if xkey(cost) != xkey(true_cost):
                            ctx.violation(f"cost:{j['opt']}", f"{j['opt']}: reported cost {cost!r} but objective(position) = {true_cost!r} ({mm}, weights={weights}, generation {g})",
                                          {"kind": "job", "job": j, "generation": g})
                        phi = 1 / (cost + 1) if cost >= 0 else 1 + abs(cost)
                        if fit != phi and not (math.isnan(phi) and math.isnan(fit)):
                            ctx.violation(f"fitness:{j['opt']}", f"{j['opt']}: fitness {fit!r} but the documented function of cost {cost!r} is {phi!r}", {"kind": "job", "job": j, "generation": g})
        if o["ok"] and "space" in what and o.get("untraced_agents"):
            g_, pos_, cost_ = o["untraced_agents"][0]
            ctx.violation(f"untraced-agent:{j['opt']}", f"{j['opt']}: generation {g_} reports an agent (position {pos_!r}, cost {cost_!r}) that is not field-equal to any product of "
                          f"_init_agent in this run (built or edited outside the construction path the proofs rely on)", {"kind": "job", "job": j, "generation": g_})
        if "calls" in what:
            for line in o.get("calls", []):
                stats["calls"] += 1
                try:
                    x = eval(line, {"np": np, "nan": float("nan"), "inf": float("inf"), "array": np.array, "float64": np.float64, "int64": np.int64})
                except Exception:
                    continue
                pr = membership_problems(vspecs, x)
                if pr:
                    ctx.violation(f"calls-{pr[0]}:{j['opt']}{config_corner(j)}", f"{j['opt']}: objective_function called with {x!r}: {pr[1]}", {"kind": "job", "job": j})
                    break
    return stats


def replay_job(rep, what):
    class C:        # minimal ctx
        def __init__(s): s.v = []
        def violation(s, k, w, r): s.v.append((k, w))
    m = rep["replay"]
    o = search.run_job(m["job"])
    c = C()
    decide(c, [o], what)
    print("completed:", o["ok"], "error:", o.get("error"))
    for k, w in c.v[:5]: print(k, "|", w[:300])
    return 1 if c.v else 0
