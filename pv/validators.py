"""Accept / reject behaviour of every optimizer's configuration class on a fixed probe set (C18: an invalid dictionary is rejected at set_config_parameters time).
What counts as invalid is what the pinned tree's validators reject: tools/c18_baseline.py records that table in expectations.json; the check recomputes it."""
from __future__ import annotations
import math

PROBES = [0, -1, 1, 2, 3, 0.5, 0.05, 0.999, 1e9, -1e9, float("inf"), float("-inf"), float("nan")]


def table(names=None) -> dict:
    import pyvolutionary
    from .optimizers import registry
    out = {}
    for e in registry():
        if names is not None and e["name"] not in names: continue
        ccls = getattr(pyvolutionary, e["config"])
        base = dict(e["kwargs"])
        row = {}
        for f, info in ccls.model_fields.items():
            v0 = base.get(f, info.default)
            if isinstance(v0, bool) or not isinstance(v0, (int, float)): continue
            sig = ""
            for p in PROBES:
                try:
                    ccls(**{**base, f: p}); sig += "a"
                except Exception:
                    sig += "r"
            row[f] = sig
        out[e["name"]] = row
    return out


def describe(p) -> str:
    return "nan" if isinstance(p, float) and math.isnan(p) else repr(p)
