"""Accept / reject behaviour of every optimizer's configuration class on a fixed probe set (C18: an invalid dictionary is rejected at set_config_parameters time).
What counts as invalid is what the pinned tree's validators reject: tools/c18_baseline.py records that table in expectations.json; the check recomputes it."""
from __future__ import annotations
import math

PROBES = [0, -1, 1, 2, 3, 0.5, 0.05, 0.999, 1e9, -1e9, float("inf"), float("-inf"), float("nan")]


def table(names=None) -> dict:
    import pyvolutionary
    from .optimizers import registry
    out = {}
    for e in registry():
        if names is not None and e["name"] not in names: continue
        ccls = getattr(pyvolutionary, e["config"])
        base = dict(e["kwargs"])
        row = {}
        for f, info in ccls.model_fields.items():
            v0 = base.get(f, info.default)
            if isinstance(v0, (list, tuple)) and v0 and all(isinstance(x, (int, float)) and not isinstance(x, bool) for x in v0):
                # a list-valued parameter (ranges, probability triples): every POSITION probed on its own, the other entries as documented
                for i in range(len(v0)):
                    sig = ""
                    for p in PROBES:
                        vv = list(v0); vv[i] = p
                        try:
                            ccls(**{**base, f: vv}); sig += "a"
                        except Exception:
                            sig += "r"
                    row[f"{f}[{i}]"] = sig
                continue
            if isinstance(v0, bool) or not isinstance(v0, (int, float)): continue
            sig = ""
            for p in PROBES:
                try:
                    ccls(**{**base, f: p}); sig += "a"
                except Exception:
                    sig += "r"
            row[f] = sig
        out[e["name"]] = row
    return out


def describe(p) -> str:
    return "nan" if isinstance(p, float) and math.isnan(p) else repr(p)


EDGE_CANDIDATES = [0.0, 1e-6, 0.001, 0.01, 0.05, 0.1, 0.2, 0.3, 0.5, 0.6, 0.67, 0.7, 0.75, 0.8, 0.9, 0.95, 0.99, 0.999, 1.0, 1.5, 2.0, 3.0, 5.0, 10.0, 100.0]


def edge_configs(name: str, sizes=(1, 2, 3, 4, 5)) -> list[dict]:
    """configurations at the edge of what the validators accept: the smallest populations, and every float / int parameter of the optimizer at the smallest and
    the largest candidate value its validator accepts (one parameter moved at a time, the others as documented)"""
    import pyvolutionary
    from .optimizers import registry
    e = next(x for x in registry() if x["name"] == name)
    ccls = getattr(pyvolutionary, e["config"])
    base = dict(e["kwargs"])
    out = []
    moves = [{}]
    for f, info in ccls.model_fields.items():
        if f in ("population_size", "max_cycles", "fitness_error", "early_stopping"): continue
        v0 = base.get(f, info.default)
        if isinstance(v0, bool) or not isinstance(v0, (int, float)): continue
        cands = sorted(set(EDGE_CANDIDATES + [v0 * k for k in (0.5, 2.0)])) if isinstance(v0, float) else sorted({1, 2, 3, max(1, v0 // 2), v0 * 2, v0 + 1, max(1, v0 - 1)})
        ok = []
        for c in cands:
            try:
                ccls(**{**base, f: c}); ok.append(c)
            except Exception:
                pass
        for c in ([ok[0], ok[-1]] if len(ok) > 1 else ok):
            if c != v0: moves.append({f: c})
    for P in sizes:
        for mv in moves:
            cfg = {**mv, "population_size": P}
            try:
                ccls(**{**base, **cfg})
            except Exception:
                continue
            out.append(cfg)
    return out


def param_grid(name: str, step: float = 0.025) -> list[dict]:
    """every FLOAT parameter of the optimizer on a fine grid inside what its validator accepts (one parameter moved at a time): decimal-looking values at which a
    product with the population size is an exact integer - or one ulp short of one - sit on such a grid (0.55 x 60, 0.675 x 40 ...)"""
    import pyvolutionary
    from .optimizers import registry
    e = next(x for x in registry() if x["name"] == name)
    ccls = getattr(pyvolutionary, e["config"])
    base = dict(e["kwargs"])
    out = []
    for f, info in ccls.model_fields.items():
        if f in ("population_size", "max_cycles", "fitness_error", "early_stopping"): continue
        v0 = base.get(f, info.default)
        if isinstance(v0, bool) or not isinstance(v0, float): continue
        k = 0
        while k * step <= 1.0 + 1e-9:
            c = round(k * step, 6); k += 1
            try:
                ccls(**{**base, f: c})
            except Exception:
                continue
            out.append({f: c})
    return out
