"""Harness-side helpers that drive the REAL package (imported from /repo, never re-implemented)."""
from __future__ import annotations
import contextlib
import io
import os
import sys
import warnings

REPO = os.environ.get("PV_REPO", "/repo")
if REPO not in sys.path:
    sys.path.insert(0, REPO)
warnings.filterwarnings("ignore")

import numpy as np  # noqa: E402
import pyvolutionary  # noqa: E402
from pyvolutionary import Agent, Task, ContinuousMultiVariable  # noqa: E402
from pyvolutionary.abstract import OptimizationAbstract  # noqa: E402
from pyvolutionary.models import BaseOptimizationConfig  # noqa: E402
from pyvolutionary.enums import TaskType, ModeSolver  # noqa: E402

assert os.path.realpath(pyvolutionary.__file__).startswith(os.path.realpath(REPO)), pyvolutionary.__file__


class DummyTask(Task):
    def objective_function(self, x):
        return 0.0


def dummy_task(minmax="min", dim=1):
    return DummyTask(variables=[ContinuousMultiVariable(name="x", lower_bounds=[-1.0] * dim, upper_bounds=[1.0] * dim)],
                     minmax=minmax)


class Scripted(OptimizationAbstract):
    """population k of the script is installed at cycle k (k = 0 is the initial population); drives the
    real optimize() / helper methods through arbitrary population histories."""

    def __init__(self, config=None, script=None):
        super().__init__(config)
        self.script = script or [[]]
        self.steps = 0

    def set_config_parameters(self, parameters):
        self._config = BaseOptimizationConfig(**parameters)

    def _init_population(self):
        self.steps = 0
        self._population = list(self.script[0])

    def optimization_step(self):
        self.steps += 1
        self._population = list(self.script[min(self.steps, len(self.script) - 1)])


def quiet():
    return contextlib.redirect_stdout(io.StringIO())


def mk_agent(i, cost, fitness=0.5):
    return Agent(position=[i], cost=cost, fitness=fitness)


def exc_class(e: BaseException) -> str:
    """small enum of error classes used when comparing with the model's None / error values"""
    n = type(e).__name__
    if n in ("ValueError",): return "ErrValue"
    if n in ("TypeError",): return "ErrType"
    if n in ("IndexError", "KeyError"): return "ErrIndex"
    if n == "ValidationError": return "ErrValidation"
    return "ErrOther:" + n


# ------------------------------------------------------------------ a picklable table-driven optimizer (C19, C20)
import json as _json
import os as _os


class TableConfig(BaseOptimizationConfig):
    population_size: int = 1
    max_cycles: int = 1
    a: int = 0
    b: int = 0
    c: int = 0


class TableOptimizer(OptimizationAbstract):
    """optimize() does no search: its best cost is table[parameters][k] for the k-th call made under those parameters
    (call indexes are claimed through marker files in `logdir`, so it works across the worker processes of
    HyperTuner / Multitask), and every call is logged with the parameters, mode and workers it saw."""

    def __init__(self, config=None, debug=False, table=None, logdir=None):
        super().__init__(config, debug)
        self.table = table or {}
        self.logdir = logdir

    def set_config_parameters(self, parameters):
        self._config = TableConfig(**parameters)

    def optimization_step(self):
        pass

    def key(self):
        c = self._config
        return f"{c.a},{c.b},{c.c}"

    def optimize(self, task, mode=None, workers=None):
        from pyvolutionary.models import OptimizationResult, Population
        if not self._config:
            raise ValueError("Invalid configuration")
        key = self.key()
        k = 0
        while True:
            try:
                fd = _os.open(_os.path.join(self.logdir, f"{self.name}_{key}_{task.name}_{k}"), _os.O_CREAT | _os.O_EXCL | _os.O_WRONLY)
                break
            except FileExistsError:
                k += 1
        _os.write(fd, _json.dumps({"algo": self.name, "key": key, "k": k, "mode": mode, "workers": workers, "task": task.name}).encode())
        _os.close(fd)
        scores = self.table.get(key, [0.0])
        cost = scores[k % len(scores)]
        internal = cost if task.minmax == TaskType.MIN else -cost
        a = Agent(position=[0.0], cost=internal, fitness=0.5)
        return OptimizationResult(evolution=[Population(agents=[a], task_type=task.minmax)], rates=[0.0], best_solution=a, task_type=task.minmax)


class TableOptimizerB(TableOptimizer):
    pass


class TableOptimizerC(TableOptimizer):
    pass


class DummyTaskB(DummyTask):
    pass


class DummyTaskC(DummyTask):
    pass


def read_call_log(logdir):
    out = []
    for f in sorted(_os.listdir(logdir)):
        with open(_os.path.join(logdir, f)) as fh:
            out.append(_json.loads(fh.read()))
    return out
