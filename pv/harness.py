"""Harness-side helpers that drive the REAL package (imported from /repo, never re-implemented)."""
from __future__ import annotations
import contextlib
import io
import os
import sys
import warnings

REPO = os.environ.get("PV_REPO", "/repo")
if REPO not in sys.path:
    sys.path.insert(0, REPO)
warnings.filterwarnings("ignore")

import numpy as np  # noqa: E402
import pyvolutionary  # noqa: E402
from pyvolutionary import Agent, Task, ContinuousMultiVariable  # noqa: E402
from pyvolutionary.abstract import OptimizationAbstract  # noqa: E402
from pyvolutionary.models import BaseOptimizationConfig  # noqa: E402
from pyvolutionary.enums import TaskType, ModeSolver  # noqa: E402

assert os.path.realpath(pyvolutionary.__file__).startswith(os.path.realpath(REPO)), pyvolutionary.__file__


class DummyTask(Task):
    def objective_function(self, x):
        return 0.0


def dummy_task(minmax="min", dim=1):
    return DummyTask(variables=[ContinuousMultiVariable(name="x", lower_bounds=[-1.0] * dim, upper_bounds=[1.0] * dim)],
                     minmax=minmax)


class Scripted(OptimizationAbstract):
    """population k of the script is installed at cycle k (k = 0 is the initial population); drives the
    real optimize() / helper methods through arbitrary population histories."""

    def __init__(self, config=None, script=None):
        super().__init__(config)
        self.script = script or [[]]
        self.steps = 0

    def set_config_parameters(self, parameters):
        self._config = BaseOptimizationConfig(**parameters)

    def _init_population(self):
        self.steps = 0
        self._population = list(self.script[0])

    def optimization_step(self):
        self.steps += 1
        self._population = list(self.script[min(self.steps, len(self.script) - 1)])


def quiet():
    return contextlib.redirect_stdout(io.StringIO())


def mk_agent(i, cost, fitness=0.5):
    return Agent(position=[i], cost=cost, fitness=fitness)


def exc_class(e: BaseException) -> str:
    """small enum of error classes used when comparing with the model's None / error values"""
    n = type(e).__name__
    if n in ("ValueError",): return "ErrValue"
    if n in ("TypeError",): return "ErrType"
    if n in ("IndexError", "KeyError"): return "ErrIndex"
    if n == "ValidationError": return "ErrValidation"
    return "ErrOther:" + n
